"""C13 - Salamander is transparent, spec-exact, and drops junk."""
import hashlib, json, os

from hv.core import Broken

MANIFEST = dict(
    text="TLC exhausts Sys_Salamander (conn.go's ReadFrom/WriteTo with both mutexes and both shared buffers, salamander.go's mutex-guarded key-input buffer; 2 writers x 2 readers, junk datagrams) against the Prop_C13 monitor, and rejects model mutants (each mutex removed, early unlock, junk ends the loop, retry with the read mutex held; two per quick run, all seven in thorough). A ReadFrom call that does not return within 45 s on the never-blocking inner socket is logged as ReadStalled and judged by the monitor (Delivery_Stalled if a well-formed packet is pending). The real WrapPacketConnSalamander runs over an in-memory inner socket: boundary/all payload lengths 1..2040, keys 4..100 bytes, junk 0..8 bytes, a pair of separately wrapped sockets, TLC-generated write/inject/read orders, and concurrent writers+readers on one socket. Every datagram on the inner socket is recorded; python hashlib supplies ks = BLAKE2b-256(key||salt); TLC validates every trace against the same monitor (XOR structure via Bitwise, counts, drop/retry, exactly-once arrival).",
    note="Trusted: TLC, python hashlib.blake2b as the oracle for the uninterpreted hash and for the full-length comparison of payloads longer than 96 bytes (TLC itself checks salt + first 64 and last 40 bytes of those, everything of shorter ones). A zero-length datagram is returned by ReadFrom as n=0 (not treated as surfacing). Concurrency faults in the real code are found by stress, not by controlled schedules; the exhaustive interleaving argument is the model's.",
    tech="TLA+ model checking (TLC) + TLC-generated scenario replay + independent hash oracle + TLC trace validation of real-code traces", ref="5/C13")

CUT, HEAD, TAIL = 96, 64, 40


def _compact(b):
    """(head, tail, toff) of a payload-like byte list."""
    if len(b) <= CUT:
        return b, [], 0
    return b[:HEAD], b[-TAIL:], len(b) - TAIL


def oracle(src, dst):
    """Add ks / pyOk / pyEq (python hashlib, independent of the code under test) and compact long byte strings."""
    key = b""
    inj = {}
    n = 0
    with open(dst, "w") as w:
        for line in open(src):
            line = line.strip()
            if not line:
                continue
            e = json.loads(line)
            ev = e["ev"]
            if ev == "Reset":
                key = bytes(e.get("key", []))
                inj = {}
            elif ev in ("WireOut", "Inject"):
                wire, pay = e["wire"], e["pay"]
                ks = list(hashlib.blake2b(key + bytes(wire[:8]), digest_size=32).digest()) if len(wire) >= 8 else []
                ok = len(wire) == len(pay) + 8 and all(wire[8 + i] == (pay[i] ^ ks[i % 32]) for i in range(len(pay)))
                if ev == "Inject":
                    inj[e["iid"]] = pay
                    if e["kind"] == "junk":
                        ok = True
                body, wtail, _ = _compact(wire[8:])
                ph, ptail, toff = _compact(pay)
                e.update(wlen=len(wire), plen=len(pay), wire=wire[:8] + body, pay=ph, wtail=wtail, ptail=ptail, toff=toff, ks=ks, pyOk=ok)
            elif ev == "ReadRet":
                out = e["out"]
                oh, otail, _ = _compact(out)
                e.update(olen=len(out), out=oh, otail=otail, pyEq=(inj.get(e["iid"]) == out) if e["n"] > 0 else True)
            w.write(json.dumps(e) + "\n")
            n += 1
    return n


def sig(e):
    if e["ev"] in ("WireOut", "Inject"):
        return "%s:plen=%s,wlen=%s" % (e["ev"], e.get("plen"), e.get("wlen"))
    if e["ev"] == "ReadRet":
        return "ReadRet:n=%s" % e.get("n")
    if e["ev"] == "New":
        return "New:klen=%s" % e.get("klen")
    return e["ev"]


def distinct(e):
    if e["ev"] == "WireOut":
        return ("W", e["plen"], tuple(e["wire"][:8]))
    if e["ev"] == "ReadRet" and e["n"] > 0:
        return ("R", e["scn"], e["iid"])
    return None


def run(ctx):
    T = ctx.thorough
    if ctx.replay:
        ctx.validate("Prop_C13", sig=sig, distinct=distinct)
        return ctx.finish(rule="replay")
    # thorough: the small configuration with per-action coverage (vacuity report), the big one without (coverage halves TLC's speed)
    ctx.tlc_mc("MC_Salamander", "MC_Salamander.cfg", coverage=T, workers=8)
    if T:
        ctx.tlc_mc("MC_Salamander", "MC_Salamander_big.cfg", timeout=1200)
    muts = ("NoRMu", "NoWMu", "NoLk", "EarlyUnlock", "JunkReturn", "LockedRetry", "KeyAlias")
    if not T:   # quick: two of the model mutants (rotating with the seed); thorough: all of them
        muts = [muts[ctx.seed % len(muts)], muts[(ctx.seed + 2) % len(muts)]]
    for m in muts:
        ctx.tlc_mc("MC_Salamander", "MC_Salamander_mut%s.cfg" % m, expect_violation=True, workers=4)
    scns = ctx.tlc_gen("MC_Salamander", "Gen_Salamander.cfg", num=1500 if T else 150, depth=200)
    ctx.write_scenarios("salamander", scns)
    ctx.go_test("extras", "./obfs/", "TestVerif_C13$", ["harness/extras/obfs/c13_test.go"], timeout=900 if T else 240)
    raw = os.path.join(ctx.out, "trace-C13.ndjson")
    if not os.path.exists(raw):
        raise Broken("driver wrote no trace")
    cooked = os.path.join(ctx.out, "trace-C13-oracle.ndjson")
    oracle(raw, cooked)
    os.remove(raw)
    ctx.validate("Prop_C13", traces=[cooked], sig=sig, distinct=distinct)
    ctx.assumptions += ["BLAKE2b-256 is uninterpreted in TLA+: ks = BLAKE2b-256(key || salt) comes from python hashlib for every recorded datagram",
                        "payloads longer than 96 bytes: TLC checks salt, first 64 and last 40 bytes (index mod 32 by offset) and all lengths; full-length equality is the python oracle's boolean",
                        "a zero-length datagram from the inner socket is returned as n=0 and not counted as a surfaced packet",
                        "caller buffers are at least 2048 bytes (as quic-go's are)"]
    return ctx.finish(rule="WireOut: distinct (payload length, salt) datagrams written through the real wrapper and checked against the oracle keystream; ReadRet: datagrams surfaced by the real ReadFrom (sequential, paired sockets, TLC-generated orders, concurrent readers/writers)")
