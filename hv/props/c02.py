"""C02 - Unauthenticated peers see only the masquerade web server."""
from hv.props import c01

MANIFEST = dict(
    text="Same model and executions as C01 (Sys_AuthGate, raw QUIC/HTTP-3 clients against a real server), judged by the Prop_C02 monitor: every response to a request that is not an accepted authentication is compared (status, headers minus Date, body) with the response of a stock http3.Server running the same masquerade handler (default 404 and a custom handler), must not be 233 and must not carry Hysteria-* headers; unauthenticated 0x401 streams and datagrams must be indistinguishable from what the stock server does.",
    note="Trusted: TLC; the oracle is a stock HTTP/3 server of the same quic-go fork (what a prober could compare with). Near-miss table: method, :authority (case, port, trailing dot), path variants, all with valid credentials.",
    tech="TLA+ model checking (TLC) + TLC-generated scenario replay + TLC trace validation against an independent oracle server", ref="5/C02")


def distinct(e):
    if e["ev"] == "HTTPResp":
        return (e["method"], e["host"], e["path"], e["credok"], e["status"])
    return None


def run(ctx):
    c01.model(ctx)
    ctx.validate("Prop_C02", sig=c01.sig, distinct=distinct, traces=[ctx.out + "/trace-C01.ndjson"])
    return ctx.finish(rule="one case = one HTTP/3 response or raw-stream outcome compared with the oracle; distinct = (method, host, path, credentials ok, status)")
