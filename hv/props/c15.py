"""C15 - Traffic stats API conserves bytes; kick and online counts are exact."""

MANIFEST = dict(
    text="TLC exhausts Sys_Stats (the stats object's critical sections transcribed from extras/trafficlogger/http.go, called by 3 concurrent processes in every interleaving; plus the server-side connection life cycle of core/server: online +1 per accepted auth, -1 when the handler returns, refused report closes the connection) against the Prop_C15 monitor, whose clauses are order independent or judged on isolated calls only. TLC-generated operation histories are replayed on the real stats server (LogTraffic/LogOnlineState + ServeHTTP), goroutines hammer it with every call recorded as a Call/Ret pair, and TLC-generated connection histories are replayed on a real core server + real clients over loopback UDP with the real stats server as TrafficLogger; every recorded trace is validated by TLC against the same monitor.",
    note="Trusted: TLC, the Go scheduler to produce overlapping calls (the split-clear / unlocked-add / RLock-clear mutants are caught in every seed tried), loopback UDP delivery within the bounded census wait (10 s, 14 s for abrupt client loss). Model bounds: 2 users, 3 processes x 4(5) operations; 2(3) connections x 7(11) steps. A second kick of a user while one is pending is not judged (statement silent).",
    tech="TLA+ model checking (TLC) + TLC-generated scenario replay + TLC trace validation of real-code traces (Call/Ret histories, order-independent monitor)", ref="5/C15")


def sig(e):
    if e["ev"] in ("Call", "Ret"):
        return "%s:%s" % (e["ev"], e.get("op"))
    return e["ev"]


def distinct(e):
    if e["ev"] == "Ret" and e["op"] in ("traffic", "getonline"):
        return ("S", e["op"], json_key(e["snap"]))
    if e["ev"] == "Ret" and e["op"] == "log" and not e["ok"]:
        return ("R", e["scn"], e["seq"])
    if e["ev"] == "Census":
        return ("C", json_key(e["snap"]), e["scn"] % 50)
    return None


def json_key(x):
    import json
    return json.dumps(x)


def run(ctx):
    T = ctx.thorough
    ctx.tlc_mc("MC_Stats", "MC_Stats_big.cfg" if T else "MC_Stats.cfg", timeout=1500, coverage=T)
    if T:
        ctx.tlc_mc("MC_Stats", "MC_Stats_big5.cfg", timeout=1500)
    ctx.tlc_mc("MC_Stats", "MC_Stats_online_big.cfg" if T else "MC_Stats_online.cfg", timeout=900)
    ctx.tlc_mc("MC_Stats", "MC_Stats_conn_big.cfg" if T else "MC_Stats_conn.cfg", timeout=900, coverage=T)
    for m in ("mutClear", "mutKick", "mutLate", "mutAuth") + (("mutVeto", "mutLog", "mutFloor") if T else ()):
        ctx.tlc_mc("MC_Stats", "MC_Stats_%s.cfg" % m, expect_violation=True)
    scns = ctx.tlc_gen("MC_Stats", "Gen_Stats.cfg", num=2000 if T else 250, depth=31)
    ctx.write_scenarios("stats", scns)
    scns = ctx.tlc_gen("MC_Stats", "Gen_StatsConn.cfg", num=1500 if T else 200, depth=40)
    ctx.write_scenarios("conns", scns)
    files = ["harness/extras/trafficlogger/c15_api_test.go", "harness/extras/trafficlogger/c15_srv_test.go"]
    ctx.go_test("extras", "./trafficlogger/", "TestVerif_C15_API$", files)
    ctx.go_test("extras", "./trafficlogger/", "TestVerif_C15_Server$", files, timeout=1200)
    ctx.validate("Prop_C15", sig=sig, distinct=distinct)
    ctx.assumptions += [
        "Call events are logged before the real call starts and Ret events after it returned, so precedence in the trace implies real-time precedence; exact expectations are applied to isolated calls only",
        "drivers issue a second kick of a user only after the previous one was seen to refuse a report (otherwise the user is excluded from the kick clauses)",
        "a census is judged at quiescence: GET /online is polled until it agrees with the connections the driver holds and is stable (bounded wait); the last sample is what the monitor sees",
        "byte counts stay below 2^31 (TLC integers)"]
    return ctx.finish(rule="distinct snapshots returned by GET /traffic and GET /online, refused reports, and full-stack censuses")
