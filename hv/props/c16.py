"""C16 - Reconnecting client: one live connection, reconnect on loss, Close is final."""
MANIFEST = dict(
    text="TLC exhausts Sys_Reconnect (clientDo in its three steps under/outside the mutex, reconnect(), Close, with connection kills, failing configuration and unreachable server at any point, 2-3 concurrent callers) against the Prop_C16 monitor (at most one open factory socket at quiescence, superseded sockets closed, reconnect through a freshly evaluated configuration with count+1 after a loss report, no reconnect after a recoverable stream-limit error, Close final) and rejects six mutants - one of them the tree as found (dropped client never closed), another a loss handler that forgets whatever client is current instead of its own; TLC-generated and seeded histories (including requests in flight at the moment of the loss, every caller retrying at once) run against client.NewReconnectableClient and a real server in a bubble with a counting connection factory; TLC validates every recorded execution.",
    note="Trusted: TLC, synctest, the counting factory. A loss report counts for the reconnect clause only when no kill happened while that call ran (otherwise the monitor cannot tell which generation it is about).",
    tech="TLA+ model checking (TLC) + TLC-generated scenario replay + TLC trace validation of real-code traces", ref="5/C16")


def sig(e):
    return e["ev"]


def distinct(e):
    return ("scn", e["scn"]) if e["ev"] == "Reset" else None


def run(ctx):
    T = ctx.thorough
    ctx.tlc_mc("Sys_Reconnect", "MC_Reconnect_big.cfg" if T else "MC_Reconnect.cfg", timeout=1500)
    if T:
        ctx.tlc_mc("Sys_Reconnect", "MC_Reconnect_big2.cfg", timeout=1500)     # 3 callers, 4 generations, 6 calls (7.3 M states)
    for m in ("CloseDropped", "CheckClosedFlag", "LimitIsRecoverable", "ReconnectWhenNil", "ClosedCheckLocked", "DropOnlyOwn"):
        ctx.tlc_mc("Sys_Reconnect", "MC_Reconnect_mut%s.cfg" % m, expect_violation=True)
    scns = ctx.tlc_gen("Sys_Reconnect", "Gen_Reconnect.cfg", num=300 if T else 40, depth=80)
    import random
    random.Random(ctx.seed).shuffle(scns)
    scns = scns[:(600 if T else 60)]
    ctx.write_scenarios("reconnect", scns)
    ctx.go_test("core", "./internal/integration_tests/", "TestVerif_C16$",
                ["harness/core/internal/integration_tests/e2e_common_test.go", "harness/core/internal/integration_tests/c16_test.go"], timeout=600)
    ctx.validate("Prop_C16", sig=sig, distinct=distinct)
    return ctx.finish(rule="one case = one history of TCP/UDP calls (sequential and concurrent), connection kills, failing reconnects, Close; distinct = scenarios")
