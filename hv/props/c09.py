"""C09 - ACL decisions are first-match and independent of lookup history."""
from hv.core import Broken

MANIFEST = dict(
    text="TLC exhausts Sys_ACL (compiledRuleSetImpl.Match transcribed: LRU decision cache keyed by normalised host|v4|v6+proto+port, "
         "linear scan, back-tracking wildcard matcher, suffix/CIDR/IP/port/protocol predicates; rule lists drawn from a pool, query "
         "sequences that overflow the cache) against the Prop_C09 monitor, which evaluates First(rules, query) itself in TLA+ "
         "(independent formulation: position-set wildcard matching, bit-prefix CIDR). TLC-generated (rule list, query sequence) "
         "behaviours and seeded random rule files with long query streams are run through the real ParseTextRules+Compile+Match "
         "(cache sizes 1..1024, every query also asked on a freshly compiled history-free copy; plus a concurrent phase: 8-12 goroutines looking up "
         "unique host names on ONE rule set with wildcard rules, each answer and its later re-ask logged as Match events) and through the real "
         "NewACLEngineFromString with recording outbounds (default fallback, reject, hijack rewriting, >1024 distinct keys); "
         "every real answer is validated by TLC against the same monitor.",
    note="Trusted: TLC; the harness' rendering of the structured rule (logged for the monitor) into ACL text. "
         "Limits: ASCII host names without xn-- labels, rule ports >= 1, IPv6 slot never holds IPv4-mapped addresses, GeoIP/GeoSite not covered.",
    tech="TLA+ model checking (TLC) + TLC-generated scenario replay + TLC trace validation of real-code traces", ref="5/C09")


def sig(e):
    if e["ev"] in ("Match", "Engine"):
        return "%s:host=%s,proto=%s,port=%s" % (e["ev"], "".join(chr(c) for c in e["host"]), e.get("proto", e.get("op")), e["port"])
    return e["ev"]


def distinct(e):
    if e["ev"] == "Match":
        return ("M", e["scn"], tuple(e["host"]), tuple(e["v4"]), tuple(e["v6"]), e["proto"], e["port"])
    if e["ev"] == "Engine":
        return ("E", e["scn"], e["op"], tuple(e["host"]), tuple(e["v4"]), tuple(e["v6"]), e["port"])
    return None


def run(ctx):
    T = ctx.thorough
    ctx.tlc_mc("MC_ACL", "MC_ACL_big.cfg" if T else "MC_ACL.cfg", coverage=T, timeout=1500)
    if T:
        ctx.tlc_mc("MC_ACL", "MC_ACL_big3.cfg", timeout=1500)   # three-rule lists (rule-order interactions)
    muts = ["KeyNoPort", "SuffixNoDot"] + (["PortHi", "KeyNoProto", "KeyNoV6"] if T else [])
    for m in muts:
        ctx.tlc_mc("MC_ACL", "MC_ACL_mut%s.cfg" % m, expect_violation=True)
    scns = ctx.tlc_gen("MC_ACL", "Gen_ACL.cfg", num=1500 if T else 150, depth=14)
    ctx.write_scenarios("acl", scns)
    ctx.go_test("extras", "./outbounds/acl/", "TestVerif_C09(Conc)?$", ["harness/extras/outbounds/acl/c09_test.go"])
    ctx.go_test("extras", "./outbounds/", "TestVerif_C09Engine$", ["harness/extras/outbounds/c09_engine_test.go"])
    events = ctx.validate("Prop_C09", sig=sig, distinct=distinct)
    if not ctx.replay:
        hit = sum(1 for e in events if e["ev"] == "Match" and e["cout"] != 0)
        miss = sum(1 for e in events if e["ev"] == "Match" and e["cout"] == 0)
        hij = sum(1 for e in events if e["ev"] == "Engine" and e["aIP"] and e["aHost"] != e["host"])
        dfl = sum(1 for e in events if e["ev"] == "Engine" and e["called"] in (1, 97))
        if not ctx.viol and (hit < 50 or miss < 50 or hij < 5 or dfl < 5):
            raise Broken("driver is vacuous: matches=%d no-matches=%d hijacks=%d default=%d" % (hit, miss, hij, dfl))
        procs = [e["procs"] for e in events if e["ev"] == "ConcInfo"]
        if not procs:
            raise Broken("the concurrent-lookup phase did not run")
        ctx.extra["c09_mix"] = dict(matched=hit, unmatched=miss, engine_hijacks=hij, concurrent_phase_processors=procs[0])
        if procs[0] < 2:
            ctx.assumptions.append("WARNING: only one processor was available: the concurrent-lookup phase ran without real parallelism")
    ctx.assumptions += ["host names are ASCII without xn-- labels (IDNA decoding is third-party); rule ports are >= 1 (a range starting at 0 means 'any port' in the code)",
                        "the IPv6 slot of a query never holds an IPv4-mapped address",
                        "the harness' rendering of a structured rule to ACL text is trusted (several equivalent spellings are exercised)",
                        "concurrent phase: 8-12 goroutines on one compiled rule set, unique host names; a race needs >= 2 processors and is observed probabilistically (about 2-3% of the lookups with the seeded shared-buffer matcher)"]
    return ctx.finish(rule="distinct (scenario, host, v4, v6, protocol, port) lookups on real compiled rule sets / ACL engines, each compared with the monitor's own First(rules, query)")
