"""C19 - Port hopping stays inside the configured port set and leaks no sockets."""

MANIFEST = dict(
    text="TLC exhausts Sys_PortUnion (ParsePortUnion/Normalize/Ports/Contains/hop addresses transcribed, every expression of <=3 items over a small port universe, plus a lemma run that the monitor's interval reasoning equals explicit set equality) and Sys_UDPHop (hop / WriteTo / Close critical sections, ReadFrom select, receive loops, failing listens, callers racing the hop timer) against the Prop_C19 monitor; TLC-generated expressions (rendered onto the real edge ports) and hop schedules are replayed into the real utils.ParsePortUnion / udphop.ResolveUDPHopAddr / udpHopPacketConn (testing/synctest bubble, fake ListenUDPFunc with socket census), together with seeded random expressions and fault schedules; every recorded event is validated by TLC against the same monitor, which computes the denotation of each expression itself.",
    note="Trusted: TLC, the harness' canonical interval list of the returned port set, the fake sockets' census. Model bounds: ports 0..4 (0..6 thorough) x <=3 items; <=5(7) driver steps, <=3(4) hop timer firings, 2 packets. Hop-interval and normal-form expectations are DRIFT clauses only.",
    tech="TLA+ model checking (TLC) + TLC-generated scenario replay + TLC trace validation of real-code traces", ref="5/C19")


def sig(e):
    if e["ev"] == "Parse":
        return "Parse:" + e.get("expr", "")
    return e["ev"]


def distinct(e):
    if e["ev"] == "Parse":
        return ("P", e["expr"])
    if e["ev"] == "Listen" and e["ok"] and e["sock"] > 1:
        return ("H", e["scn"], e["sock"])
    return None


def run(ctx):
    T = ctx.thorough
    # ---- models
    ctx.tlc_mc("MC_PortUnion", "MC_PortUnion_big.cfg" if T else "MC_PortUnion.cfg", timeout=1500, workers=16 if T else 8)
    if T:
        ctx.tlc_mc("MC_PortUnion", "MC_PortUnion_big6.cfg", timeout=1500)
    for m in (("gap2", "noswap", "skip0") if T else ("gap2", "skip0")):
        ctx.tlc_mc("MC_PortUnion", "MC_PortUnion_mut_%s.cfg" % m, expect_violation=True, workers=4)
    ctx.tlc_mc("MC_UDPHop", "MC_UDPHop_big.cfg" if T else "MC_UDPHop.cfg", coverage=T, timeout=1500, workers=16 if T else 8)
    hop_muts = ("keepprev", "failclosesprev", "closeskipsprev", "writeprev", "anyport", "readclosed", "nounblock", "latecheck", "wunlocked")
    for m in (hop_muts if T else ("keepprev", "wunlocked")):
        ctx.tlc_mc("MC_UDPHop", "MC_UDPHop_mut_%s.cfg" % m, expect_violation=True, workers=4)
    # ---- scenarios
    ctx.write_scenarios("portunion", ctx.tlc_gen("MC_PortUnion", "Gen_PortUnion.cfg", bfs=True))
    ctx.write_scenarios("udphop", ctx.tlc_gen("MC_UDPHop", "Gen_UDPHop.cfg", num=4000 if T else 1200, depth=80))
    # ---- real code
    ctx.go_test("extras", "./transport/udphop/", "TestVerif_C19_", ["harness/extras/transport/udphop/c19_hop_test.go"], timeout=1500)
    ctx.validate("Prop_C19", sig=sig, distinct=distinct)
    ctx.assumptions += [
        "the canonical interval list of the returned port SET is computed by the harness from the ports themselves; the monitor decides set equality with the written items",
        "invalid expressions: only 'a foreign port appears' is a violation; accepting a malformed item is reported as drift",
        "sockets are fakes created by the injected ListenUDPFunc (census, WriteTo destinations); read deadlines of the fakes never expire",
        "delivery is demanded only at quiescent points of the bubble and only for packets that arrived on the newest or second-newest socket before Close was called",
    ]
    return ctx.finish(rule="Parse: distinct expression strings evaluated on the real parser; hop: sockets created by successful hops of a real udpHopPacketConn (TLC schedules + seeded random schedules)")
