"""C12 - BBR survives any QUIC-consistent event sequence with sane outputs."""

MANIFEST = dict(
    text="TLC exhausts Sys_PNQueue (the sampler's packet-number indexed queue transcribed onto its ring buffer, grow/wrap included) and Sys_Bbr (Env_Quic: every legal send/skip/ack-subset/threshold-loss/size-raise sequence on a handful of packets x the transcribed window, recovery-window, datagram-size and pacing-floor arithmetic with the bandwidth estimate left arbitrary) against the Prop_C12 monitor; TLC-generated queue operations and QUIC event schedules are replayed on the real packetNumberIndexedQueue / bbrSender (3 profiles), and a QUIC-consistent bottleneck simulator (loss, ack aggregation, app-limited phases, gaps, ACK-only packets, MTU probe, PTO) drives the real bbrSender; every recorded call is validated by TLC against the same monitor, which also checks the legality of the stimulus.",
    note="Trusted: TLC, the harness' simulator (its stimulus is re-checked against Env_Quic by the monitor), white-box reads of bandwidthForPacer() and the sampler's EntrySlotsUsed(). 'Proportional to the packets in flight' is formalised as slots <= 2 x (packet numbers from min(oldest in flight, largest acked - 2) to the newest sent) + 16. Throughput >= 1/2 capacity after a 5 s warm-up is a measured postcondition of simulated loss-free runs, not a model-checked liveness fact. The numeric quality of the bandwidth estimate is not specified. Model bounds: 4 packets (queue: packet numbers 0..5(7), ring sizes 1 and 2).",
    tech="TLA+ model checking (TLC) + TLC-generated scenario replay + TLC trace validation of real-code traces", ref="5/C12")


def sig(e):
    if e["ev"] == "QOp":
        return "QOp:" + e["op"]
    return e["ev"]


def distinct(e):
    if e["ev"] in ("Cong", "QOp", "SetMDS", "Pace"):
        return (e["ev"], e["scn"], e["seq"])
    return None


def run(ctx):
    T = ctx.thorough
    ctx.tlc_mc("MC_PNQueue", "MC_PNQueue_big.cfg" if T else "MC_PNQueue.cfg", coverage=T)
    ctx.tlc_mc("MC_Bbr", "MC_Bbr_big.cfg" if T else "MC_Bbr.cfg", coverage=T)
    if T:
        ctx.tlc_mc("MC_PNQueue", "MC_PNQueue2_big.cfg")
        ctx.tlc_mc("MC_Bbr", "MC_Bbr_big2.cfg", timeout=1200)
    # quick: one model mutant per Sys module (non-vacuity); thorough: all eight
    muts = [("MC_PNQueue", "MC_PNQueue_mutClearup.cfg"), ("MC_Bbr", "MC_Bbr_mutRecFloor.cfg"), ("MC_Bbr", "MC_Bbr_mutPacerMds.cfg")]
    if T:
        muts += [("MC_PNQueue", "MC_PNQueue_mutGrow.cfg"), ("MC_Bbr", "MC_Bbr_mutPrune.cfg"),
                 ("MC_PNQueue", "MC_PNQueue_mutPop.cfg"), ("MC_Bbr", "MC_Bbr_mutClamp.cfg"),
                 ("MC_Bbr", "MC_Bbr_mutMinBps.cfg"), ("MC_Bbr", "MC_Bbr_mutMds.cfg")]
    for mod, cfg in muts:
        ctx.tlc_mc(mod, cfg, expect_violation=True)
    q = ctx.tlc_gen("MC_PNQueue", "Gen_PNQueue.cfg", num=1500 if T else 150, depth=15)
    if T:
        q = q + ctx.tlc_gen("MC_PNQueue", "Gen_PNQueue2.cfg", num=1500, depth=15)
    ctx.write_scenarios("pnqueue", q)
    s = ctx.tlc_gen("MC_Bbr", "Gen_Bbr.cfg", num=1500 if T else 60, depth=14)
    ctx.write_scenarios("bbr", s)
    ctx.go_test("core", "./internal/congestion/bbr/", "TestVerif_C12", ["harness/core/internal/congestion/bbr/c12_queue_test.go",
                                                                          "harness/core/internal/congestion/bbr/c12_bbr_test.go"])
    ctx.validate("Prop_C12", sig=sig, distinct=distinct)
    ctx.assumptions += ["the stimulus is what quic-go's sent-packet handler produces: bytes in flight passed to OnPacketSent include the packet, acked/lost are in-flight packets in ascending order, packet threshold 3, datagram size only grows (checked by the monitor on every trace)",
                        "packet-number gaps are bounded by the runs of skipped numbers and ACK-only packets QUIC produces; the bookkeeping bound is in packet numbers, not in a count of ack-eliciting packets",
                        "pacing-limited decisions (CanSend, HasPacingBudget(now), TimeUntilSend(), HasPacingBudget at the announced time) are logged for every refusal; a stall is a verdict (NoDeadlock) only on the loss-free fixed-capacity runs the statement names, DRIFT_PaceStall elsewhere",
                        "loss-free fixed-capacity runs: unbounded bottleneck queue, no random loss, receiver acks every 2nd packet; throughput judged over 12 s after a 5 s warm-up"]
    return ctx.finish(rule="congestion events, datagram-size raises and queue operations recorded from the real bbrSender / packetNumberIndexedQueue (TLC-generated schedules x 3 profiles, loss-free runs x 3 profiles, seeded bottleneck simulations)")
