"""C08 - Every UDP datagram's destination passes the outbound policy."""
MANIFEST = dict(
    text="TLC exhausts Sys_UDPSessions in its policy configuration (3 destinations, decision cache of 2 with eviction, hook on/off) against the Prop_C08 monitor and rejects the 'no check once the cache is full', 'dial with the unrewritten address' and 'vet the address of the packet's first fragment, write to the last one's' mutants (fragments of one packet may name different destinations); seeded sequences over 300-1000 destinations (more than the real cache of 256, repeats after eviction, hooked sessions) and the TLC-generated behaviours are run on a real udpSessionManager and validated by TLC against the same monitor.",
    note="Trusted: TLC, the fakes' logging. The policy is an arbitrary predicate given to the monitor as the set of allowed destinations of each scenario; the monitor never looks at the cache.",
    tech="TLA+ model checking (TLC) + TLC trace validation of real-code traces", ref="5/C08")


def sig(e):
    return e["ev"]


def distinct(e):
    if e["ev"] == "Write":
        return (e["scn"], e["dst"])
    return None


def run(ctx):
    T = ctx.thorough
    ctx.tlc_mc("MC_UDPSessions", "MC_UDPSessions_C08.cfg", timeout=900)
    ctx.tlc_mc("MC_UDPSessions", "MC_UDPSessions_C08hook.cfg", timeout=900)
    ctx.tlc_mc("MC_UDPSessions", "MC_UDPSessions_C08_mutCheck.cfg", expect_violation=True)
    ctx.tlc_mc("MC_UDPSessions", "MC_UDPSessions_C08hook_mutVet.cfg", expect_violation=True)
    ctx.tlc_mc("MC_UDPSessions", "MC_UDPSessions_C08_mutVetWritten.cfg", expect_violation=True)
    scns = ctx.tlc_gen("MC_UDPSessions", "Gen_UDPSessions.cfg", num=200 if T else 40, depth=150, timeout=600)
    ctx.write_scenarios("udpsess", scns)
    ctx.go_test("core", "./server/", "TestVerif_C07$", ["harness/core/server/c07_test.go"], timeout=240)
    import os
    ctx.validate("Prop_C08", sig=sig, distinct=distinct, traces=[ctx.out + "/trace-C07.ndjson"])
    # end to end: the real ACL engine (extras) as the real server's Outbound, a real client, one session, hundreds of destinations
    if not ctx.replay:
        from hv import core
        src = open(os.path.join(core.VERIF, "harness/core/internal/integration_tests/e2e_common_test.go")).read()
        src = src.replace("package integration_tests", "package outbounds", 1).replace("github.com/apernet/hysteria/core/v2/internal/verifkit", "github.com/apernet/hysteria/extras/v2/internal/verifkit")
        common = os.path.join(ctx.out, "e2e_common_outbounds_test.go")
        open(common, "w").write(src)
        ctx.go_test("extras", "./outbounds/", "TestVerif_C08e$", [common, "harness/extras/outbounds/c08_e2e_test.go"], timeout=600)
    ctx.validate("Prop_C08e", sig=sig, traces=[ctx.out + "/trace-C08e.ndjson"])
    ctx.assumptions += ["the first destination of a session is vetted by the dial (Outbound.UDP), later ones by CheckUDP, as in the code; both fakes apply the same predicate"]
    return ctx.finish(rule="one case = one datagram written to an outbound socket; distinct = (scenario, destination) pairs")
