"""C17 - Sniffing is transparent to the proxied flow."""
import os, random

MANIFEST = dict(
    text="TLC exhausts Sys_SniffTCP (the Read-by-Read state machine of Sniffer.TCP: probe, tee'd bufio/LimitReader HTTP branch, TLS length+body ReadFull loops, over every tape kind x chunking x dry point x deadline/FIN, plus the UDP hook) against the Prop_C17 monitor; every tape TLC enumerates is concretised with real HTTP requests / crypto/tls ClientHellos and replayed into the real Sniffer behind a scripted HyStream, seeded random tapes at the real sizes and real QUIC Initials (independent RFC 9001 encryptor) are added, and TLC validates every Read/Ret/UDP event of the real code against the same monitor.",
    note="Trusted: TLC, the harness' byte comparison (replay is a prefix of the tape; datagram identical afterwards), hosts-by-construction of the payload grammar. Model bounds: tapes <=8 bytes, TLS length <=4, bufio 3, cap 7 (scaled); real sizes are exercised by the drivers.",
    tech="TLA+ model checking (TLC) + TLC-generated scenario replay + TLC trace validation of real-code traces", ref="5/C17")


def sig(e):
    if e["ev"] == "UDP":
        return "UDP:" + e.get("kind", "")
    if e["ev"] == "Panic":
        return "Panic:" + e.get("what", "")
    return e["ev"]


def distinct(e):
    if e["ev"] == "Tape":
        return ("T", e["kind"], e["len"], e["need"], e["avail"], e["chunks"], e["end"])
    if e["ev"] == "UDP":
        return ("U", e["kind"], e["len"], e["what"])
    return None


def run(ctx):
    T = ctx.thorough
    dev = os.environ.get("VERIF_DEV_SKIP_MC") == "1"      # development aid only (mutant loops): skips the model runs
    if not dev:
        ctx.tlc_mc("MC_SniffTCP", "MC_SniffTCP_big.cfg" if T else "MC_SniffTCP.cfg", coverage=T, workers=8 if T else 4)
    for m in () if dev else (("mutProbe", "mutShort", "mutTee", "mutPad", "mutPort", "mutPool", "mutInPlace") if T else ("mutProbe", "mutPool", "mutInPlace")):
        ctx.tlc_mc("MC_SniffTCP", "MC_SniffTCP_%s.cfg" % m, expect_violation=True, workers=2)
    # the scenarios are the initial states of the model: TLC enumerates all of them
    scns = ctx.tlc_gen("MC_SniffTCP", "Gen_SniffTCP.cfg", bfs=True)
    if scns and not T:
        rnd = random.Random(ctx.seed)
        rnd.shuffle(scns)
        scns = scns[:2500]
    ctx.write_scenarios("snifftcp", scns)
    ctx.go_test("extras", "./sniff/", "TestVerif_C17$",
                ["harness/extras/sniff/c17_test.go", "harness/extras/sniff/c17_vectors_test.go"])
    ctx.validate("Prop_C17", sig=sig, distinct=distinct, traces=[ctx.out + "/trace-C17.ndjson"] if os.path.exists(ctx.out + "/trace-C17.ndjson") else None)
    # end to end: a real server with the real Sniffer as its RequestHook (Prop_C17e).  The shared full-stack world of the
    # core drivers is injected into this package under the package's own name.
    if not ctx.replay:
        src = open(os.path.join(os.path.dirname(os.path.dirname(os.path.dirname(os.path.abspath(__file__)))), "harness/core/internal/integration_tests/e2e_common_test.go")).read()
        src = src.replace("package integration_tests", "package sniff", 1).replace("github.com/apernet/hysteria/core/v2/internal/verifkit", "github.com/apernet/hysteria/extras/v2/internal/verifkit")
        common = os.path.join(ctx.out, "e2e_common_sniff_test.go")
        open(common, "w").write(src)
        ctx.go_test("extras", "./sniff/", "TestVerif_C17e$", [common, "harness/extras/sniff/c17_e2e_test.go"])
    ctx.validate("Prop_C17e", sig=sig, traces=[ctx.out + "/trace-C17e.ndjson"])
    ctx.assumptions += [
        "the request address handed to the hook is a valid host:port (Sniffer.Check / the server guarantee it)",
        "hosts 'actually present' are the ones the payload grammar put into the Host header / absolute request target / SNI; decoy hosts elsewhere in the bytes are not",
        "a stream that runs dry (deadline) or ends (FIN) is modelled at chunk boundaries; data and FIN may arrive in one Read",
        "byte equality (replay is a prefix of the tape, datagram unchanged) is observed by the harness; lengths, counts, order and addresses are decided by the monitor"]
    return ctx.finish(rule="Tape: distinct (kind, length, need, avail, chunk count, end) of real tapes replayed through Sniffer.TCP; UDP: distinct (class, length, layout) datagrams through Sniffer.UDP")
