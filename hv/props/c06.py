"""C06 - TCP relay preserves the byte stream and accounts it exactly."""
MANIFEST = dict(
    text="TLC exhausts Sys_Relay (the two log-then-write copy loops, first-result tear-down, QStream.Close = cancel-read + FIN, veto at any logger call, either endpoint closing at any point) against the Prop_C06 monitor (prefix, whole-stream, approved-before-forwarded, accounting within one chunk, veto closes the connection, dial error reported) and rejects five mutants; TLC-generated endpoint/veto orderings, gated late-veto schedules, dial failures and seeded large-stream scenarios run through the real client and server (real QUIC streams, bubble) with a scripted TrafficLogger and a fake target; TLC validates every recorded execution against the same monitor.",
    note="Trusted: TLC, the harness' positional content check (bytes are generated from their stream offset), synctest. 'Whole' is asserted when the receiving endpoint stays passive until it sees the end of the stream (QStream.Close cancels the read side, so an active closer may cut its own unread tail: observation O1 in DESIGN.md). Hooked connections are outside this check.",
    tech="TLA+ model checking (TLC) + TLC-generated scenario replay + gated schedules + TLC trace validation of real-code traces", ref="5/C06")


def sig(e):
    return e["ev"]


def distinct(e):
    return ("scn", e["scn"]) if e["ev"] == "Reset" else None


def run(ctx):
    T = ctx.thorough
    ctx.tlc_mc("Sys_Relay", "MC_Relay_big.cfg" if T else "MC_Relay.cfg", timeout=1500)
    for m in ("LogBeforeWrite", "HonourVeto", "CloseConnOnVeto", "DrainOnEOF", "LateVetoCloses", "PutbackFirst"):
        ctx.tlc_mc("Sys_Relay", "MC_Relay_mut%s.cfg" % m, expect_violation=True)
    scns = ctx.tlc_gen("Sys_Relay", "Gen_Relay.cfg", num=400 if T else 60, depth=80)
    ctx.write_scenarios("relay", scns)
    ctx.go_test("core", "./internal/integration_tests/", "TestVerif_C06$",
                ["harness/core/internal/integration_tests/e2e_common_test.go", "harness/core/internal/integration_tests/c06_test.go"], timeout=2400)
    ctx.validate("Prop_C06", sig=sig, distinct=distinct)
    return ctx.finish(rule="one case = one proxied TCP connection: a schedule of client/target writes and closes, veto point, fast-open on/off, logger on/off, dial failure; distinct = scenarios")
