"""C03 - Peer-controlled bytes never crash the process."""
import glob, json, os, random, re, subprocess, time

from hv import core

MANIFEST = dict(
    text="TLC exhausts Sys_Shapes: per network-facing decoder a shape model (the quantities its index arithmetic depends on, drawn from boundary sets) that transcribes the decoder's checks and asserts every slice/index/allocation expression lo<=hi<=len, plus sequence models of the stateful receivers (Defragger, Gecko reassembly table). Every shape and sequence TLC enumerates is concretised to bytes (cap==len) and fed to the real entry points under recover() (protocol, frag, server/client UDP managers, sniff TCP/UDP + QUIC header/UnProtect/CRYPTO frames via an independent RFC 9001 encryptor, Salamander, Gecko, punch/STUN, speedtest server+client, auth response), with seeded byte-level perturbations on top; TLC validates every recorded call against the Prop_C03 monitor (no panic; service continues; DRIFT: outcome class = model's class).",
    note="The family applies in part (DESIGN 8): 'for every byte string' is covered by exhaustive shape models of hysteria-owned index arithmetic + replay + seeded perturbations; inputs decided inside third-party parsers (utls ClientHello, pion/stun, net/http, AEAD) are reached only through concrete vectors. Trusted: TLC, recover() in the harness. HUGE stands for the largest encodable field value.",
    tech="TLA+ model checking (TLC) + TLC-generated scenario replay + TLC trace validation of real-code traces", ref="5/C03")


def sig(e):
    if e["ev"] == "Dec":
        w = e.get("what", "")
        if e.get("dec") in ("quic", "sniffudp", "cframes-pkt", "quichdr") and e.get("outcome") == "panic":
            w = "unprotect" if "slice bounds out of range" in e.get("msg", "") else w
        return "Dec:%s:%s" % (e.get("dec"), w)
    return e["ev"] + ":" + str(e.get("what", e.get("dec", "")))


def distinct(e):
    if e["ev"] == "Dec":
        return (e["dec"], e["what"], e["outcome"])
    return None


def go_test_multi(ctx, mod, pkgs, timeout=900):
    """ctx.go_test for several packages of one module in ONE `go test` invocation
    (hv/core.py's go_test takes a single package; worked around here, see notes/C03.md).
    pkgs: {pkg path: [harness files]}"""
    if ctx.replay:
        return
    repl = {}
    for pkg, files in pkgs.items():
        pkgdir = os.path.normpath(os.path.join(core.REPO, mod, pkg))
        for f in files:
            repl[os.path.join(pkgdir, "zz_verif_" + os.path.basename(f))] = os.path.join(core.VERIF, f)
    for f in glob.glob(os.path.join(core.VERIF, "harness", "kit", "*.go")):
        repl[os.path.join(core.REPO, mod, "internal", "verifkit", os.path.basename(f))] = f
    ov = os.path.join(ctx.out, "overlay-%s-c03.json" % mod)
    json.dump({"Replace": repl}, open(ov, "w"), indent=1)
    env = dict(os.environ)
    env.update(GOPROXY="off", GOFLAGS="", VERIF_OUT=ctx.out, VERIF_SEED=str(ctx.seed), VERIF_TIER=ctx.tier)
    env.pop("GOTOOLCHAIN", None)
    gobin = "go"
    if os.path.exists("/opt/veriftools/go1.26.8/bin/go") and not os.environ.get("VERIF_GO_DEFAULT"):
        gobin = "/opt/veriftools/go1.26.8/bin/go"     # same toolchain as hv/core.py's go_test (see the note there)
        env["GOTOOLCHAIN"] = "local"
    cmd = [gobin, "test", "-tags", "verif", "-vet=off", "-overlay", ov, "-run", "TestVerif_C03$", "-count=1",
           "-timeout", "%ds" % timeout, "-v"] + sorted(pkgs)
    t = time.time()
    try:
        p = subprocess.run(cmd, cwd=os.path.join(core.REPO, mod), env=env, stdout=subprocess.PIPE, stderr=subprocess.STDOUT,
                           timeout=timeout + 60, text=True, errors="replace")
    except subprocess.TimeoutExpired:
        raise core.Broken("go test timeout: %s" % mod)
    dt = time.time() - t
    logf = os.path.join(ctx.out, "go-%s-TestVerif_C03.log" % mod)
    open(logf, "w").write(p.stdout)
    ran = re.findall(r"^--- (PASS|FAIL): (\S+)", p.stdout, re.M)
    oks = re.findall(r"^ok\s+(\S+)", p.stdout, re.M)
    if p.returncode != 0 or len(ran) != len(pkgs) or len(oks) != len(pkgs):
        tail = "\n".join(p.stdout.splitlines()[-25:])
        raise core.Broken("harness did not run cleanly (%s, rc=%d, %d/%d packages); a driver failure is not a verdict. log: %s\n%s"
                          % (mod, p.returncode, len(oks), len(pkgs), logf, tail))
    ctx.go.append(dict(mod=mod, pkg=" ".join(sorted(pkgs)), run="TestVerif_C03$", wall_s=round(dt, 1), tests=[x[1] for x in ran]))
    core.log("  go test %-44s ok (%.1fs, %d packages)" % (mod + " TestVerif_C03$", dt, len(pkgs)))


MUTANT_CFGS = ("mutD2", "mutD1", "mutGeckoPad", "mutTcpAddr", "mutUDPLen", "mutPunch", "mutFeedIdx")


def run(ctx):
    T = ctx.thorough
    dev = os.environ.get("VERIF_DEV_SKIP_MC") == "1"      # development aid only (mutant loops): skips the model runs
    if not dev:
        ctx.tlc_mc("MC_Shapes", "MC_Shapes_big.cfg" if T else "MC_Shapes.cfg", coverage=T, workers=8 if T else 4)
        for m in MUTANT_CFGS if T else ("mutD2", "mutD1", "mutFeedIdx"):
            ctx.tlc_mc("MC_Shapes", "MC_Shapes_%s.cfg" % m, expect_violation=True, workers=2)
    # every shape is an initial state of the model: TLC enumerates all of them with the class it computed
    shapes = ctx.tlc_gen("MC_Shapes", "Gen_Shapes.cfg", bfs=True)
    if not T and shapes:
        rnd = random.Random(ctx.seed)
        by = {}
        for s in shapes:
            by.setdefault(s["dec"], []).append(s)
        shapes = []
        for dec, ss in sorted(by.items()):
            rnd.shuffle(ss)
            shapes += ss[:1500]
    ctx.write_scenarios("shapes", shapes)
    seqs = ctx.tlc_gen("MC_Shapes", "Gen_ShapesSeq.cfg", num=2000 if T else 100, depth=10)
    if not T:
        seqs = seqs[:2000]
    ctx.write_scenarios("shapeseq", seqs)
    ctx.extra["shapes_replayed"] = len(shapes)
    ctx.extra["sequences_replayed"] = len(seqs)
    go_test_multi(ctx, "core", {
        "./internal/protocol/": ["harness/core/internal/protocol/c03_test.go"],
        "./internal/frag/": ["harness/core/internal/frag/c03_test.go"],
        "./server/": ["harness/core/server/c03_test.go"],
        "./client/": ["harness/core/client/c03_test.go"]})
    go_test_multi(ctx, "extras", {
        "./sniff/": ["harness/extras/sniff/c03_test.go", "harness/extras/sniff/c17_test.go", "harness/extras/sniff/c17_vectors_test.go"],
        "./sniff/internal/quic/": ["harness/extras/sniff/internal/quic/c03_test.go"],
        "./obfs/": ["harness/extras/obfs/c03_test.go"],
        "./realm/": ["harness/extras/realm/c03_test.go"],
        "./outbounds/speedtest/": ["harness/extras/outbounds/speedtest/c03_test.go"]})
    # the server's UDP session manager is one of the stateful receivers behind the decoders: the C07 driver (gated
    # interleavings, slow dials, idle expiry racing late fragments ...) is run here as well, and every Panic event it
    # records is judged by Prop_C03 (its other events are ignored by this monitor)
    ctx.go_test("core", "./server/", "TestVerif_C07$", ["harness/core/server/c07_test.go"], timeout=240)
    ctx.validate("Prop_C03", sig=sig, distinct=distinct)
    ctx.assumptions += [
        "slices handed to the decoders have cap == len (a larger capacity can hide an out-of-range slice expression)",
        "inputs whose handling is decided inside third-party parsers (utls, pion/stun, net/http, AEAD) are exercised by concrete vectors and seeded perturbations only (DESIGN 8)",
        "panics are observed by recover() in goroutines the harness owns; code that hysteria runs in goroutines of its own (receiveLoop) is driven through the function it calls (sendMessageAutoFrag)"]
    return ctx.finish(rule="distinct (decoder, input description, outcome) triples fed to the real entry points")
