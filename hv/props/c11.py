"""C11 - Brutal sends at the configured rate: bounded above, never stalled."""

MANIFEST = dict(
    text="TLC exhausts Sys_Brutal (code-shaped Pacer token bucket + BrutalSender slots/ackRate/window under a QUIC-like send loop, scaled units) against the Prop_C11 monitor (token-bucket rate observer at bps/0.8, ack-rate range/value over the 5 s window, window floor, wake-up sufficiency); TLC-generated send/idle/ack/loss schedules are replayed on the real BrutalSender+Pacer and seeded send loops at real rates 65536..5e9 B/s are recorded; every call is validated by TLC against the same monitor (wide values as base-2^15 limbs).",
    note="Trusted: TLC, the harness' virtual clock and its white-box read of BrutalSender.ackRate. The property's 'bounded burst' is taken as twice the pacer's nominal burst max(4 ms x rate/0.8, 10 datagrams); 'roughly 5 s' accepts the window with or without the slot exactly 5 s old. Idle gaps stay inside the range where rate x gap fits 63 bits, as the property states. Model bounds: 4 ticks/s, 3-byte datagrams, <=3(4) sends / <=3 ack batches.",
    tech="TLA+ model checking (TLC) + TLC-generated scenario replay + TLC trace validation of real-code traces", ref="5/C11")


def sig(e):
    return e["ev"]


def distinct(e):
    if e["ev"] == "Send" and e["paced"]:
        return ("S", e["scn"], e["seq"])
    if e["ev"] == "Ack":
        return ("A", e["scn"], e["seq"])
    if e["ev"] == "Until" and not e["zero"]:
        return ("W", e["scn"], e["seq"])
    return None


def run(ctx):
    T = ctx.thorough
    ctx.tlc_mc("MC_Brutal", "MC_Brutal_big.cfg" if T else "MC_Brutal.cfg", coverage=T)
    ctx.tlc_mc("MC_Brutal", "MC_BrutalAck_big.cfg" if T else "MC_BrutalAck.cfg", coverage=T)
    # quick: one model mutant per configuration (non-vacuity); thorough: all six
    muts = ["MC_Brutal_mutCeil.cfg", "MC_Brutal_mutStamp.cfg", "MC_BrutalAck_mutStale.cfg"]
    if T:
        muts += ["MC_Brutal_mutCap.cfg", "MC_BrutalAck_mutClamp.cfg", "MC_Brutal_mutConsume.cfg", "MC_Brutal_mutFloor.cfg"]
    for m in muts:
        ctx.tlc_mc("MC_Brutal", m, expect_violation=True)
    scns = ctx.tlc_gen("MC_Brutal", "Gen_Brutal.cfg", num=2500 if T else 120, depth=17)
    ctx.write_scenarios("brutal", scns)
    ctx.go_test("core", "./internal/congestion/brutal/", "TestVerif_C11$", ["harness/core/internal/congestion/brutal/c11_test.go"])
    ctx.validate("Prop_C11", sig=sig, distinct=distinct)
    ctx.assumptions += ["the time since the last send stays in the range where rate x gap fits 63 bits (stated in the property's quantifier)",
                        "bytes released by pacing = min(size, one datagram) of every send made on a HasPacingBudget grant; packets that bypass pacing (ACK-only, PTO/tail-loss probes) and the part of an oversize packet above one datagram are not counted, but they drain the observer's bucket as they must drain the pacer's (floored at zero, accrual restarting at that send)",
                        "the loss-compensation factor is read from BrutalSender.ackRate (white box) as floor(f*2^16); the float comparisons f>=0.8, f<=1 are observed by the harness",
                        "bounded burst := 2 x max(4 ms x rate/0.8, 10 datagrams)"]
    return ctx.finish(rule="paced sends, ack/loss batches and non-trivial wake-ups recorded from the real BrutalSender (TLC-generated schedules in two time scales + seeded loops at 24+ rates)")
