"""C07 - Server UDP sessions are isolated, expire when idle, and never leak."""
MANIFEST = dict(
    text="TLC exhausts Sys_UDPSessions (udp.go at lock granularity: receive loop, per-session reply loops, idle sweeper, three-step CloseWithErr, faults, connection loss, time) against the Prop_C07 monitor and structural invariants (delete-by-ID only ever removes the closing entry), rejects four guard-removal mutants, and checks the leak-freedom liveness property; TLC-generated environment behaviours and seeded random ones are replayed into a real udpSessionManager between logging fakes in a synctest bubble, and every recorded execution is validated by TLC against the same monitor.",
    note="Trusted: TLC, testing/synctest's virtual clock and quiescence detection, the fakes' logging. Events at the same virtual instant as a sweeper tick are unordered for the monitor. Model bounds: 2 session IDs, 2 datagrams (3 in thorough), 1 reply, 1 fault, 3 ticks.",
    tech="TLA+ model checking (TLC, safety + liveness) + TLC-generated scenario replay + TLC trace validation of real-code traces", ref="5/C07")


def sig(e):
    return e["ev"]


def distinct(e):
    if e["ev"] == "Reset":
        return ("scn", e["scn"])
    return None


def run(ctx):
    T = ctx.thorough
    ctx.tlc_mc("MC_UDPSessions", "MC_UDPSessions_big.cfg" if T else "MC_UDPSessions.cfg", timeout=1500)
    for m in ("GuardClosedInInit", "GuardCloseOnce", "TouchOnReply", "StampOwnID", "LockAcrossDial", "FailPathCloses"):
        ctx.tlc_mc("MC_UDPSessions", "MC_UDPSessions_mut%s.cfg" % m, expect_violation=True)
    if T:
        ctx.tlc_mc("MC_UDPSessions", "MC_UDPSessions_live.cfg", timeout=1500)
        ctx.tlc_mc("MC_UDPSessions", "MC_UDPSessions_split.cfg", timeout=1500)   # ExitFunc's event and map delete as separate steps
        ctx.tlc_mc("MC_UDPSessions", "MC_UDPSessions_rep2.cfg", timeout=1500)    # two remote replies
    scns = ctx.tlc_gen("MC_UDPSessions", "Gen_UDPSessions.cfg", num=400 if T else 60, depth=150, timeout=600)
    ctx.write_scenarios("udpsess", scns)
    ctx.go_test("core", "./server/", "TestVerif_C07$", ["harness/core/server/c07_test.go"], timeout=240)
    ctx.validate("Prop_C07", sig=sig, distinct=distinct)
    ctx.assumptions += ["time advances only at quiescence (synctest bubble); races are explored within one virtual instant",
                        "'traffic' is any datagram for the session ID (also an incomplete fragment or one to a denied destination) and any packet read from the session's socket"]
    return ctx.finish(rule="one case = one scenario (sequence of client datagrams, replies, faults, ticks, connection loss) executed on a real udpSessionManager; distinct = scenarios")
