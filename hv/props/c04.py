"""C04 - TCP request/response framing is lossless, exact and bounded."""
from hv.core import Broken

MANIFEST = dict(
    text="TLC exhausts Sys_Wire (the readers of proxy.go transcribed as a state machine over a chunked input tape with trailing payload; "
         "every varint width, every chunking, scaled limits) against the Prop_C04 monitor, which re-parses each frame itself in TLA+ "
         "(ParseFrame/VarDec) and states RoundTrip, Exact (consumed = frame length), Rejected, BoundedRead, BoundedAlloc, WriterFrame. "
         "TLC-generated tapes+chunk sequences are replayed literally into the real ReadTCPRequest/ReadTCPResponse through a scripted "
         "io.Reader that records requests/consumption/allocation; a boundary grid at the real limits (63/64, 16383/16384, 2048/2049, "
         "4096/4097, 2^30, 2^62-1; widths 1/2/4/8), seeded random frames and the output of the real writers are read back the same way; "
         "end to end, real client.TCP calls (with and without fast-open) cross a real QUIC connection to a real server whose recording outbound "
         "observes the parsed address and the first payload bytes behind the frame (and the client the status/message and first reply bytes), and a raw HTTP/3 peer of the harness' own making sends request frames with the frame type and every length field in every varint width, any padding, cut into arbitrary writes; "
         "every real call is validated by TLC against the same monitor.",
    note="Trusted: TLC; the harness' scripted reader accounting (bytes served, furthest offset requested), runtime.MemStats.TotalAlloc, "
         "and for tapes > 600 bytes the harness' comparison of the returned string with the tape slice whose offsets the monitor verifies "
         "from the logged length fields. The e2e part observes equality of addresses/payload prefixes in the harness.",
    tech="TLA+ model checking (TLC) + TLC-generated scenario replay + TLC trace validation of real-code traces", ref="5/C04")


def sig(e):
    if e["ev"] == "Read":
        return "Read:%s,head=%s,mode=%s" % (e["kind"], ".".join(map(str, e["head"])), e["mode"])
    if e["ev"] == "Written":
        return "Written:%s,inLen=%s" % (e["kind"], e["inLen"])
    if e["ev"] == "E2E":
        return "E2E:addrLen=%s,msgLen=%s,fast=%s,w=%s" % (e["addrLen"], e["msgLen"], e["fast"], e.get("w"))
    return e["ev"]


def distinct(e):
    if e["ev"] == "Read":
        # distinct (kind, both length fields as encoded, tape length, chunking mode, outcome)
        return ("R", e["kind"], tuple(e["head"]), tuple(e["mid"][:8]), e["tapeLen"], e["mode"], e["err"])
    if e["ev"] == "Written":
        return ("W", e["kind"], e["inLen"], e["tapeLen"])
    if e["ev"] == "E2E":
        return ("E", e["fast"], e["addrLen"], e["msgLen"], tuple(e.get("w") or ()), e.get("padLen"))
    return None


def run(ctx):
    T = ctx.thorough
    ctx.tlc_mc("MC_Wire", "MC_Wire_big.cfg" if T else "MC_Wire.cfg", coverage=T)
    ctx.tlc_mc("MC_Wire", "MC_Wire_mutCheckAfter.cfg", expect_violation=True)
    ctx.tlc_mc("MC_Wire", "MC_Wire_mutGreedy.cfg", expect_violation=True)
    ctx.tlc_mc("MC_Wire", "MC_Wire_mutPadGE.cfg", expect_violation=True)
    scns = ctx.tlc_gen("MC_Wire", "Gen_Wire.cfg", num=4000 if T else 400, depth=60)
    ctx.write_scenarios("wire", scns)
    ctx.go_test("core", "./internal/protocol/", "TestVerif_C04$", ["harness/core/internal/protocol/c04_test.go"])
    ctx.go_test("core", "./internal/integration_tests/", "TestVerif_C04E2E$", ["harness/core/internal/integration_tests/c04_e2e_test.go"], timeout=600)
    events = ctx.validate("Prop_C04", sig=sig, distinct=distinct)
    # machinery self-checks: a harness whose windows disagree with the monitor's parse is BROKEN, not drift
    if any(d["clause"] == "DRIFT_HarnessWindow" for d in ctx.drift):
        raise Broken("harness window offsets disagree with the monitor's own parse of the frame (harness bug)")
    if not ctx.replay:
        kinds = {(e["kind"], e["err"]) for e in events if e["ev"] == "Read"}
        need = {("req", "none"), ("req", "proto"), ("req", "eof"), ("resp", "none"), ("resp", "proto"), ("resp", "eof")}
        if not need <= kinds and not ctx.viol:
            raise Broken("driver did not exercise all outcome classes: missing %s" % sorted(need - kinds))
        for e in events:
            if e["ev"] in ("Read", "Written") and e["small"] and e["head"] != e["bytes"][:9]:
                raise Broken("harness logged inconsistent head/bytes")
    ctx.assumptions += ["the underlying reader is a plain io.Reader (not an io.ByteReader), as a QUIC stream is",
                        "limits are the statement's 2048/2048/4096 (the code's constants are compared: DRIFT_Consts)",
                        "allocation is observed as runtime.MemStats.TotalAlloc delta around the call (minimum of three runs for rejected frames)",
                        "for tapes > 600 bytes equality of the returned address with the tape slice is observed by the harness; offsets and lengths are decided by the monitor"]
    return ctx.finish(rule="Read: distinct (kind, encoded length fields, tape length, chunking mode, outcome) reader calls on a scripted tape; "
                           "Written: distinct (kind, input length, frame length) writer calls; E2E: distinct (fast-open, address length, error-message length) client.TCP calls")
