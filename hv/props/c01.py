"""C01 - No proxying before authentication on the same connection."""
MANIFEST = dict(
    text="TLC exhausts Sys_AuthGate (per-connection handler: the authMutex section, the dispatcher's unlocked flag read, session-manager spawn/run, QUIC datagram queue; 2 connections issuing concurrent operations) against the Prop_C01 monitor plus structural invariants and the no-revocation action property, and rejects five guard-removal mutants; TLC-generated operation sequences and seeded random ones are executed by raw QUIC/HTTP-3 clients against a real server (real quic-go, in-memory network, synctest bubble) with logging Authenticator/Outbound fakes, and every recorded execution is validated by TLC against the same monitor.",
    note="Trusted: TLC, synctest quiescence, fakes' logging; outbound calls are attributed to (connection, operation) through the target address the client chose. Model bounds: 2 connections x 2 (3 thorough) operations.",
    tech="TLA+ model checking (TLC) + TLC-generated scenario replay + TLC trace validation of real-code traces", ref="5/C01")


def sig(e):
    return e["ev"]


def distinct(e):
    return ("scn", e["scn"]) if e["ev"] == "Reset" else None


def model(ctx):
    T = ctx.thorough
    ctx.tlc_mc("Sys_AuthGate", "MC_AuthGate_big.cfg" if T else "MC_AuthGate.cfg", timeout=1500)
    if T:
        ctx.tlc_mc("Sys_AuthGate", "MC_AuthGate_3c.cfg", timeout=1500)     # 3 connections x 2 operations
    for m in ("FlagPerConn", "FlagNeedsVerdict", "HijackChecksFlag", "SMOnlyOnOk", "MasqOnReject"):
        ctx.tlc_mc("Sys_AuthGate", "MC_AuthGate_mut%s.cfg" % m, expect_violation=True)
    scns = ctx.tlc_gen("Sys_AuthGate", "Gen_AuthGate.cfg", num=300 if T else 40, depth=60)
    ctx.write_scenarios("authgate", scns)
    ctx.go_test("core", "./internal/integration_tests/", "TestVerif_C01$",
                ["harness/core/internal/integration_tests/e2e_common_test.go", "harness/core/internal/integration_tests/c01_test.go"], timeout=1500 if ctx.thorough else 300)


def system(ctx):
    """The composition (Hysteria.tla / Prop_E2E): reconnecting client o auth gate o (relay || UDP sessions with policy)."""
    T = ctx.thorough
    ctx.tlc_mc("Hysteria", "MC_Hysteria_big.cfg" if T else "MC_Hysteria.cfg", timeout=1500)
    for m in ("AuthPerGen", "CheckEveryDgram", "FlowsDieWithConn", "OrderKept"):
        ctx.tlc_mc("Hysteria", "MC_Hysteria_mut%s.cfg" % m, expect_violation=True)
    ctx.go_test("core", "./internal/integration_tests/", "TestVerif_E2E$",
                ["harness/core/internal/integration_tests/e2e_common_test.go", "harness/core/internal/integration_tests/e2e_system_test.go"], timeout=1500)
    ctx.validate("Prop_E2E", sig=sig, traces=[ctx.out + "/trace-E2E.ndjson"])


def run(ctx):
    model(ctx)
    ctx.validate("Prop_C01", sig=sig, distinct=distinct, traces=[ctx.out + "/trace-C01.ndjson"])
    system(ctx)
    ctx.assumptions += ["datagrams sent before authentication may be relayed after it (they wait in QUIC's queue); the statement allows that"]
    return ctx.finish(rule="one case = one scenario: a sequence of client operations (auth good/bad, near-miss and other HTTP/3 requests, raw 0x401 streams, UDP datagrams) on 1-3 concurrent connections, sequentially or in concurrent bursts")
