"""C05 - UDP fragmentation is all-or-nothing and size-bounded."""

MANIFEST = dict(
    text="TLC exhausts Sys_Frag (code-shaped Defragger + lossy/duplicating/reordering path + fragmenter arithmetic on a boundary grid) against the Prop_C05 monitor; TLC-generated arrival orders are replayed into the real Defragger and every FragUDPMessage/Feed call (real wire codec, real constants) is validated by TLC against the same monitor.",
    note="Trusted: TLC, the harness' byte comparison of re-parsed fragments, distinct packet IDs among in-flight messages. Model bounds: 3 messages x <=3(4) fragments x <=7(9) deliveries.",
    tech="TLA+ model checking (TLC) + TLC-generated scenario replay + TLC trace validation of real-code traces", ref="5/C05")


def sig(e):
    if e["ev"] in ("FragCall", "Panic"):
        return "%s:dlen=%s,alen=%s,limit=%s" % (e["ev"], e.get("dlen"), e.get("alen"), e.get("limit"))
    return e["ev"]


def distinct(e):
    if e["ev"] == "FragCall":
        return ("F", e["dlen"], e["hdr"], e["limit"])
    if e["ev"] == "Feed" and e["cnt"] > 1:
        return ("D", e["scn"], e["seq"])
    return None


def run(ctx):
    T = ctx.thorough
    ctx.tlc_mc("MC_Frag", "MC_Frag_big.cfg" if T else "MC_Frag.cfg", coverage=T)
    ctx.tlc_mc("MC_Frag", "MC_Frag_mutWrap.cfg", expect_violation=True)
    ctx.tlc_mc("MC_Frag", "MC_Frag_mutDup.cfg", expect_violation=True)
    ctx.tlc_mc("MC_Frag", "MC_Frag_mutReusePktID.cfg", expect_violation=True)
    scns = ctx.tlc_gen("MC_Frag", "Gen_Frag.cfg", num=3000 if T else 300, depth=12)
    ctx.write_scenarios("frag", scns)
    ctx.go_test("core", "./internal/frag/", "TestVerif_C05$", ["harness/core/internal/frag/c05_test.go"])
    ctx.validate("Prop_C05", sig=sig, distinct=distinct, traces=[ctx.out + "/trace-C05.ndjson"])
    # end-to-end part, client side: the client's UDP session manager (Sys_ClientUDP / Prop_C05e)
    ctx.tlc_mc("Sys_ClientUDP", "MC_ClientUDP_big.cfg" if T else "MC_ClientUDP.cfg", timeout=1200)
    for m in ("RouteByID", "DeleteOnClose", "FreshIDs", "SendUnderLock"):
        ctx.tlc_mc("Sys_ClientUDP", "MC_ClientUDP_mut%s.cfg" % m, expect_violation=True)
    ctx.go_test("core", "./client/", "TestVerif_C05e$", ["harness/core/client/c05_client_test.go"])
    ctx.validate("Prop_C05e", sig=sig, traces=[ctx.out + "/trace-C05e.ndjson"])
    ctx.assumptions += ["messages in flight carry distinct packet IDs (as the statement says)",
                        "byte equality of payloads is observed by the harness (re-parsed through the real wire codec); the monitor decides on lengths, counts, identities and order"]
    return ctx.finish(rule="FragCall: distinct (payload length, header size, limit) triples at the real constants; Feed: fragment deliveries with count>1 replayed on a real Defragger (TLC-generated arrival orders + seeded random ones)")
