"""C14 - Gecko reassembles handshake packets exactly with bounded state."""

MANIFEST = dict(
    text="TLC exhausts Sys_Gecko (acceptChunk / dropEntry / evictOldest / gcExpired transcribed from gecko.go with scaled caps 2/3 and TTL; adversarial deliveries: any order, duplicates, six messages of three sources incl. a key reused with another chunk count, time passing; sender split/padding arithmetic on a boundary grid) against the Prop_C14 monitor and rejects model mutants (no counter decrement on completion, duplicate accepted, chunk-count mismatch ignored, per-source cap off by one, sweep disabled, message ID consumed only after the last chunk; two per quick run, all six in thorough). TLC-generated delivery/tick behaviours and seeded drivers (real sender frames permuted/duplicated/interleaved across messages and sources, 8-bit ID wraparound, sends aborted by a transient inner-socket error followed by further messages, concurrent WriteTo calls on one socket, TTL boundaries, per-source and 4500-source floods at the real caps 8/4096, ill-formed frames) run against the real WrapPacketConnGecko in a synctest bubble; every WriteTo/ReadFrom and the census of the reassembly table is validated by TLC against the same monitor.",
    note="Trusted: TLC, the harness' byte comparison of emitted packets (the monitor decides on identities, counts, times, caps), the harness' own frame parser and Salamander codec. White box: len(reassembly), perSource, table keys. 'Forgotten after its TTL' is judged at TTL + sweep period (12 s). Two pending messages with one (source, ID, chunk count) are outside the property. Virtual time (testing/synctest).",
    tech="TLA+ model checking (TLC) + TLC-generated scenario replay + TLC trace validation of real-code traces", ref="5/C14")


def sig(e):
    if e["ev"] == "Write":
        return "Write:plen=%s,long=%s,nd=%s,min=%s,max=%s" % (e.get("plen"), e.get("long"), e.get("nd"), e.get("min"), e.get("max"))
    if e["ev"] == "Feed":
        return "Feed:%s" % e.get("kind")
    return e["ev"]


def distinct(e):
    if e["ev"] == "Write":
        return ("W", e["plen"], e["nd"], e["min"], e["max"])
    if e["ev"] == "Feed":
        return ("F", e["scn"], e["seq"])
    return None


def run(ctx):
    T = ctx.thorough
    if ctx.replay:
        ctx.validate("Prop_C14", sig=sig, distinct=distinct)
        return ctx.finish(rule="replay")
    # thorough: the small configuration with per-action coverage (vacuity report), the big one without (coverage halves TLC's speed)
    ctx.tlc_mc("MC_Gecko", "MC_Gecko.cfg", coverage=T, workers=8)       # 3 deliveries, 3 ticks: expiry, per-source cap
    ctx.tlc_mc("MC_Gecko", "MC_Gecko_cap.cfg", workers=8)               # 4 deliveries, no tick: global cap and eviction
    if T:
        ctx.tlc_mc("MC_Gecko", "MC_Gecko_big.cfg", timeout=1200)
    muts = ("NoDec", "Dup", "Total", "Cap", "NoGc", "LateId")
    if not T:   # quick: two of the model mutants (rotating with the seed); thorough: all of them
        muts = [muts[ctx.seed % len(muts)], muts[(ctx.seed + 2) % len(muts)]]
    for m in muts:
        ctx.tlc_mc("MC_Gecko", "MC_Gecko_mut%s.cfg" % m, expect_violation=True, workers=4)
    scns = ctx.tlc_gen("MC_Gecko", "Gen_Gecko.cfg", num=1500 if T else 120, depth=40)
    ctx.write_scenarios("gecko", scns)
    ctx.go_test("extras", "./obfs/", "TestVerif_C14$", ["harness/extras/obfs/c14_test.go"], timeout=900 if T else 240)
    ctx.validate("Prop_C14", sig=sig, distinct=distinct)
    ctx.assumptions += ["pending messages of one source carry distinct message IDs (two messages with one (source, ID, chunk count) pending together are outside the property)",
                        "an incomplete message counts as forgotten when none of its chunks older than TTL + sweep period (12 s) can complete it and no table entry is older than that",
                        "byte equality of emitted packets with the written ones is observed by the harness; the monitor decides which message, which chunks, when, and the caps",
                        "time is the virtual clock of a testing/synctest bubble"]
    return ctx.finish(rule="Write: distinct (length, chunk count, min, max) writes through the real sender; Feed: datagrams delivered to the real receiver (one ReadFrom each) in TLC-generated and seeded adversarial orders")
