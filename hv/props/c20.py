"""C20 - Hole-punch demux diverts only punch/STUN packets."""
import hashlib, json, os, glob

MANIFEST = dict(
    text="TLC exhausts Sys_Punch (attempt registry under its RWMutex with call/effect/return steps per caller, the ReadFrom demultiplexer loop as InnerCall/Inject/Decide, punch / STUN / other packets) against the Prop_C20 monitor; TLC-generated registry/packet interleavings are replayed into the real PunchPacketConn over an in-memory inner socket (registry calls in their own goroutines), together with seeded packet streams (every padding length and type, near misses, QUIC-like, random, hand-built STUN), direct DecodePunchPacket/EncodePunchPacket calls and ServerPuncher.Respond runs in a synctest bubble; an independent python oracle (hashlib SHA-256, punch format re-implemented from the spec comments, RFC 5389 header rules) annotates every packet with 'decodes under metadata a' for every metadata of the scenario and its STUN class, and TLC validates every recorded event against the same monitor.",
    note="Trusted: TLC, python hashlib, the oracle's re-implementation of the 33..1057-byte punch format and of the STUN header check, sha256 prefix equality for byte identity. Only 'withheld => STUN binding response or punch packet of an attempt possibly registered between hand-over and decision' is a violation; 'registered punch packet not diverted' and event contents are DRIFT clauses. STUN messages with non-zero top bits or trailing bytes are not generated (pion's leniency, see notes).",
    tech="TLA+ model checking (TLC) + TLC-generated scenario replay + python oracle annotation + TLC trace validation of real-code traces", ref="5/C20")

MAGIC = b"HYRLMv1\x00"
COOKIE = bytes([0x21, 0x12, 0xA4, 0x42])


def punch_decode(pkt, nonce, key):
    """Punch packet format (extras/realm/punch.go header comment): 8-byte salt, then
    (8-byte magic, 1-byte type in {1,2}, 16-byte nonce, 0..1024 padding bytes) XOR sha256(key||salt) repeated."""
    if len(pkt) < 33 or len(pkt) > 33 + 1024:
        return None
    mask = hashlib.sha256(key + pkt[:8]).digest()
    hdr = bytes(pkt[8 + i] ^ mask[i % 32] for i in range(25))
    if hdr[:8] != MAGIC or hdr[8] not in (1, 2) or hdr[9:25] != nonce:
        return None
    return hdr[8], len(pkt) - 33


def stun_class(b):
    """(class, full): class in none/success/error/other by the RFC 5389 header (first two bits zero, magic
    cookie, length field = attribute bytes, multiple of 4); full = a binding success response that carries
    a usable (XOR-)MAPPED-ADDRESS."""
    if len(b) < 20 or b[0] & 0xC0 or b[4:8] != COOKIE:
        return "none", False
    mlen = int.from_bytes(b[2:4], "big")
    if mlen % 4 or 20 + mlen != len(b):
        return "none", False
    typ = int.from_bytes(b[0:2], "big")
    if typ == 0x0111:
        return "error", False
    if typ != 0x0101:
        return "other", False
    attrs, off = [], 20
    while off + 4 <= len(b):
        t, l = int.from_bytes(b[off:off + 2], "big"), int.from_bytes(b[off + 2:off + 4], "big")
        if off + 4 + l > len(b):
            return "success", False
        attrs.append((t, b[off + 4:off + 4 + l]))
        off += 4 + ((l + 3) // 4) * 4

    def usable(v, xor):
        if len(v) < 8 or v[1] not in (1, 2) or len(v) < (8 if v[1] == 1 else 20):
            return False
        port = int.from_bytes(v[2:4], "big") ^ (0x2112 if xor else 0)
        return port != 0
    xs = [v for t, v in attrs if t == 0x0020]
    if xs:
        return "success", usable(xs[0], True)
    ms = [v for t, v in attrs if t == 0x0001]
    return "success", bool(ms) and usable(ms[0], False)


def annotate(src, dst):
    metas = {}
    n = 0
    with open(dst, "w") as w:
        for line in open(src):
            line = line.strip()
            if not line:
                continue
            e = json.loads(line)
            ev = e["ev"]
            if ev == "Reset":
                metas = {}
            elif ev == "Meta":
                metas[e["a"]] = (bytes.fromhex(e["nonce"]), bytes.fromhex(e["obfs"]))
            elif ev in ("Inject", "Read", "Decode", "Encode"):
                b = bytes.fromhex(e.pop("hex"))
                if ev in ("Inject", "Read"):
                    e["h"], e["len"] = hashlib.sha256(b).hexdigest()[:20], len(b)
                if ev == "Inject":
                    info = []
                    for a in sorted(metas):
                        d = punch_decode(b, *metas[a])
                        if d:
                            info.append([a, d[0], d[1]])
                    e["dec"], e["dinfo"] = [x[0] for x in info], info
                    e["stun"], e["full"] = stun_class(b)
                elif ev in ("Decode", "Encode"):
                    d = punch_decode(b, *metas[e["a"]]) if e.get("ok", True) or ev == "Decode" else None
                    e["o_ok"], e["o_typ"], e["o_pad"] = d is not None, d[0] if d else 0, d[1] if d else 0
                    if ev == "Encode":
                        e["others"] = [a for a in sorted(metas) if a != e["a"] and metas[a] != metas[e["a"]] and punch_decode(b, *metas[a])]
            w.write(json.dumps(e) + "\n")
            n += 1
    return n


def sig(e):
    if e["ev"] in ("Inject", "Read"):
        return "%s:len=%s,stun=%s" % (e["ev"], e.get("len"), e.get("stun", ""))
    return e["ev"]


def distinct(e):
    if e["ev"] == "Inject":
        return ("I", e["h"])
    if e["ev"] == "Decode":
        return ("D", e["scn"], e["seq"])
    return None


def run(ctx):
    T = ctx.thorough
    ctx.tlc_mc("MC_Punch", "MC_Punch_big.cfg" if T else "MC_Punch.cfg", coverage=T, timeout=1500, workers=16 if T else 8)
    for m in (("noreg", "stale", "allstun", "inplace", "leak", "leakdup", "dupreg") if T else ("noreg", "stale", "inplace", "leak", "dupreg")):
        ctx.tlc_mc("MC_Punch", "MC_Punch_mut_%s.cfg" % m, expect_violation=True, workers=4)
    ctx.write_scenarios("punch", ctx.tlc_gen("MC_Punch", "Gen_Punch.cfg", num=5000 if T else 600, depth=80))
    ctx.go_test("extras", "./realm/", "TestVerif_C20_", ["harness/extras/realm/c20_punch_test.go"], timeout=1500)
    traces = None
    if not ctx.replay:
        traces = []
        for f in sorted(glob.glob(os.path.join(ctx.out, "trace-C20-*.ndjson"))):
            o = os.path.join(ctx.out, "oracle-" + os.path.basename(f)[len("trace-"):])
            annotate(f, o)
            traces.append(o)
    ctx.validate("Prop_C20", traces=traces, sig=sig, distinct=distinct)
    ctx.assumptions += [
        "punch packet validity and STUN class of every packet are decided by the python oracle (hashlib), not by the code under test",
        "byte identity of returned packets is decided on length, source address string and a sha256 prefix",
        "a single reader; registry calls on the same attempt id never overlap (the driver joins the previous call first)",
        "ServerPuncher.Respond is bracketed as a whole: the attempt may be registered from its call to its return",
        "STUN messages with non-zero top bits in the first byte or with trailing bytes are not generated",
    ]
    rc = ctx.finish(rule="Inject: distinct datagrams handed to a real PunchPacketConn; Decode: direct DecodePunchPacket calls judged against the oracle")
    if rc == 0 and traces:
        for f in traces:
            try:
                os.remove(f)
            except OSError:
                pass
    return rc
