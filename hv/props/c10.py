"""C10 - Negotiated send rate never exceeds either side's declared limit."""
MANIFEST = dict(
    text="TLC exhausts Sys_Rate (transcription of the server's and client's negotiation branches and of the header codec with its failure modes) over all 5^4 x 2 x 4 configurations against Prop_C10, a monitor written independently from PROTOCOL.md over an ordered rate scale {0, 65536, 65537, 1e9, 2^64-1}; four mutants are rejected. Every configuration TLC enumerates (quick: a seeded tenth) is then executed as a real handshake (real client and server, real QUIC, bubble) or, for malformed headers, by a raw HTTP/3 client; the controller each side actually installs is reported by a verif hook in congestion/utils.go and the reported rates by HandshakeInfo and EventLogger.Connect; TLC validates every recorded handshake against the same monitor.",
    note="Trusted: TLC, the three one-line hooks in congestion/utils.go, the rank scale. 'Enforced on the wire' is observed where the rate is handed to the congestion package; that Brutal then sends at that rate is C11.",
    tech="TLA+ model checking (TLC, exhaustive over configurations) + replay of every TLC configuration as a real handshake + TLC trace validation", ref="5/C10")


def sig(e):
    return e["ev"]


def distinct(e):
    if e["ev"] == "Reset":
        return (e["cUp"], e["cDown"], e["sUp"], e["sDown"], e["ignore"], e["hdr"])
    return None


def run(ctx):
    ctx.tlc_mc("Sys_Rate", "MC_Rate.cfg")
    for m in ("ServerCapsRate", "ClientHonoursAuto", "ClientZeroIsCC", "ReportInstalled"):
        ctx.tlc_mc("Sys_Rate", "MC_Rate_mut%s.cfg" % m, expect_violation=True)
    scns = ctx.tlc_gen("Sys_Rate", "Gen_Rate.cfg", bfs=True)
    ctx.write_scenarios("rate", scns)
    ctx.go_test("core", "./internal/integration_tests/", "TestVerif_C10$",
                ["harness/core/internal/integration_tests/e2e_common_test.go", "harness/core/internal/integration_tests/c10_test.go"], timeout=2400)
    ctx.validate("Prop_C10", sig=sig, distinct=distinct)
    return ctx.finish(rule="one case = one handshake for one (client up/down, server up/down, ignore, header form, congestion type) configuration; distinct = configurations")
