#!/usr/bin/env python3
"""Generates /verif/MANIFEST.json from the table below (keeps it valid at all times)."""
import json, os, subprocess
V = os.path.dirname(os.path.dirname(os.path.abspath(__file__)))

import sys, importlib
sys.path.insert(0, V)
CHECKS = {}
for n in range(1, 21):
    try:
        mod = importlib.import_module("hv.props.c%02d" % n)
    except ModuleNotFoundError:
        continue
    if getattr(mod, "MANIFEST", None):
        CHECKS["C%02d" % n] = mod.MANIFEST
# properties deliberately not claimed (reason), filled in by hand when a check cannot be made sound
NOT_APPLICABLE = {}
ALL = [json.loads(l)["id"] for l in open(os.path.join(V, "properties.jsonl"))]
for pid in ALL:
    if pid not in CHECKS and pid not in NOT_APPLICABLE:
        NOT_APPLICABLE[pid] = "check not built yet (work in progress; planned design in DESIGN.md section 5/%s)" % pid

def main():
    hooks = []
    p = os.path.join(V, "HOOK_COMMITS.txt")
    if os.path.exists(p):
        hooks = [l.split()[0] for l in open(p) if l.strip() and not l.startswith("#")]
    m = dict(version=1, setup_cmd="true",
             hooks=dict(guard="verif", enable="bin/check builds /repo with `go test -tags verif -overlay <harness files>`",
                        baseline_off_cmd="for m in app core extras; do (cd /repo/$m && GOPROXY=off go test -json -vet=off -count=1 -timeout 25m ./...); done",
                        source_commits=hooks, add_only=True),
             engines=[dict(name="hv", path="bin/check", serves_properties=sorted(CHECKS), kind_free_text="TLC model checking + TLC trace validation of traces recorded from the real Go code (harness injected with go test -overlay)")],
             checks=[], not_applicable=[dict(property_id=k, reason=v) for k, v in sorted(NOT_APPLICABLE.items())],
             notes="See DESIGN.md. Exit 0 ok / 1 VIOLATION / 2 BROKEN.")
    for pid, c in sorted(CHECKS.items()):
        m["checks"].append(dict(property_id=pid, quick_cmd="bin/check %s --tier quick" % pid, thorough_cmd="bin/check %s --tier thorough" % pid,
                                evidence_file="evidence/%s.json" % pid, replay_cmd_template="bin/check %s --replay {path}" % pid, engine="hv",
                                level_claimed=dict(category=c.get("cat", "model_checking"), text=c["text"], design_ref=c["ref"]),
                                level_note=c["note"], technique=c["tech"]))
    json.dump(m, open(os.path.join(V, "MANIFEST.json"), "w"), indent=1)
    print("MANIFEST.json: %d checks, %d not_applicable" % (len(m["checks"]), len(m["not_applicable"])))

if __name__ == "__main__":
    main()
