"""hv - orchestration of the /verif checks (python3, stdlib only).

One check =  exhaustive TLC model run(s)  ->  scenario generation by TLC  ->
go test of the real code (harness injected with -overlay)  ->  TLC trace validation
of everything the harness recorded against the property monitor  ->  verdict + evidence.

Exit codes: 0 ok / known finding, 1 VIOLATION, 2 BROKEN (machinery problem, never a verdict).
"""
import json, os, re, shutil, subprocess, sys, time, hashlib, glob

VERIF = os.path.dirname(os.path.dirname(os.path.abspath(__file__)))
REPO = os.environ.get("VERIF_REPO", "/repo")
SPEC = os.path.join(VERIF, "spec")
JAR_CP = "/opt/veriftools/tla/tla2tools.jar:/opt/veriftools/tla/CommunityModules-deps.jar"


class Broken(Exception):
    pass


TRACE_TEMPLATE = """---- MODULE Trace_%(prop)s ----
(* Generated from spec/common/Trace_TEMPLATE.tla: %(prop)s's monitor driven by a recorded trace. *)
EXTENDS %(prop)s, TraceKit
VARIABLES l, mon, fin
TInit == l = 1 /\\ mon = MonInit /\\ fin = FALSE
TStep == l <= Len(Trace) /\\ mon' = MonStep(mon, Trace[l], l) /\\ l' = l + 1 /\\ UNCHANGED fin
TFin  == l = Len(Trace) + 1 /\\ ~fin /\\ fin' = TRUE /\\ PrintT(<<"VIOLSET", ToJson(mon.viol)>>) /\\ UNCHANGED <<l, mon>>
TSpec == TInit /\\ [][TStep \\/ TFin]_<<l, mon, fin>>
Accepted == TLCGet("stats").diameter = Len(Trace) + 2
====
"""
TRACE_CFG = "SPECIFICATION TSpec\nPOSTCONDITION Accepted\nCHECK_DEADLOCK FALSE\n"


def log(*a):
    print(*a, flush=True)


class Ctx:
    def __init__(self, pid, tier, seed, replay=None):
        self.pid, self.tier, self.seed, self.replay = pid, tier, seed, replay
        self.t0 = time.time()
        self.outroot = os.environ.get("VERIF_OUTROOT", os.path.join(VERIF, "out"))
        self.out = os.path.join(self.outroot, pid, tier)
        if os.path.isdir(self.out):
            shutil.rmtree(self.out)
        os.makedirs(self.out)
        self.mc = []          # model-checking results
        self.mutants = []     # model mutants that failed as expected
        self.gen = []         # scenario generation results
        self.go = []          # go test runs
        self.samples = []
        self.assumptions = []
        self.extra = {}
        self.scenarios_replayed = 0
        self.traces = 0
        self.events = 0
        self.viol = []        # (clause, scn, line, event)
        self.drift = []
        self.distinct = set()
        self.thorough = tier == "thorough"
        self.partial = None   # a driver died/hung after recording part of its trace: judged on what it recorded, else BROKEN

    # ------------------------------------------------------------------ TLC
    def _specdir(self, name):
        d = os.path.join(self.out, name)
        os.makedirs(d, exist_ok=True)
        for f in glob.glob(os.path.join(SPEC, "*.tla")) + glob.glob(os.path.join(SPEC, "*.cfg")) + glob.glob(os.path.join(SPEC, "common", "*.tla")):
            shutil.copy(f, d)
        return d

    def _tlc(self, d, module, cfg, args, timeout, env=None, workers=None, deque=False, xss=None):
        tmpd = os.path.join(d, "jtmp")
        os.makedirs(tmpd, exist_ok=True)
        jopts = ["-Djava.io.tmpdir=" + tmpd]      # TLC unpacks its standard modules into java.io.tmpdir: keep that out of /tmp
        if deque:
            jopts.append("-Dtlc2.tool.queue.IStateQueue=StateDeque")
        if xss:
            jopts.append("-Xss" + xss)
        cmd = ["java", "-XX:+UseParallelGC"] + jopts + ["-cp", JAR_CP, "tlc2.TLC",
               "-workers", str(workers or 8), "-metadir", os.path.join(d, "md-" + cfg.replace(".cfg", "")),
               "-config", cfg] + args + [module]
        e = dict(os.environ)
        if env:
            e.update(env)
        t = time.time()
        try:
            p = subprocess.run(cmd, cwd=d, env=e, stdout=subprocess.PIPE, stderr=subprocess.STDOUT, timeout=timeout, text=True, errors="replace")
        except subprocess.TimeoutExpired:
            subprocess.run(["pkill", "-f", "md-" + cfg.replace(".cfg", "")])
            raise Broken("TLC timeout (%ss) on %s/%s" % (timeout, module, cfg))
        return p.returncode, p.stdout, time.time() - t

    @staticmethod
    def _stats(out):
        r = {}
        m = re.search(r"(\d+) states generated, (\d+) distinct states found, (\d+) states left", out)
        if m:
            r["generated"], r["distinct"], r["left"] = int(m.group(1)), int(m.group(2)), int(m.group(3))
        m = re.search(r"depth of the complete state graph search is (\d+)", out)
        if m:
            r["diameter"] = int(m.group(1))
        return r

    def tlc_mc(self, module, cfg=None, timeout=600, workers=None, expect_violation=False, coverage=False, xss=None):
        """Exhaustive model check  Sys => Prop  (INVARIANT mon.viol = {} and friends)."""
        if self.replay or os.environ.get("VERIF_SKIP_MC"):   # VERIF_SKIP_MC: detection self-tests only (bin/selftest); the model does not depend on /repo
            return {}
        cfg = cfg or module + ".cfg"
        d = self._specdir("mc")
        args = ["-coverage", "1"] if coverage else []
        # model mutants are expected to be rejected after a handful of states: one worker is enough and avoids the
        # (rare) TLC exception of other workers racing with the one that reports the counterexample
        attempts = [1, 1] if expect_violation else [workers or 16]
        for k, nw in enumerate(attempts):
            rc, out, dt = self._tlc(d, module, cfg, args, timeout, workers=nw, xss=xss)
            st = self._stats(out)
            violated = ("is violated" in out) or ("Temporal properties were violated" in out)
            errored = (rc != 0 and not violated) or "Parsing or semantic analysis failed" in out or "StackOverflowError" in out
            open(os.path.join(self.out, "mc-%s.log" % cfg), "w").write(out)
            if violated or not errored:
                break
        if expect_violation and violated:
            st.setdefault("distinct", 0)
            st.setdefault("generated", 0)
        if errored or "distinct" not in st:
            raise Broken("TLC error in %s/%s (see %s)\n%s" % (module, cfg, os.path.join(self.out, "mc-%s.log" % cfg), "\n".join(out.splitlines()[-12:])))
        rec = dict(module=module, cfg=cfg, wall_s=round(dt, 1), violated=violated, **st)
        if coverage:
            zero = re.findall(r"<(\w+) line[^>]*>: 0:0", out)
            rec["actions_never_taken"] = zero
        if expect_violation:
            if not violated:
                raise Broken("model mutant %s/%s was expected to violate the property but TLC accepted it (vacuous model?)" % (module, cfg))
            self.mutants.append(rec)
            log("  model-mutant %-28s rejected by TLC as expected (%d states)" % (cfg, st.get("distinct", 0)))
        else:
            if violated:
                raise Broken("model %s/%s violates its own property: the model is wrong or the design is (see mc log)" % (module, cfg))
            if st.get("left", 0) != 0:
                raise Broken("model %s/%s not exhausted" % (module, cfg))
            self.mc.append(rec)
            log("  model %-34s OK  %d distinct / %d generated states, diameter %s, %.1fs" % (cfg, st["distinct"], st["generated"], st.get("diameter"), dt))
        return rec

    def tlc_gen(self, module, cfg, num=200, depth=30, timeout=300, bfs=False):
        """Behaviours of the environment printed by the spec as <<"SCN", json>> lines."""
        if self.replay:
            return []
        d = self._specdir("gen")
        if bfs:
            args = []
        else:
            args = ["-simulate", "num=%d" % num, "-depth", str(depth), "-seed", str(self.seed)]
        rc, out, dt = self._tlc(d, module, cfg, args, timeout, workers=1 if not bfs else 8)
        open(os.path.join(self.out, "gen-%s.log" % cfg), "w").write(out[-200000:])
        scns, seen = [], set()
        for m in re.finditer(r'<<"SCN", "(.*)">>', out):
            s = m.group(1).encode().decode("unicode_escape") if "\\" in m.group(1) else m.group(1)
            if s in seen:
                continue
            seen.add(s)
            scns.append(json.loads(s))
        if not scns:
            raise Broken("scenario generation %s/%s produced nothing (see gen log)" % (module, cfg))
        self.gen.append(dict(module=module, cfg=cfg, behaviours=len(scns), wall_s=round(dt, 1), mode="bfs" if bfs else "simulate"))
        log("  generated %d distinct behaviours from %s (%.1fs)" % (len(scns), cfg, dt))
        return scns

    def write_scenarios(self, name, scns):
        if self.replay:
            return
        json.dump(scns, open(os.path.join(self.out, "scn-%s.json" % name), "w"))
        self.scenarios_replayed += len(scns)
        if scns:
            self.samples.append({"tlc_scenario_" + name: scns[0]})

    # ------------------------------------------------------------------ Go
    def go_test(self, mod, pkg, run, files, timeout=900, kit=True, extra_env=None, race=False, tags="verif"):
        """Compile /repo's current tree with the harness overlaid and run the drivers."""
        if self.replay:
            return ""
        repl = {}
        pkgdir = os.path.normpath(os.path.join(REPO, mod, pkg))
        for f in files:
            src = os.path.join(VERIF, f)
            base = os.path.basename(f)
            if not base.endswith("_test.go"):
                base = base[:-3] + "_test.go"
            repl[os.path.join(pkgdir, "zz_verif_" + base)] = src
        if kit:
            for f in glob.glob(os.path.join(VERIF, "harness", "kit", "*.go")):
                repl[os.path.join(REPO, mod, "internal", "verifkit", os.path.basename(f))] = f
        ov = os.path.join(self.out, "overlay-%s-%s.json" % (mod, re.sub(r"\W+", "_", pkg)))
        json.dump({"Replace": repl}, open(ov, "w"), indent=1)
        env = dict(os.environ)
        env.update(GOPROXY="off", GOFLAGS="", VERIF_OUT=self.out, VERIF_SEED=str(self.seed), VERIF_TIER=self.tier)
        env.pop("GOTOOLCHAIN", None)
        # The drivers run under go1.26.8 (pre-installed; GOTOOLCHAIN=local): go1.25.0's runtime can spin for ever in
        # synctest's bubble bookkeeping (runtime.getOrSetBubbleSpecial) after a few hundred bubbles - seen in C01/C02
        # thorough runs - and the newer runtime is also several times faster on bubble-heavy drivers.
        gobin = "go"
        if os.path.exists("/opt/veriftools/go1.26.8/bin/go") and not os.environ.get("VERIF_GO_DEFAULT"):
            gobin = "/opt/veriftools/go1.26.8/bin/go"
            env["GOTOOLCHAIN"] = "local"
        if extra_env:
            env.update(extra_env)
        cmd = [gobin, "test", "-tags", tags, "-vet=off", "-overlay", ov, "-run", run, "-count=1", "-timeout", "%ds" % timeout]
        if race:
            cmd.append("-race")
        cmd += ["-v", pkg]
        t = time.time()
        try:
            p = subprocess.run(cmd, cwd=os.path.join(REPO, mod), env=env, stdout=subprocess.PIPE, stderr=subprocess.STDOUT, timeout=timeout + 60, text=True, errors="replace")
        except subprocess.TimeoutExpired as te:
            # the driver hung (a mutated tree can do that: e.g. a goroutine waiting for one of hysteria's mutexes is not
            # durably blocked, so the bubble's clock stops).  What was recorded before is still a real execution.
            self.partial = "go test timeout: %s %s" % (pkg, run)
            log("  go test %s %s TIMED OUT; judging the executions recorded before the hang" % (pkg, run))
            return ""
        dt = time.time() - t
        logf = os.path.join(self.out, "go-%s-%s.log" % (mod, re.sub(r"\W+", "_", run)))
        open(logf, "w").write(p.stdout)
        ran = re.findall(r"^--- (PASS|FAIL): (\S+)", p.stdout, re.M)
        if (p.returncode != 0 or not ran) and glob.glob(os.path.join(self.out, "trace-*.ndjson")) and "panic: test timed out" in p.stdout:
            self.partial = "driver timed out inside go test: %s %s (log %s)" % (pkg, run, logf)
            log("  go test %s %s TIMED OUT; judging the executions recorded before the hang" % (pkg, run))
            return p.stdout
        if p.returncode != 0 or not ran:
            tail = "\n".join(p.stdout.splitlines()[-25:])
            raise Broken("harness did not run cleanly (%s %s, rc=%d); a driver failure is not a verdict. log: %s\n%s" % (pkg, run, p.returncode, logf, tail))
        self.go.append(dict(mod=mod, pkg=pkg, run=run, wall_s=round(dt, 1), tests=[x[1] for x in ran]))
        log("  go test %-44s ok (%.1fs)" % (pkg + " " + run, dt))
        return p.stdout

    # ------------------------------------------------------------------ trace validation
    def validate(self, prop_module, traces=None, sig=None, distinct=None, timeout=1200, xss="64m"):
        """Concatenate the recorded traces and run the property monitor over them with TLC."""
        files = traces or sorted(glob.glob(os.path.join(self.out, "trace-*.ndjson")))
        if self.replay:
            hdr = json.loads(open(self.replay).readline())
            if hdr.get("monitor", prop_module) != prop_module:
                return []
            files = [self.replay]
        if not files:
            raise Broken("no trace recorded")
        allf = os.path.join(self.out, "all-%s.ndjson" % prop_module)
        events = []
        off = 0
        with open(allf, "w") as w:
            for f in files:
                mx = 0
                for line in open(f):
                    line = line.strip()
                    if not line:
                        continue
                    try:
                        e = json.loads(line)
                    except ValueError:
                        if self.partial:
                            break          # a driver that was killed may leave a torn last line
                        raise
                    mx = max(mx, e.get("scn", 0))
                    e["scn"] = e.get("scn", 0) + off
                    events.append(e)
                    w.write(json.dumps(e) + "\n")
                off += mx + 1
            if self.partial and events:
                # the driver stalled for good: tell the monitor (a monitor may judge what was pending at that point)
                e = {"ev": "Aborted", "scn": events[-1]["scn"], "seq": events[-1].get("seq", 0) + 1, "why": self.partial[:80]}
                events.append(e)
                w.write(json.dumps(e) + "\n")
        if not events:
            raise Broken("empty trace")
        nscn = len({e["scn"] for e in events})
        d = self._specdir("tv")
        open(os.path.join(d, "Trace_%s.tla" % prop_module), "w").write(TRACE_TEMPLATE % dict(prop=prop_module))
        open(os.path.join(d, "Trace_%s.cfg" % prop_module), "w").write(TRACE_CFG)
        rc, out, dt = self._tlc(d, "Trace_%s" % prop_module, "Trace_%s.cfg" % prop_module, [], timeout, env={"VERIF_TRACE": allf}, workers=1, xss=xss)
        open(os.path.join(self.out, "tv-%s.log" % prop_module), "w").write(out[-400000:])
        m = re.search(r'<<"VIOLSET", "(.*)">>', out)
        if rc != 0 or not m or "Accepted is violated" in out or "violated" in out.replace("VIOLSET", ""):
            raise Broken("trace validation of %s did not complete (rc=%d): the monitor could not consume the trace; log %s" % (prop_module, rc, os.path.join(self.out, "tv-%s.log" % prop_module)))
        vs = json.loads(m.group(1).encode().decode("unicode_escape")) if m.group(1) not in ("", "[]") else []
        for v in vs:
            ev = events[v["line"] - 1]
            rec = dict(clause=v["clause"], scn=v["scn"], line=v["line"], event=ev, key=v["clause"] + ":" + (sig(ev) if sig else ""), monitor=prop_module, _events=events)
            (self.drift if v["clause"].startswith("DRIFT_") else self.viol).append(rec)
        self.traces += nscn
        self.events += len(events)
        if distinct:
            for e in events:
                k = distinct(e)
                if k is not None:
                    self.distinct.add(k)
        if len(self.samples) < 6:
            self.samples.append({"trace_events": events[1:4]})
        log("  trace validation %-22s %d events / %d scenarios consumed by TLC in %.1fs: %d violation(s), %d drift" % (prop_module, len(events), nscn, dt, len([v for v in vs if not v["clause"].startswith("DRIFT_")]), len([v for v in vs if v["clause"].startswith("DRIFT_")])))
        return events

    # ------------------------------------------------------------------ verdict
    def known_findings(self):
        ks = []
        p = os.path.join(VERIF, "KNOWN_FINDINGS.txt")
        if os.path.exists(p):
            for line in open(p):
                m = re.match(r"finding:\s+property=(\S+)\s+key=(\S+)\s+(.*)", line.strip())
                if m and m.group(1) == self.pid:
                    ks.append((m.group(2), m.group(3)))
        return ks

    def finish(self, level="model_checking", rule="", explanation=None):
        ks = self.known_findings()
        unlisted, listed = [], {}
        for v in self.viol:
            hit = [k for k in ks if k[0] == v["key"]]
            if hit:
                listed[hit[0][0]] = hit[0][1]
            else:
                unlisted.append(v)
        for k, txt in listed.items():
            log("KNOWN-FINDING: property=%s %s" % (self.pid, txt))
        seen_drift = set()
        for dft in self.drift:
            if dft["clause"] not in seen_drift:
                seen_drift.add(dft["clause"])
                log("DRIFT model=%s clause=%s first at line %d: %s" % (dft["monitor"], dft["clause"], dft["line"], json.dumps(dft["event"])[:300]))
        rc = 0
        replays = []
        done_scn = set()
        for v in unlisted:
            if v["scn"] in done_scn and len(replays) >= 1:
                continue
            done_scn.add(v["scn"])
            if len(replays) < 5:
                rp = os.path.join(self.outroot, self.pid, "replay-%s-%d.ndjson" % (self.tier, len(replays)))
                with open(rp, "w") as w:
                    w.write(json.dumps({"ev": "ReplayHeader", "scn": v["scn"], "seq": 0, "clause": v["clause"], "seed": self.seed, "tier": self.tier, "monitor": v["monitor"]}) + "\n")
                    for e in v["_events"]:
                        if e["scn"] == v["scn"]:
                            w.write(json.dumps(e) + "\n")
                replays.append(rp)
                log("VIOLATION property=%s replay=%s" % (self.pid, rp))
                log("  clause=%s scn=%d line=%d event=%s" % (v["clause"], v["scn"], v["line"], json.dumps(v["event"])[:400]))
            rc = 1
        states = sum(m.get("distinct", 0) for m in self.mc)
        trans = sum(m.get("generated", 0) for m in self.mc)
        cov = dict(
            states=states, transitions=trans,
            traces_validated_against_impl=self.traces,
            events_validated=self.events,
            scenarios_replayed_from_tlc=self.scenarios_replayed,
            evaluations=self.events,
            distinct_nontrivial=len(self.distinct),
            rule=rule,
            samples=self.samples[:6] or [{"note": "no sample"}],
            exhaustive=bool(self.mc) and all(m.get("left", 1) == 0 for m in self.mc),
            model_runs=self.mc, model_mutants_rejected=self.mutants, generators=self.gen, go_runs=self.go,
            drift=[dict(clause=d["clause"], line=d["line"]) for d in self.drift[:10]],
            known_findings_hit=sorted(listed.keys()),
        )
        if explanation:
            cov["explanation"] = explanation
        cov.update(self.extra)
        ev = dict(property_id=self.pid, tier=self.tier, seed=self.seed, level=level, coverage=cov,
                  assumptions=self.assumptions, wall_s=round(time.time() - self.t0, 1), violations=len(unlisted))
        evdir = os.path.join(VERIF, "evidence") if "VERIF_OUTROOT" not in os.environ else self.outroot
        os.makedirs(evdir, exist_ok=True)
        if not self.replay and not os.environ.get("VERIF_SKIP_MC"):    # a run without its model step is not evidence
            json.dump(ev, open(os.path.join(evdir, self.pid + ".json"), "w"), indent=1)
        if rc == 0 and self.partial:
            log("BROKEN property=%s %s - and the executions recorded before that satisfy the property" % (self.pid, self.partial))
            return 2
        if rc == 0 and os.environ.get("VERIF_KEEP"):
            log("OK property=%s (traces kept in %s)" % (self.pid, self.out))
        elif rc == 0:
            log("OK property=%s tier=%s seed=%d states=%d traces=%d events=%d wall=%.0fs" % (self.pid, self.tier, self.seed, states, self.traces, self.events, time.time() - self.t0))
            # keep the out dir small: traces can be large
            for f in glob.glob(os.path.join(self.out, "all-*.ndjson")) + glob.glob(os.path.join(self.out, "trace-*.ndjson")):
                try:
                    os.remove(f)
                except OSError:
                    pass
            for sub in ("mc", "gen", "tv"):
                shutil.rmtree(os.path.join(self.out, sub), ignore_errors=True)
        return rc


def main(props):
    import argparse
    ap = argparse.ArgumentParser()
    ap.add_argument("pid")
    ap.add_argument("--tier", default=os.environ.get("VERIF_TIER", "quick"))
    ap.add_argument("--replay")
    a = ap.parse_args()
    try:
        seed = int(os.environ.get("VERIF_SEED", "1"))
    except ValueError:
        seed = 1
    if a.tier not in ("quick", "thorough"):
        a.tier = "quick"
    os.environ["VERIF_TIER"] = a.tier
    ctx = Ctx(a.pid, a.tier, seed, a.replay)
    log("== check %s tier=%s seed=%d repo=%s" % (a.pid, a.tier, seed, REPO))
    try:
        if a.pid not in props:
            raise Broken("unknown property " + a.pid)
        rc = props[a.pid](ctx)
    except Broken as b:
        log("BROKEN property=%s %s" % (a.pid, b))
        rc = 2
    sys.exit(rc)
