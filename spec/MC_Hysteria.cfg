SPECIFICATION Spec
CONSTANTS MaxGen = 2  MaxTok = 2  Dsts = {1, 2, 3}  Allow = {1, 2}
  AuthPerGen = TRUE  CheckEveryDgram = TRUE  FlowsDieWithConn = TRUE  OrderKept = TRUE
INVARIANT NoViolation
CHECK_DEADLOCK FALSE
