------------------------------ MODULE Sys_Relay ------------------------------
(* Model of one proxied TCP connection: core/server/copy.go (copyBufferLog,   *)
(* copyTwoWayEx), the tear-down in handleTCPRequest, QStream.Close (cancel    *)
(* read + FIN) and the endpoints.  Data are unit tokens.                      *)
(*   cs : client -> server stream      st : server -> target pipe             *)
(*   ts : target -> server pipe        sc : server -> client stream           *)
(* Up copier  : U_Read (cs) -> U_Log -> U_Write (st)                          *)
(* Down copier: D_Read (ts) -> D_Log -> D_Write (sc)                          *)
(* Parent     : waits for the first copier result, closes target and stream,  *)
(*              closes the QUIC connection after a veto.                      *)
EXTENDS Integers, Sequences, TLC, Json

P == INSTANCE Prop_C06

CONSTANTS NC, NT,          \* tokens each endpoint wants to send
          MaxVeto,         \* the logger may veto up to this many calls (any call)
          LogBeforeWrite,  \* TRUE: log, then write (mutant: write first)
          HonourVeto,      \* TRUE: a vetoed chunk is not forwarded
          CloseConnOnVeto, \* TRUE: veto closes the user's connection
          LateVetoCloses,  \* TRUE: a veto in the copier that finishes second still closes the connection (FALSE: tree as found)
          HookMax,         \* the request hook may have read up to this many tokens from the stream before the dial (0: never hooked)
          PutbackFirst,    \* TRUE: what the hook read is written to the target before relaying starts (mutant: dropped)
          DrainOnEOF,      \* TRUE: the chunk read together with EOF is forwarded (mutant drops the tail)
          GenHist

VARIABLES cs, st, ts, sc,          \* queues: [q : Seq(Nat) (token indices), fin : BOOLEAN (writer closed), dead : BOOLEAN (reader gone)]
          wC, wT,                  \* tokens written so far by client / target
          cliClosed, tgtClosed,    \* endpoint closed
          up, down,                \* copiers: [pc, held]
          parent,                  \* "wait" | "closing" | "done"
          result,                  \* first copier result: "none" | "ok" | "err" | "veto"
          nveto, mon, hist

vars == <<cs, st, ts, sc, wC, wT, cliClosed, tgtClosed, up, down, parent, result, nveto, mon, hist>>

Q0 == [q |-> <<>>, fin |-> FALSE, dead |-> FALSE]
Feed(es) == LET RECURSIVE R(_, _) R(m, s) == IF s = <<>> THEN m ELSE R(P!MonStep(m, Head(s), 0), Tail(s)) IN mon' = R(mon, es)
E(name) == [ev |-> name, scn |-> 0]
H(x) == hist' = IF GenHist THEN Append(hist, x) ELSE hist

\* ---------------- endpoints (environment) ----------------
CWrite == /\ ~cliClosed /\ wC < NC /\ ~cs.dead
          /\ wC' = wC + 1 /\ cs' = [cs EXCEPT !.q = Append(@, wC + 1)]
          /\ Feed(<< E("CliWriteStart") @@ [n |-> 1] >>) /\ H("cw")
          /\ UNCHANGED <<st, ts, sc, wT, cliClosed, tgtClosed, up, down, parent, result, nveto>>
TWrite == /\ ~tgtClosed /\ wT < NT /\ ~ts.dead
          /\ wT' = wT + 1 /\ ts' = [ts EXCEPT !.q = Append(@, wT + 1)]
          /\ Feed(<< E("TgtWriteStart") @@ [n |-> 1] >>) /\ H("tw")
          /\ UNCHANGED <<cs, st, sc, wC, cliClosed, tgtClosed, up, down, parent, result, nveto>>
\* QStream.Close on the client: FIN for cs, cancel read for sc
CClose == /\ ~cliClosed /\ cliClosed' = TRUE
          /\ cs' = [cs EXCEPT !.fin = TRUE] /\ sc' = [sc EXCEPT !.dead = TRUE]
          /\ Feed(<< E("CliClose") >>) /\ H("cc")
          /\ UNCHANGED <<st, ts, wC, wT, tgtClosed, up, down, parent, result, nveto>>
\* the target closes its socket: EOF for ts, writes to st fail
TClose == /\ ~tgtClosed /\ tgtClosed' = TRUE
          /\ ts' = [ts EXCEPT !.fin = TRUE] /\ st' = [st EXCEPT !.dead = TRUE]
          /\ Feed(<< E("TgtClose") >>) /\ H("tc")
          /\ UNCHANGED <<cs, sc, wC, wT, cliClosed, up, down, parent, result, nveto>>
TRead == /\ ~tgtClosed /\ st.q # <<>>
         /\ st' = [st EXCEPT !.q = Tail(@)]
         /\ Feed(<< E("TgtRead") @@ [n |-> 1, ok |-> Head(st.q) = mon.gotT + 1] >>) /\ H("tr")
         /\ UNCHANGED <<cs, ts, sc, wC, wT, cliClosed, tgtClosed, up, down, parent, result, nveto>>
TSeesEOF == /\ ~tgtClosed /\ st.q = <<>> /\ st.fin
            /\ Feed(<< E("TgtEOF") >>) /\ tgtClosed' = TRUE /\ ts' = [ts EXCEPT !.fin = TRUE] /\ st' = [st EXCEPT !.dead = TRUE] /\ H("te")
            /\ UNCHANGED <<cs, sc, wC, wT, cliClosed, up, down, parent, result, nveto>>
CRead == /\ ~cliClosed /\ sc.q # <<>>
         /\ sc' = [sc EXCEPT !.q = Tail(@)]
         /\ Feed(<< E("CliRead") @@ [n |-> 1, ok |-> Head(sc.q) = mon.gotC + 1] >>) /\ H("cr")
         /\ UNCHANGED <<cs, st, ts, wC, wT, cliClosed, tgtClosed, up, down, parent, result, nveto>>
CSeesEOF == /\ ~cliClosed /\ sc.q = <<>> /\ sc.fin
            /\ Feed(<< E("CliEOF") >>) /\ cliClosed' = TRUE /\ cs' = [cs EXCEPT !.fin = TRUE] /\ sc' = [sc EXCEPT !.dead = TRUE] /\ H("ce")
            /\ UNCHANGED <<st, ts, wC, wT, tgtClosed, up, down, parent, result, nveto>>

\* ---------------- copiers ----------------
Finish(res) == result' = IF result = "none" THEN res ELSE result

\* generic step of a copier: src queue, dst queue, direction
URead == /\ up.pc = "read"
         /\ IF cs.dead THEN up' = [pc |-> "done", held |-> 0] /\ Finish("err") /\ UNCHANGED cs          \* parent cancelled the read side
            ELSE IF cs.q # <<>> THEN up' = [pc |-> "log", held |-> Head(cs.q)] /\ cs' = [cs EXCEPT !.q = Tail(@)] /\ UNCHANGED result
            ELSE cs.fin /\ up' = [pc |-> "done", held |-> 0] /\ Finish("ok") /\ UNCHANGED cs
         /\ UNCHANGED <<st, ts, sc, wC, wT, cliClosed, tgtClosed, down, parent, nveto, mon, hist>>
DRead == /\ down.pc = "read"
         /\ IF ts.dead THEN down' = [pc |-> "done", held |-> 0] /\ Finish("err") /\ UNCHANGED ts
            ELSE IF ts.q # <<>> THEN down' = [pc |-> "log", held |-> Head(ts.q)] /\ ts' = [ts EXCEPT !.q = Tail(@)] /\ UNCHANGED result
            ELSE ts.fin /\ down' = [pc |-> "done", held |-> 0] /\ Finish("ok") /\ UNCHANGED ts
         /\ UNCHANGED <<cs, st, sc, wC, wT, cliClosed, tgtClosed, up, parent, nveto, mon, hist>>

ULog(ok) == /\ up.pc = "log" /\ (~ok => nveto < MaxVeto)
            /\ nveto' = IF ok THEN nveto ELSE nveto + 1
            /\ IF ~ok /\ HonourVeto /\ result # "none" /\ LateVetoCloses /\ CloseConnOnVeto
               THEN Feed(<< E("Log") @@ [tx |-> 1, rx |-> 0, ok |-> ok], E("ConnClosed") @@ [code |-> 263] >>)
               ELSE Feed(<< E("Log") @@ [tx |-> 1, rx |-> 0, ok |-> ok] >>)
            /\ IF ok \/ ~HonourVeto THEN up' = [up EXCEPT !.pc = "write"] /\ UNCHANGED result
               ELSE up' = [pc |-> "done", held |-> 0] /\ Finish("veto")
            /\ H(IF ok THEN "ul" ELSE "uv")
            /\ UNCHANGED <<cs, st, ts, sc, wC, wT, cliClosed, tgtClosed, down, parent>>
DLog(ok) == /\ down.pc = "log" /\ (~ok => nveto < MaxVeto)
            /\ nveto' = IF ok THEN nveto ELSE nveto + 1
            /\ IF ~ok /\ HonourVeto /\ result # "none" /\ LateVetoCloses /\ CloseConnOnVeto
               THEN Feed(<< E("Log") @@ [tx |-> 0, rx |-> 1, ok |-> ok], E("ConnClosed") @@ [code |-> 263] >>)
               ELSE Feed(<< E("Log") @@ [tx |-> 0, rx |-> 1, ok |-> ok] >>)
            /\ IF ok \/ ~HonourVeto THEN down' = [down EXCEPT !.pc = "write"] /\ UNCHANGED result
               ELSE down' = [pc |-> "done", held |-> 0] /\ Finish("veto")
            /\ H(IF ok THEN "dl" ELSE "dv")
            /\ UNCHANGED <<cs, st, ts, sc, wC, wT, cliClosed, tgtClosed, up, parent>>

UWrite == /\ up.pc = "write"
          /\ IF st.dead \/ st.fin THEN up' = [pc |-> "done", held |-> 0] /\ Finish("err") /\ UNCHANGED st
             ELSE st' = [st EXCEPT !.q = Append(@, up.held)] /\ up' = [pc |-> "read", held |-> 0] /\ UNCHANGED result
          /\ UNCHANGED <<cs, ts, sc, wC, wT, cliClosed, tgtClosed, down, parent, nveto, mon, hist>>
DWrite == /\ down.pc = "write"
          /\ IF sc.dead \/ sc.fin THEN down' = [pc |-> "done", held |-> 0] /\ Finish("err") /\ UNCHANGED sc
             ELSE sc' = [sc EXCEPT !.q = Append(@, down.held)] /\ down' = [pc |-> "read", held |-> 0] /\ UNCHANGED result
          /\ UNCHANGED <<cs, st, ts, wC, wT, cliClosed, tgtClosed, up, parent, nveto, mon, hist>>

\* mutant LogBeforeWrite = FALSE: the chunk is written when it is read, logged afterwards
UReadWriteFirst == /\ ~LogBeforeWrite /\ up.pc = "read" /\ ~cs.dead /\ cs.q # <<>> /\ ~st.dead /\ ~st.fin
                   /\ st' = [st EXCEPT !.q = Append(@, Head(cs.q))] /\ cs' = [cs EXCEPT !.q = Tail(@)]
                   /\ up' = [pc |-> "logafter", held |-> 0]
                   /\ UNCHANGED <<ts, sc, wC, wT, cliClosed, tgtClosed, down, parent, result, nveto, mon, hist>>
ULogAfter == /\ up.pc = "logafter"
             /\ Feed(<< E("Log") @@ [tx |-> 1, rx |-> 0, ok |-> TRUE] >>) /\ up' = [pc |-> "read", held |-> 0]
             /\ UNCHANGED <<cs, st, ts, sc, wC, wT, cliClosed, tgtClosed, down, parent, result, nveto, hist>>

\* ---------------- parent ----------------
ParentClose ==                               \* tConn.Close(); stream.Close(); CloseWithError on veto
  /\ parent = "wait" /\ result # "none"
  /\ parent' = "done"
  /\ st' = [st EXCEPT !.fin = TRUE, !.q = IF DrainOnEOF THEN @ ELSE <<>>] /\ ts' = [ts EXCEPT !.dead = TRUE]
  /\ sc' = [sc EXCEPT !.fin = TRUE] /\ cs' = [cs EXCEPT !.dead = TRUE]
  /\ IF result = "veto" /\ CloseConnOnVeto THEN Feed(<< E("ConnClosed") @@ [code |-> 263] >>) ELSE UNCHANGED mon
  /\ UNCHANGED <<wC, wT, cliClosed, tgtClosed, up, down, result, nveto, hist>>

\* A hooked connection starts with h tokens already read from the stream by the request hook (sniffing) and handed
\* back as "putback": handleTCPRequest writes them to the target before the copy loops start.
Init == \E h \in 0..HookMax :
        /\ cs = Q0 /\ ts = Q0 /\ sc = Q0 /\ wC = h /\ wT = 0
        /\ st = [Q0 EXCEPT !.q = IF PutbackFirst THEN [i \in 1..h |-> i] ELSE <<>>]
        /\ cliClosed = FALSE /\ tgtClosed = FALSE
        /\ up = [pc |-> "read", held |-> 0] /\ down = [pc |-> "read", held |-> 0]
        /\ parent = "wait" /\ result = "none" /\ nveto = 0 /\ hist = <<>>
        /\ mon = [P!MonInit EXCEPT !.logger = TRUE, !.chunk = 1, !.hooked = h > 0, !.sentC = h]

Next == \/ CWrite \/ TWrite \/ CClose \/ TClose \/ TRead \/ TSeesEOF \/ CRead \/ CSeesEOF
        \/ (LogBeforeWrite /\ URead) \/ (~LogBeforeWrite /\ up.pc = "read" /\ (cs.dead \/ cs.q = <<>>) /\ URead)
        \/ UReadWriteFirst \/ ULogAfter
        \/ DRead \/ \E ok \in BOOLEAN : ULog(ok) \/ DLog(ok)
        \/ UWrite \/ DWrite \/ ParentClose

Spec == Init /\ [][Next]_vars

Quiet == parent = "done" /\ up.pc = "done" /\ down.pc = "done"
\* at the end the End event is judged too
EndEv == E("End") @@ [drT |-> st.q = <<>>, drC |-> sc.q = <<>>]
NoViolation == mon.viol = {}
NoViolationAtEnd == Quiet => P!MonStep(mon, EndEv, 0).viol = {}
PrintScn == Quiet => PrintT(<<"SCN", ToJson(hist)>>)
=============================================================================
