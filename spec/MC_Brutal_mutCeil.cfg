SPECIFICATION Spec
CONSTANTS NPS = 4  MinDelay = 1  BurstMult = 4  BurstPkts = 2  MinSamples = 3  DefCwnd = 12  Mds0 = 3  Rtts <- RttQ
  BpsSet <- BpsP  MdsUp <- MdsUp4  Steps <- StepsP  Batches <- Bat1  MaxTime = 6  MaxSends = 3  MaxAcks = 1  MaxOps = 1000
  CeilOn = FALSE  CapOn = TRUE  ConsumeOn = TRUE  StampOn = TRUE  ClampN = 4  ClampD = 5  StaleOn = TRUE  FloorOn = TRUE
INVARIANT NoHardViolation
VIEW View
CHECK_DEADLOCK FALSE
