----------------------------- MODULE Prop_C20 -----------------------------
(* C20 - Hole-punch demux diverts only punch/STUN packets.                  *)
(* Total monitor over (a) the packets a PunchPacketConn takes from its      *)
(* inner socket (InnerCall / Inject) and hands to QUIC (Read), with the     *)
(* attempt registry seen as call/return events (AddCall/AddRet/RemCall/     *)
(* RemRet), and (b) direct DecodePunchPacket / EncodePunchPacket calls.     *)
(* SHA-256 masks are uninterpreted here: every packet comes with the oracle *)
(* verdict "decodes under metadata a" for every metadata a of the scenario  *)
(* (dec, dinfo) and its STUN class, computed outside the code under test.   *)
(* DRIFT_* clauses are not part of the property.                            *)
EXTENDS Mon

NoPkt == [k |-> 0]

MonInit == [viol |-> {},
            poss |-> {},     \* <<id, a>>: attempt id possibly registered with metadata a now
            def  |-> {},     \* <<id, a>>: certainly registered now (AddRet seen, no later call on id)
            resp |-> {},     \* <<id, rid>>: ServerPuncher.Respond calls in flight (id: the call, rid: the attempt id passed)
            dupok |-> {},    \* calls that overlapped another call with the same attempt id (may be refused as duplicate)
            pend |-> NoPkt]  \* packet handed to the code, decision not yet observed
                             \*  + win: metadata possibly registered at some instant since Inject
                             \*  + dwin: <<id, a>> certainly registered during the whole window

OfId(S, id) == {p \in S : p[1] = id}
Metas(S) == {p[2] : p \in S}

\* the reader asks for the next packet without having returned the pending one: it was withheld
Withheld(m, e, ln) ==
  IF m.pend.k = 0 THEN m.viol
  ELSE LET p == m.pend
           punch == ToSet(p.dec) \cap p.win # {}
       IN VAll(m.viol, e, ln,
            << <<"Swallowed",        ~punch /\ p.stun \notin {"success", "error"}>>,
               <<"DRIFT_StunError",  ~punch /\ p.stun = "error">> >>)

MonStep(m, e, ln) ==
  CASE e.ev = "Reset" -> [MonInit EXCEPT !.viol = m.viol]
    \* ---------------- registry, as seen by its callers
    [] e.ev = "AddCall" ->
         [m EXCEPT !.poss = m.poss \cup {<<e.id, e.a>>},
                   !.def  = m.def \ OfId(m.def, e.id),
                   !.pend = IF m.pend.k = 0 THEN m.pend
                            ELSE [m.pend EXCEPT !.win = @ \cup {e.a}, !.dwin = @ \ OfId(@, e.id)]]
    [] e.ev = "AddRet" ->
         IF e.ok THEN [m EXCEPT !.poss = (m.poss \ OfId(m.poss, e.id)) \cup {<<e.id, e.a>>},
                                !.def  = (m.def \ OfId(m.def, e.id)) \cup {<<e.id, e.a>>}]
                 ELSE [m EXCEPT !.poss = m.poss \ {<<e.id, e.a>>}]
    [] e.ev = "RemCall" ->
         [m EXCEPT !.def  = m.def \ OfId(m.def, e.id),
                   !.pend = IF m.pend.k = 0 THEN m.pend ELSE [m.pend EXCEPT !.dwin = @ \ OfId(@, e.id)]]
    [] e.ev = "RemRet" -> [m EXCEPT !.poss = m.poss \ OfId(m.poss, e.id)]
    \* ---------------- ServerPuncher.Respond as a whole (the driver also logs AddCall before and RemRet after it):
    \* whatever way it returns, its attempt is gone - a later call with the same attempt id that overlaps no
    \* other call must not be refused as a duplicate
    [] e.ev = "RespCall" ->
         LET same == {p \in m.resp : p[2] = e.rid} IN
         [m EXCEPT !.resp = m.resp \cup {<<e.id, e.rid>>},
                   !.dupok = IF same = {} THEN m.dupok ELSE m.dupok \cup {e.id} \cup {p[1] : p \in same}]
    [] e.ev = "RespRet" ->
         [m EXCEPT !.resp = m.resp \ {<<e.id, e.rid>>}, !.dupok = m.dupok \ {e.id},
                   !.viol = VAll(m.viol, e, ln, << <<"RemovedOnReturn", e.dup /\ e.id \notin m.dupok>> >>)]
    \* ---------------- the reader
    [] e.ev = "InnerCall" -> [m EXCEPT !.viol = Withheld(m, e, ln), !.pend = NoPkt]
    [] e.ev = "InnerEOF"  -> m
    [] e.ev = "Inject" ->
         [m EXCEPT !.pend = [k |-> e.k, h |-> e.h, len |-> e.len, src |-> e.src, dec |-> e.dec, dinfo |-> e.dinfo,
                             stun |-> e.stun, full |-> e.full, udp |-> e.udp,
                             win |-> Metas(m.poss), dwin |-> m.def],
                   !.viol = VAll(m.viol, e, ln, << <<"DRIFT_Harness", m.pend.k # 0>> >>)]
    [] e.ev = "Read" ->
         LET p == m.pend IN
         IF p.k = 0 THEN [m EXCEPT !.viol = V(m.viol, e, ln, "Phantom", TRUE)]
         ELSE [m EXCEPT !.pend = NoPkt,
                 !.viol = VAll(m.viol, e, ln,
                   << <<"Identity", e.h # p.h \/ e.len # p.len \/ e.src # p.src>>,
                      <<"DRIFT_NotDiverted", \/ (p.udp /\ ToSet(p.dec) \cap Metas(p.dwin) # {})
                                             \/ (p.stun = "success" /\ p.full)>> >>)]
    [] e.ev = "ReadErr" -> [m EXCEPT !.viol = Withheld(m, e, ln), !.pend = NoPkt]
    \* an event on Events(): must describe the packet just diverted
    [] e.ev = "PunchEv" ->
         [m EXCEPT !.viol = VAll(m.viol, e, ln,
            << <<"DRIFT_Event", \/ m.pend.k = 0
                                \/ ~\E i \in 1..Len(m.pend.dinfo) :
                                      m.pend.dinfo[i][2] = e.typ /\ m.pend.dinfo[i][3] = e.pad>> >>)]
    [] e.ev = "StunEv" ->
         [m EXCEPT !.viol = VAll(m.viol, e, ln, << <<"DRIFT_Event", m.pend.k = 0 \/ m.pend.stun # "success">> >>)]
    \* ---------------- the codec called directly
    [] e.ev = "Decode" ->
         [m EXCEPT !.viol = VAll(m.viol, e, ln,
            << <<"DecodeExact", e.ok # e.o_ok \/ (e.ok /\ (e.typ # e.o_typ \/ e.pad # e.o_pad))>> >>)]
    [] e.ev = "Encode" ->
         [m EXCEPT !.viol = VAll(m.viol, e, ln,
            << <<"RoundTrip", e.ok /\ (~e.o_ok \/ e.o_typ # e.typ \/ e.o_pad < 0 \/ e.o_pad > 1024)>>,
               <<"Exclusive", e.ok /\ e.others # <<>> >> >>)]
    [] e.ev = "Panic" -> [m EXCEPT !.viol = V(m.viol, e, ln, "Panic", TRUE)]
    [] OTHER -> m
===========================================================================
