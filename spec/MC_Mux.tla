---- MODULE MC_Mux ----
EXTENDS Sys_Mux
====
