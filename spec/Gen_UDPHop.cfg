SPECIFICATION Spec
CONSTANTS MaxOps = 12  MaxFire = 6  MaxPkt = 4  MaxRd = 4  MaxWr = 3  HMin = 5000  HMax = 5000  Mut = "none"
  Items <- ItemsDef  PortU <- PortUDef
INVARIANT PrintScn
CHECK_DEADLOCK FALSE
