----------------------------- MODULE Sys_Brutal -----------------------------
(* Model of core/internal/congestion/common/pacer.go (Pacer) and             *)
(* core/internal/congestion/brutal/brutal.go (BrutalSender), driven by       *)
(* Env_QuicSendLoop: a QUIC-like send loop on a virtual clock.               *)
(* Implementation-shaped: the state is the code's (budgetAtLastSent,         *)
(* lastSentTime, maxDatagramSize, pktInfoSlots[5], ackRate) and every action *)
(* is one call of the congestion-control interface, transcribed branch by    *)
(* branch.  Scaled units: NPS ticks per second, datagrams of a few bytes.    *)
(* ackRate is the exact rational rnum/rden (the code uses float64).          *)
EXTENDS Prop_C11, TLC, Json

CONSTANTS NPS,          \* ticks per second                      (code: 10^9)
          MinDelay,     \* MinPacingDelay in ticks               (code: 10^6)
          BurstMult,    \* maxBurstPacingDelayMultiplier         (code: 4)
          BurstPkts,    \* maxBurstPackets                       (code: 10)
          MinSamples,   \* minSampleCount                        (code: 50)
          DefCwnd,      \* window when no RTT sample             (code: 10240)
          BpsSet,       \* configured rates, bytes per second
          Mds0, MdsUp,  \* initial datagram size and the sizes SetMaxDatagramSize may raise it to
          Steps,        \* clock advances, in ticks
          Batches,      \* ack/loss batches <<acked, lost>>
          Rtts,         \* smoothed RTTs (ticks) a window query may see
          MaxTime, MaxSends, MaxAcks, MaxOps,
          \* ---- model mutants (each removes one guard of the code; TLC must reject them) ----
          CeilOn,       \* FALSE: TimeUntilSend without the round-up
          CapOn,        \* FALSE: Budget not capped at the maximum burst
          ConsumeOn,    \* FALSE: SentPacket does not consume budget
          StampOn,      \* FALSE: SentPacket of a packet larger than the budget does not set lastSentTime
          ClampN, ClampD, \* ackRate floor (code: 4/5)
          StaleOn,      \* FALSE: slots older than five seconds are still counted
          FloorOn       \* FALSE: window not floored at one datagram

VARIABLES now, bps, nocomp, mds,
          bals, last,                 \* Pacer.budgetAtLastSent, Pacer.lastSentTime (0 = never)
          slots,                      \* pktInfoSlots: slot index 0..4 -> <<Timestamp, AckCount, LossCount>>
          rnum, rden,                 \* ackRate = rnum / rden
          granted,                    \* Env: the loop holds a HasPacingBudget = true
          nSend, nAck, nOps, mon, hist

vars == <<now, bps, nocomp, mds, bals, last, slots, rnum, rden, granted, nSend, nAck, nOps, mon, hist>>

Cfg == [nps |-> NPS, burstTicks |-> BurstMult * MinDelay, burstPkts |-> BurstPkts, minSamples |-> MinSamples, win |-> 5,
        slackMul |-> 0]     \* the model is held to the nominal burst exactly
T2(t) == <<t \div NPS, t % NPS>>

\* ---------------- pacer.go ----------------------------------------------------
Bw       == (bps * rden) \div rnum                                      \* brutal.go:57-60
MaxBurst == Max2(((BurstMult * MinDelay) * Bw) \div NPS, BurstPkts * mds)   \* pacer.go:55-60
Budget(t) ==                                                             \* pacer.go:42-53
  IF last = 0 THEN MaxBurst
  ELSE LET b == bals + (Bw * (t - last)) \div NPS IN
       IF CapOn THEN Min2(MaxBurst, b) ELSE b
TimeUntilSend ==                                                         \* pacer.go:62-76
  IF bals >= mds THEN 0
  ELSE LET diff == NPS * (mds - bals)
           d    == (diff \div Bw) + (IF CeilOn /\ diff % Bw > 0 THEN 1 ELSE 0)
       IN last + Max2(MinDelay, d)

\* ---------------- brutal.go ---------------------------------------------------
Cwnd(rtt) ==                                                             \* brutal.go:75-89
  IF rtt <= 0 THEN DefCwnd
  ELSE LET c == (2 * bps * rtt * rden) \div (NPS * rnum) IN
       IF FloorOn /\ c < mds THEN mds ELSE c

Rate16 == (rnum * 65536) \div rden

\* ---------------- Env_QuicSendLoop + the calls --------------------------------
Op == nOps < MaxOps /\ nOps' = nOps + 1

Advance(k) ==
  /\ Op /\ now + k <= MaxTime
  /\ now' = now + k
  /\ hist' = Append(hist, <<"tick", k>>)
  /\ UNCHANGED <<bps, nocomp, mds, bals, last, slots, rnum, rden, granted, nSend, nAck, mon>>

\* One iteration of the send loop (sent_packet_handler.SendMode + sendPacket / pacing timer):
\*   HasPacingBudget(now) = true  -> OnPacketSent(now, size)           (one datagram per grant)
\*   HasPacingBudget(now) = false -> TimeUntilSend() = T; sleep until max(now, T) (+ late)
TrySend(size, late) ==
  /\ Op
  /\ LET b  == Budget(now)
         ok == b >= mds
         e1 == [ev |-> "HasBudget", scn |-> 0, t |-> T2(now), ok |-> ok]
     IN IF ok THEN
          /\ nSend < MaxSends /\ late = 0
          /\ bals' = (IF ~ConsumeOn THEN b ELSE IF size > b THEN 0 ELSE b - size)
          /\ last' = (IF size > b /\ ~StampOn THEN last ELSE now) /\ now' = now /\ nSend' = nSend + 1
          /\ mon' = MonStep(MonStep(mon, e1, 0),
                            [ev |-> "Send", scn |-> 0, t |-> T2(now), size |-> size, paced |-> TRUE], 0)
          /\ hist' = Append(hist, <<"try", size, late>>)
        ELSE
          LET T  == TimeUntilSend
              to == Max2(now, T) + late
          IN /\ size = mds /\ to <= MaxTime
             /\ now' = to
             /\ mon' = MonStep(MonStep(mon, e1, 0),
                               [ev |-> "Until", scn |-> 0, t |-> T2(now), zero |-> T = 0, at |-> T2(T)], 0)
             /\ hist' = Append(hist, <<"try", size, late>>)
             /\ UNCHANGED <<bals, last, nSend>>
  /\ UNCHANGED <<bps, nocomp, mds, slots, rnum, rden, granted, nAck>>

\* a packet that is not gated by pacing: ACK-only packet (1 byte) or PTO / tail-loss probe (a full datagram),
\* possibly larger than the budget: SentPacket empties the bucket and restarts accrual at now    pacer.go:32-40
Unpaced(size) ==
  /\ Op /\ nSend < MaxSends
  /\ LET b == Budget(now) IN
       /\ bals' = (IF ~ConsumeOn THEN b ELSE IF size > b THEN 0 ELSE b - size)
       /\ last' = (IF size > b /\ ~StampOn THEN last ELSE now)
       /\ mon' = MonStep(mon, [ev |-> "Send", scn |-> 0, t |-> T2(now), size |-> size, paced |-> FALSE], 0)
  /\ nSend' = nSend + 1
  /\ hist' = Append(hist, <<"unpaced", size>>)
  /\ UNCHANGED <<now, bps, nocomp, mds, slots, rnum, rden, granted, nAck>>

AckLoss(a, l) ==                                                         \* OnCongestionEventEx(.., now, acked, lost)
  /\ Op /\ nAck < MaxAcks
  /\ LET ts  == now \div NPS
         i   == ts % 5
         s2  == IF slots[i][1] = ts THEN [slots EXCEPT ![i] = <<ts, slots[i][2] + a, slots[i][3] + l>>]
                ELSE [slots EXCEPT ![i] = <<ts, a, l>>]
         mn  == ts - 5
         In(j) == IF ~StaleOn \/ s2[j][1] >= mn THEN 1 ELSE 0               \* brutal.go:128-133
         A   == In(0)*s2[0][2] + In(1)*s2[1][2] + In(2)*s2[2][2] + In(3)*s2[3][2] + In(4)*s2[4][2]
         L   == In(0)*s2[0][3] + In(1)*s2[1][3] + In(2)*s2[2][3] + In(3)*s2[3][3] + In(4)*s2[4][3]
         r   == IF nocomp \/ A + L < MinSamples THEN <<1, 1>>
                ELSE IF ClampD * A < ClampN * (A + L) THEN <<ClampN, ClampD>>
                ELSE <<A, A + L>>
         e   == [ev |-> "Ack", scn |-> 0, t |-> T2(now), a |-> a, l |-> l,
                 rate16 |-> (r[1] * 65536) \div r[2],
                 ge08 |-> 5 * r[1] >= 4 * r[2], le1 |-> r[1] <= r[2]]
     IN /\ slots' = s2 /\ rnum' = r[1] /\ rden' = r[2]
        /\ mon' = MonStep(mon, e, 0)
  /\ nAck' = nAck + 1
  /\ hist' = Append(hist, <<"ack", a, l>>)
  /\ UNCHANGED <<now, bps, nocomp, mds, bals, last, granted, nSend>>

SetMDS(v) ==
  /\ Op /\ v > mds
  /\ mds' = v
  /\ mon' = MonStep(mon, [ev |-> "SetMDS", scn |-> 0, mds |-> v], 0)
  /\ hist' = Append(hist, <<"mds", v>>)
  /\ UNCHANGED <<now, bps, nocomp, bals, last, slots, rnum, rden, granted, nSend, nAck>>

Window(rtt, infl) ==                                                     \* GetCongestionWindow(); CanSend(infl)
  /\ Op
  /\ LET c  == Cwnd(rtt)
         e1 == [ev |-> "Cwnd", scn |-> 0, v |-> c, rttz |-> rtt <= 0]
         e2 == [ev |-> "CanSend", scn |-> 0, inflight |-> infl, ok |-> infl <= c]
     IN mon' = MonStep(MonStep(mon, e1, 0), e2, 0)
  /\ hist' = Append(hist, <<"win", rtt, infl>>)
  /\ UNCHANGED <<now, bps, nocomp, mds, bals, last, slots, rnum, rden, granted, nSend, nAck>>

Init == /\ now = 1 /\ bps \in BpsSet /\ nocomp \in BOOLEAN /\ mds = Mds0
        /\ bals = BurstPkts * Mds0 /\ last = 0
        /\ slots = [i \in 0..4 |-> <<0, 0, 0>>]
        /\ rnum = 1 /\ rden = 1 /\ granted = FALSE
        /\ nSend = 0 /\ nAck = 0 /\ nOps = 0
        /\ mon = MonStart(Cfg, W(bps), Mds0, nocomp)
        /\ hist = <<>>

Next == \/ \E k \in Steps : Advance(k)
        \/ \E sz \in {1, mds} : \E late \in {0, 1} : TrySend(sz, late)
        \/ \E sz \in {1, mds} : Unpaced(sz)
        \/ \E b \in Batches : AckLoss(b[1], b[2])
        \/ \E v \in MdsUp : SetMDS(v)
        \/ \E r \in Rtts : \E f \in {0, mds - 1} : Window(r, f)

Spec == Init /\ [][Next]_vars

NoViolation == mon.viol = {}
\* for the model mutants: a clause of the property itself must fire (a DRIFT clause alone is not enough)
NoHardViolation == \A v \in mon.viol : v.clause \in DriftClauses
PrintScn == (nOps = MaxOps) => PrintT(<<"SCN", ToJson([bps |-> bps, nocomp |-> nocomp, steps |-> hist])>>)
\* nOps (a pure depth bound for the generator) and hist are not part of the view
\* mon.now only feeds the environment-legality clauses, which Sys (monotone clock) never triggers
View == <<now, bps, nocomp, mds, bals, last, slots, rnum, rden, nSend, nAck, [mon EXCEPT !.now = <<0, 0>>]>>
=============================================================================
