SPECIFICATION Spec
CONSTANTS Mds0 = 2  MdsUp <- MdsUp3  MinPkts = 4  InitPkts = 5  MaxPkts = 6  MinBps = 2  SlotAdd = 0
  PrSet <- PrQ  SmallOn = FALSE  MaxPn = 3  MaxEv = 1000
  ClampOn = TRUE  RecFloorOn = TRUE  MinBpsOn = TRUE  PruneOn = TRUE  MdsClampOn = FALSE  PacerMdsOn = TRUE
INVARIANT NoHardViolation
VIEW View
CHECK_DEADLOCK FALSE
