----------------------------- MODULE Prop_C17e -----------------------------
(* C17 end to end: a real server whose RequestHook is the real Sniffer.      *)
(*  TCPFlow(sent, got, same, portBefore, portAfter, hostAfter, hostBefore,   *)
(*          hostInBytes)   one hooked TCP stream: what the client wrote vs   *)
(*          what the target read (same: byte-identical prefix of equal       *)
(*          length), and the address the server dialled                      *)
(*  UDPFlow(same, portBefore, portAfter, hostAfter, hostBefore, hostInBytes) *)
(*          the first datagram of a hooked session as the target got it      *)
EXTENDS Mon
MonInit == [viol |-> {}]
AddrClauses(e) ==
  << <<"PortKept", e.portAfter # e.portBefore>>,
     <<"HostFrom", e.hostAfter # e.hostBefore /\ e.hostAfter # e.hostInBytes>> >>
MonStep(m, e, ln) ==
  CASE e.ev = "TCPFlow" -> [m EXCEPT !.viol = VAll(m.viol, e, ln,
                               << <<"Transparent", ~e.same \/ e.got # e.sent>> >> \o AddrClauses(e))]
    [] e.ev = "UDPFlow" -> [m EXCEPT !.viol = VAll(m.viol, e, ln,
                               << <<"UDPUntouched", ~e.same>> >> \o AddrClauses(e))]
    [] e.ev = "Panic" -> [m EXCEPT !.viol = V(m.viol, e, ln, "Panic", TRUE)]
    [] OTHER -> m
=============================================================================
