---- MODULE MC_PNQueue ----
EXTENDS Sys_PNQueue
====
