SPECIFICATION Spec
CONSTANTS NMsg = 3  MaxCnt = 3  MaxDeliv = 7  FreshPktID = FALSE  FixCount = TRUE  DupCheck = TRUE
  GridD <- GD  GridH <- GH  GridL <- GL
INVARIANT NoViolation
VIEW View
CHECK_DEADLOCK FALSE
