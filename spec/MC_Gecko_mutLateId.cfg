SPECIFICATION Spec
CONSTANTS MsgSrc <- S3  MsgMid <- M3  MsgTot <- T3  CapSrc = 2  CapAll = 3  MaxDeliv = 3  MaxTick = 4
  GridP <- GP1  GridMM <- GM1
  DecOnComplete = TRUE  DupCheck = TRUE  TotalCheck = TRUE  CapStrict = TRUE  GcOn = TRUE  IdEarly = FALSE
INVARIANT NoViolation

VIEW View
CHECK_DEADLOCK FALSE
