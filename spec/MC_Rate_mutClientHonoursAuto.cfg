SPECIFICATION Spec
CONSTANTS MaxRank = 4  ServerCapsRate = TRUE  ClientHonoursAuto = FALSE  ClientZeroIsCC = TRUE  ReportInstalled = TRUE
INVARIANT NoViolation
CHECK_DEADLOCK FALSE
