----------------------------- MODULE Prop_C03 -----------------------------
(* C03 - Peer-controlled bytes never crash the process.                    *)
(* Events:                                                                  *)
(*   Dec    one input fed to one network-facing decoder / one step of a     *)
(*          sequence into a stateful receiver: dec (which entry point),     *)
(*          outcome "accept" | "reject" | "panic" (recover() in the harness)*)
(*          expect: the class Sys_Shapes computed for the shape ("any" when *)
(*          the input was not derived from a modelled shape)                *)
(*   Probe  after a batch of malformed input a well-formed input is handed  *)
(*          to the same long-lived receiver: ok = it was served correctly   *)
(*   Panic  a panic outside a decoder call (driver goroutine)               *)
(* VIOLATION clauses state the property; DRIFT_Class says the real decoder  *)
(* classifies a shape differently from the model (accept vs reject).        *)
EXTENDS Mon

MonInit == [viol |-> {}, decs |-> 0, panics |-> 0]

MonStep(m, e, ln) ==
  CASE e.ev = "Reset" -> [MonInit EXCEPT !.viol = m.viol]
    [] e.ev = "Dec"   -> [m EXCEPT !.decs = m.decs + 1,
                                   !.panics = m.panics + (IF e.outcome = "panic" THEN 1 ELSE 0),
                                   !.viol = VAll(m.viol, e, ln,
                                      << <<"NoPanic", e.outcome = "panic">>,
                                         <<"DRIFT_Class", e.expect # "any" /\ e.outcome # "panic" /\ e.outcome # e.expect>> >>)]
    [] e.ev = "Probe" -> [m EXCEPT !.viol = V(m.viol, e, ln, "ServiceContinues", ~e.ok)]
    [] e.ev = "Panic" -> [m EXCEPT !.viol = V(m.viol, e, ln, "NoPanic", TRUE)]
    [] OTHER          -> m
===========================================================================
