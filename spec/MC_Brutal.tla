---- MODULE MC_Brutal ----
EXTENDS Sys_Brutal
\* scaled grid: 4 ticks per second, 3-byte datagrams (raised to 4), rates of a few bytes per second
BpsP    == {3, 7}               \* pacer-focused configs
BpsPB   == {2, 3, 7, 13}
BpsA    == {7}                  \* ack-window-focused configs
StepsP  == {1, 2, 3}
StepsA  == {4, 24}              \* one second, six seconds
StepsG  == {1, 2, 4, 24}
Bat1    == {<<1, 2>>}
BatA    == {<<3, 0>>, <<1, 2>>, <<1, 0>>}
BatAB   == {<<3, 0>>, <<2, 1>>, <<1, 2>>, <<1, 0>>}
RttQ    == {0, 1, 16}
MdsUp4  == {4}
NoMds   == {}
====
