SPECIFICATION Spec
CONSTANTS IDs = {1, 2}  MaxDg = 4  MaxRep = 2  MaxEnt = 4  Idle = 2  MaxT = 5  MaxFault = 2
  Dsts = {1, 2, 3}  Allow = {1, 2}  HookMap <- HookId  AclCap = 2
  GuardClosedInInit = TRUE  GuardCloseOnce = TRUE  TouchOnReply = TRUE  CheckEveryDgram = TRUE  StampOwnID = TRUE  LockAcrossDial = TRUE  FailPathCloses = TRUE  FragHdr = TRUE  VetWritten = TRUE  VetRewritten = TRUE  SplitExit = FALSE  GenHist = TRUE
INVARIANT PrintScn
CHECK_DEADLOCK FALSE
