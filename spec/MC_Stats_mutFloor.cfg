SPECIFICATION Spec
CONSTANTS NU = 1  NG = 2  NC = 0  MaxOps = 3  Spurious = TRUE
  Amts <- A1  Ops <- OpsO  KickSets <- KS1
  ClearAtomic = TRUE  LogAtomic = TRUE  KickConsume = TRUE  OfflineOnVeto = TRUE  CloseOnLateVeto = TRUE  AuthAtomic = TRUE  OnlineFloor = FALSE
INVARIANT NoViolation
VIEW View
CHECK_DEADLOCK FALSE
