SPECIFICATION Spec
CONSTANTS Conns = {1, 2, 3}  MaxOps = 2  DisableUDP = FALSE
  FlagPerConn = TRUE  FlagNeedsVerdict = TRUE  HijackChecksFlag = TRUE  SMOnlyOnOk = TRUE  MasqOnReject = TRUE  GenHist = FALSE
INVARIANTS NoViolation1 NoViolation2 FlagImpliesAccepted SMImpliesAccepted
PROPERTY NoRevokeFlag
CHECK_DEADLOCK FALSE
