----------------------------- MODULE Sys_PNQueue -----------------------------
(* Model of core/internal/congestion/bbr/packet_number_indexed_queue.go on top *)
(* of ringbuffer.go: the bandwidth sampler's per-packet bookkeeping.           *)
(* Implementation-shaped: the state is the ring (slice, headPos, tailPos,      *)
(* full) plus (numberOfPresentEntries, firstPacket); every operation is        *)
(* transcribed branch by branch, including grow() and the wrap-around.         *)
(* The monitor's QStep keeps the abstract queue (present packet numbers ->     *)
(* value); Sys_PNQueue => Prop_C12 says the ring refines it and never uses     *)
(* more slots than the packet-number span it indexes.                          *)
EXTENDS Prop_C12, TLC, Json

CONSTANTS InitSize,     \* initial ring capacity (code: 256)
          MaxPn,        \* packet numbers 0..MaxPn
          MaxOps,
          GrowOrderOn,  \* FALSE: grow() copies the old slice without rotating it to the head (mutant)
          ClearupOn,    \* FALSE: Remove() of the first entry does not drop the leading holes (mutant)
          PopOn         \* FALSE: RemoveUpTo() marks entries absent but leaves their slots (mutant)

VARIABLES ring, cap, head, tail, full,      \* RingBuffer
          npres, first,                     \* packetNumberIndexedQueue
          nOps, mon, hist

vars == <<ring, cap, head, tail, full, npres, first, nOps, mon, hist>>

Zero == <<FALSE, -1>>                        \* entryWrapper{}: present, entry
Val(pn) == 100 + pn

\* ---------------- ringbuffer.go, as pure functions on a record ----------------
R == [ring |-> ring, cap |-> cap, head |-> head, tail |-> tail, full |-> full]
RLen(r)   == IF r.full THEN r.cap ELSE IF r.tail >= r.head THEN r.tail - r.head ELSE r.tail - r.head + r.cap
REmpty(r) == ~r.full /\ r.head = r.tail
RGrow(r)  ==                                                               \* ringbuffer.go:97-108
  LET nc == IF r.cap = 0 THEN 1 ELSE 2 * r.cap IN
  [ring |-> [i \in 0..(nc - 1) |-> IF i < r.cap
                                   THEN (IF GrowOrderOn THEN r.ring[(r.head + i) % r.cap] ELSE r.ring[i])
                                   ELSE Zero],
   cap |-> nc, head |-> 0, tail |-> r.cap, full |-> FALSE]
RPush(r0, x) ==                                                            \* ringbuffer.go:33-46
  LET r  == IF r0.full \/ r0.cap = 0 THEN RGrow(r0) ELSE r0
      t2 == IF r.tail + 1 = r.cap THEN 0 ELSE r.tail + 1
  IN [r EXCEPT !.ring = [r.ring EXCEPT ![r.tail] = x], !.tail = t2, !.full = (t2 = r.head)]
RPop(r) ==                                                                 \* ringbuffer.go:51-63 (not empty)
  [r EXCEPT !.ring = [r.ring EXCEPT ![r.head] = Zero], !.full = FALSE,
            !.head = IF r.head + 1 = r.cap THEN 0 ELSE r.head + 1]
ROff(r, i) == r.ring[(r.head + i) % r.cap]
RFront(r)  == r.ring[r.head]

\* ---------------- packet_number_indexed_queue.go -------------------------------
Q == [r |-> R, n |-> npres, first |-> first]
QEmpty(q) == q.n = 0
QLast(q)  == IF QEmpty(q) THEN -1 ELSE q.first + RLen(q.r) - 1

RECURSIVE PushHoles(_, _)
PushHoles(r, k) == IF k <= 0 THEN r ELSE PushHoles(RPush(r, Zero), k - 1)

QEmplace(q, pn) ==                                                          \* :53-88   -> <<q', ok>>
  IF pn = -1 THEN <<q, FALSE>>
  ELSE IF QEmpty(q) THEN <<[r |-> RPush(q.r, <<TRUE, Val(pn)>>), n |-> 1, first |-> pn], TRUE>>
  ELSE IF pn <= QLast(q) THEN <<q, FALSE>>
  ELSE LET gap == (pn - q.first) - RLen(q.r)
           r1  == PushHoles(q.r, gap)
       IN <<[q EXCEPT !.r = RPush(r1, <<TRUE, Val(pn)>>), !.n = q.n + 1], TRUE>>

RECURSIVE Clearup(_)
Clearup(q) ==                                                              \* :169-176
  IF ~REmpty(q.r) /\ ~RFront(q.r)[1] THEN Clearup([q EXCEPT !.r = RPop(q.r), !.first = q.first + 1])
  ELSE IF REmpty(q.r) THEN [q EXCEPT !.first = -1] ELSE q

Slot(q, pn) ==      \* getEntryWraper: index into the ring, or -1                :178-198
  IF pn = -1 \/ QEmpty(q) \/ pn < q.first THEN -1
  ELSE LET off == pn - q.first IN
       IF off >= RLen(q.r) THEN -1
       ELSE IF ~ROff(q.r, off)[1] THEN -1 ELSE (q.r.head + off) % q.r.cap

QRemove(q, pn) ==                                                           \* :103-119
  LET s == Slot(q, pn) IN
  IF s = -1 THEN <<q, FALSE>>
  ELSE LET q1 == [q EXCEPT !.r = [q.r EXCEPT !.ring = [q.r.ring EXCEPT ![s] = <<FALSE, q.r.ring[s][2]>>]], !.n = q.n - 1]
       IN <<(IF pn = q.first /\ ClearupOn THEN Clearup(q1) ELSE q1), TRUE>>

RECURSIVE UpToLoop(_, _)
UpToLoop(q, pn) ==                                                         \* :124-137
  IF ~REmpty(q.r) /\ q.first # -1 /\ q.first < pn
  THEN LET n2 == IF RFront(q.r)[1] THEN q.n - 1 ELSE q.n IN
       IF PopOn THEN UpToLoop([r |-> RPop(q.r), n |-> n2, first |-> q.first + 1], pn)
       ELSE \* mutant: the slot is only marked absent; stop at the first slot that is already a hole
            IF RFront(q.r)[1]
            THEN UpToLoop([q EXCEPT !.r = [q.r EXCEPT !.ring = [q.r.ring EXCEPT ![q.r.head] = <<FALSE, -1>>]], !.n = n2], pn)
            ELSE q
  ELSE q
RemoveUpTo(q, pn) == IF PopOn THEN Clearup(UpToLoop(q, pn)) ELSE UpToLoop(q, pn)

QGet(q, pn) == LET s == Slot(q, pn) IN IF s = -1 THEN <<FALSE, -1>> ELSE <<TRUE, q.r.ring[s][2]>>

\* ---------------- the driver: any operation with any packet number ---------------
Do(op, pn) ==
  /\ nOps < MaxOps
  /\ LET res == CASE op = "emplace" -> QEmplace(Q, pn)
                  [] op = "remove"  -> QRemove(Q, pn)
                  [] op = "upto"    -> <<RemoveUpTo(Q, pn), TRUE>>
                  [] OTHER          -> <<Q, QGet(Q, pn)[1]>>
         q2  == res[1]
         e   == [ev |-> "QOp", scn |-> 0, op |-> op, pn |-> pn, val |-> Val(pn), ok |-> res[2],
                 got |-> IF op = "get" THEN QGet(Q, pn)[2] ELSE -1,
                 first |-> q2.first, last |-> QLast(q2), present |-> q2.n, slots |-> RLen(q2.r)]
     IN /\ ring' = q2.r.ring /\ cap' = q2.r.cap /\ head' = q2.r.head /\ tail' = q2.r.tail /\ full' = q2.r.full
        /\ npres' = q2.n /\ first' = q2.first
        /\ mon' = MonStep(mon, e, 0)
  /\ nOps' = nOps + 1
  /\ hist' = Append(hist, <<op, pn>>)

Init == /\ cap = InitSize /\ ring = [i \in 0..(InitSize - 1) |-> Zero]
        /\ head = 0 /\ tail = 0 /\ full = FALSE
        /\ npres = 0 /\ first = -1
        /\ nOps = 0 /\ mon = MonInit /\ hist = <<>>

Next == \E op \in {"emplace", "remove", "upto", "get"} : \E pn \in 0..MaxPn : Do(op, pn)

Spec == Init /\ [][Next]_vars

NoViolation == mon.viol = {}
NoHardViolation == \A v \in mon.viol : v.clause \in DriftClauses
PrintScn == (nOps = MaxOps) => PrintT(<<"SCN", ToJson([init |-> InitSize, steps |-> hist])>>)
View == <<ring, cap, head, tail, full, npres, first, mon>>
=============================================================================
