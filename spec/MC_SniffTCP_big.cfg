SPECIFICATION Spec
CONSTANTS MaxL = 8  MaxT = 4  BufSz = 3  Cap = 7
  KeepProbe = TRUE  ProbeShort = TRUE  TeeOnErr = TRUE  PadShort = FALSE  PortFromHost = FALSE  Pooled = FALSE  InPlace = FALSE
INVARIANT NoViolation
CHECK_DEADLOCK FALSE
