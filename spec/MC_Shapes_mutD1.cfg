SPECIFICATION Spec
CONSTANTS FixUnprotect = TRUE  FixFragCount = FALSE  GeckoPadCheck = TRUE  TcpAddrCheck = TRUE
  UDPLenCheck = TRUE  PunchMin = 33  FeedIdxCheck = TRUE  Mode = "shapes"  Only = "frag"  MaxSteps = 4
INVARIANT NoViolation
VIEW View
CHECK_DEADLOCK FALSE
