SPECIFICATION Spec
CONSTANTS NId = 2  NMeta = 2  MaxPkt = 4  MaxCalls = 5  NResp = 2  Respond = TRUE  Mut = "none"
INVARIANT NoViolation
VIEW View
CHECK_DEADLOCK FALSE
