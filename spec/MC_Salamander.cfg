SPECIFICATION Spec
CONSTANTS NW = 2  NR = 2  MaxW = 2  MaxI = 2  MaxJ = 1  JunkLens <- JL
  UseWMu = TRUE  UseRMu = TRUE  UseLk = TRUE  DeobfInLock = TRUE  JunkRetry = TRUE  UnlockOnRetry = TRUE  KeyOwned = TRUE
INVARIANT NoViolation
INVARIANT MutexOk
VIEW View
CHECK_DEADLOCK FALSE
