----------------------------- MODULE Prop_C09 -----------------------------
(* C09 - ACL decisions are first-match and independent of lookup history.  *)
(* The monitor evaluates First(rules, query) ITSELF, from the ACL          *)
(* documentation: host names are byte sequences (ASCII codes), addresses   *)
(* are octet sequences (4 for IPv4, 16 for IPv6, <<>> for "not resolved"). *)
(*                                                                         *)
(* Events                                                                  *)
(*  Rules  rules = sequence of [kind, pat, ip, bits, proto, lo, hi, out, hij], dflt (engine: default outbound id) *)
(*         kind: "exact" | "suffix" | "wild" | "ip" | "cidr" | "all"; proto 0 both / 1 tcp / 2 udp;               *)
(*         lo = 0: any port, else lo..hi; out >= 1 outbound id; hij = <<>> or octets                              *)
(*  Match  one CompiledRuleSet.Match call on the rule set WITH history (out, hij) and the same query on a      *)
(*         freshly compiled copy WITHOUT history (cout, chij): host, v4, v6, proto, port                          *)
(*  Engine one aclEngine TCP/UDP/CheckUDP call: the query, which outbound received the call (called) and with    *)
(*         which address (aHost raw, aIP parsed octets, a4/a6 resolve info, aPort)                                *)
EXTENDS Mon

MonInit == [viol |-> {}, rules |-> <<>>, dflt |-> 0]

\* ---------- host names ----------------------------------------------------
Lower(h) == [i \in 1..Len(h) |-> IF h[i] >= 65 /\ h[i] <= 90 THEN h[i] + 32 ELSE h[i]]
\* without trailing dots
Strip(h) == LET k == CHOOSE i \in 0..Len(h) : (i = 0 \/ h[i] # 46) /\ \A j \in (i + 1)..Len(h) : h[j] = 46
            IN SubSeq(h, 1, k)
Norm(h) == Strip(Lower(h))

\* wildcard: '*' (42) matches any, possibly empty, run of characters; everything else matches itself.
\* Position-set simulation: S = pattern positions (1..Len(p)+1) reachable after the name consumed so far.
Closure(p, S) == S \cup {j \in 2..(Len(p) + 1) : \E i \in S : i < j /\ \A k \in i..(j - 1) : p[k] = 42}
WildStep(p, S, c) == Closure(p, {j + 1 : j \in {i \in S : i <= Len(p) /\ p[i] = c /\ c # 42}}
                                  \cup {i \in S : i <= Len(p) /\ p[i] = 42})
WildMatch(p, n) == (Len(p) + 1) \in FoldLeft(LAMBDA S, c : WildStep(p, S, c), Closure(p, {1}), n)

SuffixMatch(p, n) == \/ n = p
                     \/ /\ Len(n) > Len(p) + 0
                        /\ n[Len(n) - Len(p)] = 46
                        /\ SubSeq(n, Len(n) - Len(p) + 1, Len(n)) = p

\* ---------- addresses -----------------------------------------------------
Pow2(k) == CASE k = 0 -> 1 [] k = 1 -> 2 [] k = 2 -> 4 [] k = 3 -> 8 [] k = 4 -> 16 [] k = 5 -> 32 [] k = 6 -> 64 [] k = 7 -> 128 [] OTHER -> 256
\* the first `bits` bits of a and b agree
PrefixEq(a, b, bits) ==
  /\ Len(a) = Len(b)
  /\ \A i \in 1..Len(a) :
       LET lo == (i - 1) * 8 IN
       IF bits >= lo + 8 THEN a[i] = b[i]
       ELSE IF bits <= lo THEN TRUE
       ELSE a[i] \div Pow2(8 - (bits - lo)) = b[i] \div Pow2(8 - (bits - lo))

\* ---------- one rule, first match ------------------------------------------
\* n = Norm(q.host); rule patterns are normalised once, when the Rules event is consumed
HostMatch(r, q, n) ==
  CASE r.kind = "all"    -> TRUE
    [] r.kind = "exact"  -> n = r.pat
    [] r.kind = "suffix" -> SuffixMatch(r.pat, n)
    [] r.kind = "wild"   -> WildMatch(r.pat, n)
    [] r.kind = "ip"     -> (q.v4 # <<>> /\ q.v4 = r.ip) \/ (q.v6 # <<>> /\ q.v6 = r.ip)
    [] r.kind = "cidr"   -> (q.v4 # <<>> /\ PrefixEq(q.v4, r.ip, r.bits)) \/ (q.v6 # <<>> /\ PrefixEq(q.v6, r.ip, r.bits))
    [] OTHER             -> FALSE

RuleMatch(r, q, n) ==
  /\ r.proto = 0 \/ r.proto = q.proto
  /\ r.lo = 0 \/ (r.lo <= q.port /\ q.port <= r.hi)
  /\ HostMatch(r, q, n)

NoAnswer == [out |-> 0, hij |-> <<>>]
\* rules: pattern-normalised rule list
First(rules, q) ==
  LET n == Norm(q.host)
      i == SelectInSeq(rules, LAMBDA r : RuleMatch(r, q, n))
  IN IF i = 0 THEN NoAnswer ELSE [out |-> rules[i].out, hij |-> rules[i].hij]
NormRules(rs) == [i \in 1..Len(rs) |-> [rs[i] EXCEPT !.pat = Norm(rs[i].pat)]]

\* ---------- events ---------------------------------------------------------
Q(e, proto) == [host |-> e.host, v4 |-> e.v4, v6 |-> e.v6, proto |-> proto, port |-> e.port]

MatchClauses(m, e) ==
  LET exp == First(m.rules, Q(e, e.proto)) IN
  << \* a lookup without any history answers with the first matching rule (or nothing)
     <<"FirstMatch",       e.cout # exp.out \/ e.chij # exp.hij>>,
     \* the same lookup after an arbitrary history answers the same: caching is invisible
     <<"CacheTransparent", e.out # e.cout \/ e.hij # e.chij>> >>

EngineClauses(m, e) ==
  LET exp    == First(m.rules, Q(e, IF e.op = "TCP" THEN 1 ELSE 2))
      want   == IF exp.out = 0 THEN m.dflt ELSE exp.out
      hijack == exp.out # 0 /\ exp.hij # <<>>
  IN << \* the call goes to the first matching rule's outbound, to the default outbound when none matches
        <<"EngineOutbound", e.called # want>>,
        \* and names the hijack address when the rule has one
        <<"EngineHijack",   hijack /\ e.called = want /\ e.aIP # exp.hij>>,
        \* ... and only that one: a resolved address of the other family that survives the rewrite lets an outbound
        \* that prefers that family reach the original host instead of the hijack address (seeded change C09-r2)
        <<"EngineHijack_OtherFamilyLeaks", hijack /\ e.called = want /\ e.aHasRI
              /\ (IF Len(exp.hij) = 4 THEN e.a6 # <<>> ELSE e.a4 # <<>>)>>,
        \* how today's engine rewrites / leaves the request (not part of the statement)
        <<"DRIFT_EngineRewrite", hijack /\ e.called = want /\
              ~( e.aPort = e.port /\ e.aHasRI
                 /\ (IF Len(exp.hij) = 4 THEN e.a4 = exp.hij /\ e.a6 = <<>> ELSE e.a6 = exp.hij /\ e.a4 = <<>>) )>>,
        <<"DRIFT_EngineTouched", ~hijack /\ e.called = want /\ e.called # 99 /\
              ~( e.aHost = e.host /\ e.aPort = e.port /\ e.a4 = e.v4 /\ e.a6 = e.v6 /\ e.aHasRI = e.hasRI )>> >>

DriftClauses == {"DRIFT_EngineRewrite", "DRIFT_EngineTouched", "DRIFT_CompileRejected"}
\* drift reports must not use up the room of the violation set (Mon!V keeps 40 records)
Judge(viol, e, ln, cs) ==
  LET room == Cardinality({v \in viol : v.clause \in DriftClauses}) < 8 IN
  VAll(viol, e, ln, SelectSeq(cs, LAMBDA c : room \/ c[1] \notin DriftClauses))

MonStep(m, e, ln) ==
  CASE e.ev = "Reset"  -> [MonInit EXCEPT !.viol = m.viol]
    [] e.ev = "Rules"  -> [m EXCEPT !.rules = NormRules(e.rules), !.dflt = e.dflt]
    [] e.ev = "Match"  -> [m EXCEPT !.viol = Judge(m.viol, e, ln, MatchClauses(m, e))]
    [] e.ev = "Engine" -> [m EXCEPT !.viol = Judge(m.viol, e, ln, EngineClauses(m, e))]
    [] e.ev = "Panic"  -> [m EXCEPT !.viol = V(m.viol, e, ln, "Panic", TRUE)]
    \* a rule file of the documented grammar that this tree refuses to compile: no lookups to judge (scenario skipped)
    [] e.ev = "CompileFail" -> [m EXCEPT !.viol = Judge(m.viol, e, ln, << <<"DRIFT_CompileRejected", TRUE>> >>)]
    [] OTHER           -> m
===========================================================================
