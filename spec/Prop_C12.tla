----------------------------- MODULE Prop_C12 -----------------------------
(* C12 - BBR survives any QUIC-consistent event sequence with sane outputs. *)
(*                                                                          *)
(* Total monitor over the calls QUIC makes on a bbrSender (OnPacketSent,    *)
(* OnCongestionEventEx, SetMaxDatagramSize) with the sender's outputs read  *)
(* after every call, plus the operations of the packet-number indexed queue *)
(* it keeps its per-packet bookkeeping in.                                  *)
(*                                                                          *)
(* Env_Quic (legality of the stimulus) is part of the monitor: an event     *)
(* sequence QUIC cannot produce sets `envbad`, is reported as DRIFT_Env...  *)
(* and can never produce a verdict.                                         *)
(*                                                                          *)
(* VIOLATION clauses (the statement in properties.jsonl):                   *)
(*   Panic                                                                  *)
(*   CwndMin        GetCongestionWindow() >= 4 datagrams                    *)
(*   CwndMax        GetCongestionWindow() <= max window (20000 datagrams)   *)
(*   PacingFloor    bandwidthForPacer() >= 64 KB/s                          *)
(*   Bookkeeping    slots of the per-packet queue <= 2 x (packet numbers    *)
(*                  from the oldest packet in flight - or largest acked - 2 *)
(*                  if older - to the newest sent) + 16                     *)
(*   QSlots         (queue replay) slots used = last - first + 1 of the     *)
(*                  present entries: never more than the span it indexes    *)
(*   Throughput     loss-free fixed-capacity run: bytes delivered after the *)
(*                  warm-up >= 1/2 capacity x time (no deadlock, no         *)
(*                  settling far below capacity), per profile               *)
(*   NoDeadlock     loss-free fixed-capacity run: whenever the window allows *)
(*                  sending but HasPacingBudget(now) is false, the time      *)
(*                  TimeUntilSend() announces is in the future and there is  *)
(*                  budget for a full (current-size) datagram at that time - *)
(*                  otherwise QUIC's send loop re-enters at once with        *)
(*                  nothing changed (deadlock in virtual time, hot spin in   *)
(*                  real time).  On other paths the same condition is only   *)
(*                  DRIFT_PaceStall (the statement speaks of deadlock on the *)
(*                  loss-free fixed-capacity path).                          *)
(* DRIFT_* clauses: stimulus outside Env_Quic, or the queue's results differ*)
(* from the abstract queue of Sys_PNQueue.                                  *)
(*                                                                          *)
(* Units: time in microseconds since the start of the run, bytes as such    *)
(* (windows <= 20000 x 1500 fit 31 bits), pacing bandwidth capped at 2^30   *)
(* by the harness, delivered volume accumulated as (KB, remainder).         *)
EXTENDS Mon

\* a DRIFT clause is recorded once per run of the monitor: drift must never crowd real violations out of the
\* (capped) violation set
Once(m, c, bad) == bad /\ ~\E v \in m.viol : v.clause = c

RealCfg == [minPkts |-> 4, maxPkts |-> 20000, minBps |-> 65536, thresh |-> 3,
            slotMul |-> 2, slotAdd |-> 16]      \* "proportional": slots <= slotMul x span + slotAdd

DriftClauses == {"DRIFT_EnvTime", "DRIFT_EnvPn", "DRIFT_EnvInflight", "DRIFT_EnvAck", "DRIFT_EnvPrior",
                 "DRIFT_EnvThreshold", "DRIFT_EnvMDS", "DRIFT_EnvLossfree", "DRIFT_EnvSize",
                 "DRIFT_QResult", "DRIFT_QState", "DRIFT_PaceStall"}

MonStart(cfg, mds) ==
  [viol    |-> {},
   cfg     |-> cfg,
   mds     |-> mds,
   now     |-> 0,
   lastPn  |-> -1,
   out     |-> <<>>,          \* packets in flight, ascending: <<pn, bytes>>
   infl    |-> 0,             \* sum of their sizes
   largest |-> -1,            \* largest packet number acknowledged so far
   envbad  |-> FALSE,
   \* throughput accounting (loss-free fixed-capacity runs)
   measure |-> FALSE, capKBps |-> 0, warm |-> 0, dKB |-> 0, dRem |-> 0, sawLoss |-> FALSE,
   \* abstract packet-number indexed queue (queue replay): present entries pn -> value
   q       |-> <<>>,          \* ascending sequence of <<pn, value>>
   qLast   |-> -1]            \* last packet number emplaced since the queue was last empty

MonInit == MonStart(RealCfg, 1280)

SumB(s) == FoldLeft(LAMBDA a, x : a + x[2], 0, s)
Ascending(s) == \A i \in 1..(Len(s) - 1) : s[i][1] < s[i + 1][1]
Pns(s) == {s[i][1] : i \in 1..Len(s)}

\* ---------- outputs read after a call: cwnd, bw, slots ---------------------------
OutClauses(m, e, bad) ==
  \* the window of packet numbers the sender still has to know about: from the older of (oldest packet in
  \* flight, largest acknowledged - 2: what packet-threshold loss detection may still refer to) to the newest sent
  LET keep == IF m.largest < 0 THEN m.lastPn + 1 ELSE Max2(0, m.largest - (m.cfg.thresh - 1))
      base == IF m.out = <<>> THEN keep ELSE Min2(m.out[1][1], keep)
      span == m.lastPn - base + 1 IN
  << <<"CwndMin",     ~bad /\ e.cwnd < m.cfg.minPkts * m.mds>>,
     <<"CwndMax",     ~bad /\ e.cwnd > m.cfg.maxPkts * m.mds>>,
     <<"PacingFloor", ~bad /\ e.bw < m.cfg.minBps>>,
     <<"Bookkeeping", ~bad /\ e.slots > m.cfg.slotMul * span + m.cfg.slotAdd>> >>

\* ---------- OnPacketSent(t, infl, pn, bytes, retrans) ---------------------------
SentStep(m, e, ln) ==
  LET envT == e.t < m.now
      envP == e.pn <= m.lastPn
      envS == e.bytes <= 0 \/ e.bytes > 65535
      \* quic-go passes bytes in flight INCLUDING this packet when it is ack-eliciting
      envI == e.infl # m.infl + (IF e.retrans THEN e.bytes ELSE 0)
      bad  == m.envbad \/ envT \/ envP \/ envS \/ envI
      m1   == [m EXCEPT !.now = Max2(m.now, e.t), !.lastPn = Max2(m.lastPn, e.pn), !.envbad = bad,
                        !.out = IF e.retrans /\ ~envP THEN Append(m.out, <<e.pn, e.bytes>>) ELSE m.out,
                        !.infl = IF e.retrans /\ ~envP THEN m.infl + e.bytes ELSE m.infl]
  IN [m1 EXCEPT !.viol = VAll(m.viol, e, ln,
        << <<"DRIFT_EnvTime", Once(m, "DRIFT_EnvTime", envT)>>, <<"DRIFT_EnvPn", Once(m, "DRIFT_EnvPn", envP)>>, <<"DRIFT_EnvSize", Once(m, "DRIFT_EnvSize", envS)>>, <<"DRIFT_EnvInflight", Once(m, "DRIFT_EnvInflight", envI)>> >>
        \o OutClauses(m1, e, bad))]

\* ---------- OnCongestionEventEx(prior, t, acked, lost) -------------------------
CongStep(m, e, ln) ==
  LET outset == {m.out[i] : i \in 1..Len(m.out)}
      gone   == Pns(e.acked) \cup Pns(e.lost)
      envT   == e.t < m.now
      envA   == \/ Len(e.acked) + Len(e.lost) = 0
                \/ ~Ascending(e.acked) \/ ~Ascending(e.lost)
                \/ Pns(e.acked) \cap Pns(e.lost) # {}
                \/ \E i \in 1..Len(e.acked) : <<e.acked[i][1], e.acked[i][2]>> \notin outset
                \/ \E i \in 1..Len(e.lost)  : <<e.lost[i][1], e.lost[i][2]>> \notin outset
      envP   == e.prior # m.infl
      out2   == SelectSeq(m.out, LAMBDA x : x[1] \notin gone)
      lg     == IF Len(e.acked) > 0 THEN Max2(m.largest, e.acked[Len(e.acked)][1]) ELSE m.largest
      \* QUIC's packet-threshold loss detection: nothing older than largest_acked - 2 stays in flight
      envK   == ~envA /\ out2 # <<>> /\ out2[1][1] + m.cfg.thresh <= lg
      ackedB == SumB(e.acked)
      inwin  == m.measure /\ e.t >= m.warm
      tot    == m.dRem + ackedB
      bad    == m.envbad \/ envT \/ envA \/ envP \/ envK
      m1     == [m EXCEPT !.now = Max2(m.now, e.t), !.envbad = bad, !.largest = lg,
                          !.out = IF envA THEN m.out ELSE out2,
                          !.infl = IF envA THEN m.infl ELSE m.infl - ackedB - SumB(e.lost),
                          !.dKB = IF inwin THEN m.dKB + tot \div 1024 ELSE m.dKB,
                          !.dRem = IF inwin THEN tot % 1024 ELSE m.dRem,
                          !.sawLoss = m.sawLoss \/ Len(e.lost) > 0]
  IN [m1 EXCEPT !.viol = VAll(m.viol, e, ln,
        << <<"DRIFT_EnvTime", Once(m, "DRIFT_EnvTime", envT)>>, <<"DRIFT_EnvAck", Once(m, "DRIFT_EnvAck", envA)>>, <<"DRIFT_EnvPrior", Once(m, "DRIFT_EnvPrior", envP)>>, <<"DRIFT_EnvThreshold", Once(m, "DRIFT_EnvThreshold", envK)>> >>
        \o OutClauses(m1, e, bad))]

\* ---------- SetMaxDatagramSize(mds) -------------------------------------------
SetMDSStep(m, e, ln) ==
  LET envM == e.mds < m.mds
      bad  == m.envbad \/ envM
      m1   == [m EXCEPT !.mds = IF envM THEN m.mds ELSE e.mds, !.envbad = bad]
  IN [m1 EXCEPT !.viol = VAll(m.viol, e, ln, << <<"DRIFT_EnvMDS", Once(m, "DRIFT_EnvMDS", envM)>> >> \o OutClauses(m1, e, bad))]

\* ---------- the send loop is pacing-limited: CanSend, HasPacingBudget(now), TimeUntilSend() ----------
\* e: can, budget, dNs (announced time - now, clipped; <= 0: not in the future), okAt (HasPacingBudget at the announced time)
PaceStep(m, e, ln) ==
  LET stall == e.can /\ ~e.budget /\ (e.dNs <= 0 \/ ~e.okAt) IN
  [m EXCEPT !.viol = VAll(m.viol, e, ln,
     << <<"NoDeadlock", m.measure /\ ~m.envbad /\ stall>>,
        <<"DRIFT_PaceStall", Once(m, "DRIFT_PaceStall", ~m.measure /\ stall)>> >>)]

\* ---------- end of a simulated run ---------------------------------------------
RunEndStep(m, e, ln) ==
  LET durS == (e.t - m.warm) \div 1000000
      need == m.capKBps * durS            \* KB the path could carry in the measured window
  IN [m EXCEPT !.viol = VAll(m.viol, e, ln,
        << <<"Throughput", m.measure /\ ~m.envbad /\ ~m.sawLoss /\ durS >= 1 /\ 2 * m.dKB < need>>,
           <<"DRIFT_EnvLossfree", Once(m, "DRIFT_EnvLossfree", m.measure /\ m.sawLoss)>> >>)]

\* ---------- packet-number indexed queue (replayed TLC behaviours of Sys_PNQueue) ----
\* e: op ("emplace" | "remove" | "upto" | "get"), pn, val, ok, got, first, last, present, slots  (state after the call)
QAbs(q, qLast, e) ==      \* <<q', ok, got>> of the abstract queue
  CASE e.op = "emplace" -> IF e.pn < 0 \/ (q # <<>> /\ e.pn <= qLast) THEN <<q, FALSE, -1>>
                           ELSE <<Append(q, <<e.pn, e.val>>), TRUE, -1>>
    [] e.op = "remove"  -> IF e.pn \in Pns(q) THEN <<SelectSeq(q, LAMBDA x : x[1] # e.pn), TRUE, -1>> ELSE <<q, FALSE, -1>>
    [] e.op = "upto"    -> <<SelectSeq(q, LAMBDA x : x[1] >= e.pn), TRUE, -1>>
    [] OTHER            -> IF e.pn \in Pns(q) THEN <<q, TRUE, (CHOOSE x \in {q[i] : i \in 1..Len(q)} : x[1] = e.pn)[2]>>
                           ELSE <<q, FALSE, -1>>

QStep(m, e, ln) ==
  LET r     == QAbs(m.q, m.qLast, e)
      q2    == r[1]
      first == IF q2 = <<>> THEN -1 ELSE q2[1][1]
      \* "last packet ever inserted" survives the removal of tail entries (code: firstPacket + Len - 1)
      lastA == IF q2 = <<>> THEN -1 ELSE IF e.op = "emplace" /\ r[2] THEN e.pn ELSE m.qLast
      span  == IF q2 = <<>> THEN 0 ELSE lastA - first + 1
  IN [m EXCEPT !.q = q2, !.qLast = lastA,
        !.viol = VAll(m.viol, e, ln,
          << <<"QSlots", e.slots > span>>,
             <<"DRIFT_QResult", Once(m, "DRIFT_QResult", e.ok # r[2] \/ (e.op = "get" /\ e.got # r[3]))>>,
             <<"DRIFT_QState", Once(m, "DRIFT_QState", e.present # Len(q2) \/ e.first # first \/ e.last # lastA \/ e.slots # span)>> >>)]

MonStep(m, e, ln) ==
  CASE e.ev = "Reset"  -> [MonStart(RealCfg, e.mds) EXCEPT !.viol = m.viol, !.measure = e.measure,
                                                            !.capKBps = e.capKBps, !.warm = e.warm]
    [] e.ev = "Sent"   -> SentStep(m, e, ln)
    [] e.ev = "Cong"   -> CongStep(m, e, ln)
    [] e.ev = "SetMDS" -> SetMDSStep(m, e, ln)
    [] e.ev = "Pace"   -> PaceStep(m, e, ln)
    [] e.ev = "RunEnd" -> RunEndStep(m, e, ln)
    [] e.ev = "QOp"    -> QStep(m, e, ln)
    [] e.ev = "Panic"  -> [m EXCEPT !.viol = V(m.viol, e, ln, "Panic", TRUE)]
    [] OTHER           -> m
===========================================================================
