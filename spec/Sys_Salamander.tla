--------------------------- MODULE Sys_Salamander ---------------------------
(* Model of extras/obfs/conn.go (obfsPacketConn.ReadFrom / WriteTo with its  *)
(* two mutexes and the two shared buffers) over salamander.go (Obfuscate /   *)
(* Deobfuscate with the mutex-guarded shared key-input buffer).              *)
(* One action per critical section / memory access group; writers and        *)
(* readers are concurrent processes on ONE wrapped socket.  BLAKE2b-256 is   *)
(* the uninterpreted function KSf (any function of the salt will do: what    *)
(* matters is WHICH salt was in the key-input buffer when it was hashed).    *)
EXTENDS Prop_C13, TLC, Json

CONSTANTS NW, NR,        \* writer / reader goroutines
          MaxW,          \* packets written in total
          MaxI,          \* datagrams injected on the inner socket in total (valid and junk)
          MaxJ,          \* at most that many of them junk
          JunkLens,      \* lengths of junk datagrams (subset of 0..8)
          UseWMu, UseRMu, UseLk,   \* FALSE: the mutex is not taken (model mutants)
          DeobfInLock,   \* FALSE: readMutex released before Deobfuscate (model mutant)
          JunkRetry,     \* FALSE: a rejected datagram ends ReadFrom with n = 0 (model mutant)
          KeyOwned,      \* FALSE: the obfuscator keeps the caller's key slice instead of a copy (model mutant)
          UnlockOnRetry  \* FALSE: the retry branch re-enters the loop with readMutex still held (model mutant: self-deadlock)

VARIABLES pc, loc, wmu, rmu, lk, writeBuf, readBuf, keyInput, psk, inbox, nW, nI, nJ, done, mon, hist

vars == <<pc, loc, wmu, rmu, lk, writeBuf, readBuf, keyInput, psk, inbox, nW, nI, nJ, done, mon, hist>>

Writers == 1..NW
Readers == (NW + 1)..(NW + NR)
Procs   == Writers \cup Readers
MaxLen  == 2                                   \* payload bytes in the model

SaltSeq(s) == <<s, s, s, s, s, s, s, s>>
K0 == 1                                        \* the key the socket was wrapped with
KSk(k, s)  == [i \in 1..KeyLen |-> (k * 13 + s * 7 + i * 3) % 256]
KSf(s)     == KSk(K0, s)                        \* the oracle: BLAKE2b-256(key at wrap time || salt)
PayOf(id)  == IF id % 2 = 1 THEN <<id * 16 + 1>> ELSE <<id * 16 + 2, 200 + id>>
XorSeq(p, k) == [i \in 1..Len(p) |-> p[i] ^^ k[((i - 1) % KeyLen) + 1]]
At(s, i)   == IF i <= Len(s) THEN s[i] ELSE 0          \* stale buffer bytes read as 0

Free(mu, p) == mu = 0 \/ mu = p

WireEv(name, idf, id, wire, pay, extra) ==
  [ev |-> name, scn |-> 0, wlen |-> Len(wire), plen |-> Len(pay), wire |-> wire, pay |-> pay,
   wtail |-> <<>>, ptail |-> <<>>, toff |-> 0,
   ks |-> IF Len(wire) >= SaltLen THEN KSf(wire[1]) ELSE <<>>, pyOk |-> TRUE] @@ (idf :> id) @@ extra

\* ------------------------------------------------------------------ writer: conn.go:90-99, salamander.go:59-72
WStart(w) == /\ pc[w] = "idle" /\ nW < MaxW
             /\ nW' = nW + 1
             /\ loc' = [loc EXCEPT ![w] = [pid |-> nW + 1, pay |-> PayOf(nW + 1), key |-> <<>>, iid |-> 0, n |-> 0, out |-> <<>>]]
             /\ pc' = [pc EXCEPT ![w] = "wLock"]
             /\ hist' = Append(hist, <<"W", Len(PayOf(nW + 1))>>)
             /\ UNCHANGED <<psk, wmu, rmu, lk, writeBuf, readBuf, keyInput, inbox, nI, nJ, done, mon>>

WLock(w) == /\ pc[w] = "wLock"
            /\ IF UseWMu THEN wmu = 0 /\ wmu' = w ELSE UNCHANGED wmu
            /\ pc' = [pc EXCEPT ![w] = "oLock"]
            /\ UNCHANGED <<psk, loc, rmu, lk, writeBuf, readBuf, keyInput, inbox, nW, nI, nJ, done, mon, hist>>

\* o.lk.Lock(); RandSrc.Read(out[:8]); copy(keyInput[len(PSK):], salt)
OSalt(w) == /\ pc[w] = "oLock"
            /\ IF UseLk THEN lk = 0 /\ lk' = w ELSE UNCHANGED lk
            /\ LET s == 10 + loc[w].pid IN
                 /\ writeBuf' = [writeBuf EXCEPT !.salt = s]
                 /\ keyInput' = s
            /\ pc' = [pc EXCEPT ![w] = "oHash"]
            /\ UNCHANGED <<psk, loc, wmu, rmu, readBuf, inbox, nW, nI, nJ, done, mon, hist>>

\* key := blake2b.Sum256(keyInput); o.lk.Unlock()
OHash(w) == /\ pc[w] = "oHash"
            /\ loc' = [loc EXCEPT ![w].key = KSk(psk, keyInput)]
            /\ lk' = IF lk = w THEN 0 ELSE lk
            /\ pc' = [pc EXCEPT ![w] = "oXor"]
            /\ UNCHANGED <<psk, wmu, rmu, writeBuf, readBuf, keyInput, inbox, nW, nI, nJ, done, mon, hist>>

\* out[i+8] = in[i] ^ key[i%32]
OXor(w) == /\ pc[w] = "oXor"
           /\ LET x == XorSeq(loc[w].pay, loc[w].key) IN
                writeBuf' = [writeBuf EXCEPT !.body = [i \in 1..MaxLen |-> IF i <= Len(x) THEN x[i] ELSE @[i]]]
           /\ pc' = [pc EXCEPT ![w] = "wInner"]
           /\ UNCHANGED <<psk, loc, wmu, rmu, lk, readBuf, keyInput, inbox, nW, nI, nJ, done, mon, hist>>

\* c.Conn.WriteTo(c.writeBuf[:nn], addr): the inner socket sees the buffer as it is now
WInner(w) == /\ pc[w] = "wInner"
             /\ LET wire == SaltSeq(writeBuf.salt) \o SubSeq(writeBuf.body, 1, Len(loc[w].pay))
                    e == WireEv("WireOut", "pid", loc[w].pid, wire, loc[w].pay, [kind |-> "out"])
                IN mon' = MonStep(mon, e, 0)
             /\ pc' = [pc EXCEPT ![w] = "wUnlock"]
             /\ UNCHANGED <<psk, loc, wmu, rmu, lk, writeBuf, readBuf, keyInput, inbox, nW, nI, nJ, done, hist>>

WUnlock(w) == /\ pc[w] = "wUnlock"
              /\ wmu' = IF wmu = w THEN 0 ELSE wmu
              /\ mon' = MonStep(mon, [ev |-> "WriteRet", scn |-> 0, pid |-> loc[w].pid, plen |-> Len(loc[w].pay),
                                      n |-> Len(loc[w].pay), errNil |-> TRUE], 0)
              /\ pc' = [pc EXCEPT ![w] = "idle"]
              /\ UNCHANGED <<psk, loc, rmu, lk, writeBuf, readBuf, keyInput, inbox, nW, nI, nJ, done, hist>>

\* ------------------------------------------------------------------ reader: conn.go:73-88, salamander.go:74-86
RStart(r) == /\ pc[r] = "idle" /\ ~done
             /\ pc' = [pc EXCEPT ![r] = "rLock"]
             /\ hist' = Append(hist, <<"R", 0>>)
             /\ UNCHANGED <<psk, loc, wmu, rmu, lk, writeBuf, readBuf, keyInput, inbox, nW, nI, nJ, done, mon>>

RLock(r) == /\ pc[r] = "rLock"
            /\ IF UseRMu THEN rmu = 0 /\ rmu' = r ELSE UNCHANGED rmu
            /\ pc' = [pc EXCEPT ![r] = "rInner"]
            /\ UNCHANGED <<psk, loc, wmu, lk, writeBuf, readBuf, keyInput, inbox, nW, nI, nJ, done, mon, hist>>

ReadRetEv(r, n, out) == [ev |-> "ReadRet", scn |-> 0, iid |-> loc[r].iid, n |-> n, errNil |-> TRUE,
                         olen |-> Len(out), out |-> out, otail |-> <<>>, pyEq |-> TRUE]

\* n, addr, err = c.Conn.ReadFrom(c.readBuf)   (blocks while the inbox is empty)
RInner(r) == /\ pc[r] = "rInner" /\ inbox # <<>>
             /\ LET d == Head(inbox) IN
                  /\ inbox' = Tail(inbox)
                  /\ readBuf' = d.wire
                  /\ IF Len(d.wire) = 0
                     THEN /\ mon' = MonStep(mon, [ReadRetEv(r, 0, <<>>) EXCEPT !.iid = d.iid], 0)
                          /\ rmu' = IF rmu = r THEN 0 ELSE rmu
                          /\ pc' = [pc EXCEPT ![r] = "idle"]
                          /\ loc' = [loc EXCEPT ![r].iid = d.iid, ![r].n = 0]
                     ELSE /\ loc' = [loc EXCEPT ![r].iid = d.iid, ![r].n = Len(d.wire)]
                          /\ rmu' = IF ~DeobfInLock /\ rmu = r THEN 0 ELSE rmu
                          /\ pc' = [pc EXCEPT ![r] = "dCheck"]
                          /\ UNCHANGED mon
             /\ UNCHANGED <<psk, wmu, lk, writeBuf, keyInput, nW, nI, nJ, done, hist>>

\* Deobfuscate: outLen <= 0 -> 0 (and the loop retries); else o.lk.Lock(); copy salt into keyInput
DCheck(r) == /\ pc[r] = "dCheck"
             /\ IF loc[r].n - SaltLen <= 0
                THEN /\ rmu' = IF rmu = r /\ (UnlockOnRetry \/ ~JunkRetry) THEN 0 ELSE rmu
                     /\ IF JunkRetry
                        THEN pc' = [pc EXCEPT ![r] = "rLock"] /\ UNCHANGED mon
                        ELSE pc' = [pc EXCEPT ![r] = "idle"] /\ mon' = MonStep(mon, ReadRetEv(r, 0, <<>>), 0)
                     /\ UNCHANGED <<lk, keyInput>>
                ELSE /\ IF UseLk THEN lk = 0 /\ lk' = r ELSE UNCHANGED lk
                     /\ keyInput' = At(readBuf, 1)
                     /\ pc' = [pc EXCEPT ![r] = "dHash"]
                     /\ UNCHANGED <<rmu, mon>>
             /\ UNCHANGED <<psk, loc, wmu, writeBuf, readBuf, inbox, nW, nI, nJ, done, hist>>

DHash(r) == /\ pc[r] = "dHash"
            /\ loc' = [loc EXCEPT ![r].key = KSk(psk, keyInput)]
            /\ lk' = IF lk = r THEN 0 ELSE lk
            /\ pc' = [pc EXCEPT ![r] = "dXor"]
            /\ UNCHANGED <<psk, wmu, rmu, writeBuf, readBuf, keyInput, inbox, nW, nI, nJ, done, mon, hist>>

\* out[i] = in[8+i] ^ key[i%32]  over c.readBuf[:n] as it is now
DXor(r) == /\ pc[r] = "dXor"
           /\ LET ol == loc[r].n - SaltLen
                  body == [i \in 1..ol |-> At(readBuf, SaltLen + i)]
              IN loc' = [loc EXCEPT ![r].out = XorSeq(body, loc[r].key)]
           /\ pc' = [pc EXCEPT ![r] = "rUnlock"]
           /\ UNCHANGED <<psk, wmu, rmu, lk, writeBuf, readBuf, keyInput, inbox, nW, nI, nJ, done, mon, hist>>

RUnlock(r) == /\ pc[r] = "rUnlock"
              /\ rmu' = IF rmu = r THEN 0 ELSE rmu
              /\ mon' = MonStep(mon, ReadRetEv(r, Len(loc[r].out), loc[r].out), 0)
              /\ pc' = [pc EXCEPT ![r] = "idle"]
              /\ UNCHANGED <<psk, loc, wmu, lk, writeBuf, readBuf, keyInput, inbox, nW, nI, nJ, done, hist>>

\* ------------------------------------------------------------------ environment: the inner socket's peer
InjectValid == /\ nI < MaxI
               /\ LET iid == nI + 1
                      pay == PayOf(iid + 4)
                      s   == 100 + iid
                      wire == SaltSeq(s) \o XorSeq(pay, KSf(s))
                  IN /\ inbox' = Append(inbox, [iid |-> iid, wire |-> wire])
                     /\ mon' = MonStep(mon, WireEv("Inject", "iid", iid, wire, pay, [kind |-> "valid"]), 0)
                     /\ hist' = Append(hist, <<"I", Len(pay)>>)
               /\ nI' = nI + 1
               /\ UNCHANGED <<psk, pc, loc, wmu, rmu, lk, writeBuf, readBuf, keyInput, nW, nJ, done>>

InjectJunk == /\ nI < MaxI /\ nJ < MaxJ
              /\ \E jl \in JunkLens :
                   LET iid == nI + 1
                       wire == [i \in 1..jl |-> 40 + i]
                   IN /\ inbox' = Append(inbox, [iid |-> iid, wire |-> wire])
                      /\ mon' = MonStep(mon, WireEv("Inject", "iid", iid, wire, <<>>, [kind |-> "junk"]), 0)
                      /\ hist' = Append(hist, <<"J", jl>>)
              /\ nI' = nI + 1 /\ nJ' = nJ + 1
              /\ UNCHANGED <<psk, pc, loc, wmu, rmu, lk, writeBuf, readBuf, keyInput, nW, done>>

\* everything written and injected, every datagram consumed, nobody in the middle of a call
Finish == /\ ~done /\ nW = MaxW /\ nI = MaxI /\ inbox = <<>>
          /\ \A w \in Writers : pc[w] = "idle"
          /\ \A r \in Readers : pc[r] \in {"idle", "rLock", "rInner"}
          /\ done' = TRUE
          /\ mon' = MonStep(mon, [ev |-> "End", scn |-> 0], 0)
          /\ UNCHANGED <<psk, pc, loc, wmu, rmu, lk, writeBuf, readBuf, keyInput, inbox, nW, nI, nJ, hist>>

\* the caller reuses the buffer its key came from; a socket that kept the slice instead of a copy now has another key
CallerReuses == /\ ~KeyOwned /\ ~done /\ psk = K0
                /\ psk' = 2
                /\ UNCHANGED <<pc, loc, wmu, rmu, lk, writeBuf, readBuf, keyInput, inbox, nW, nI, nJ, done, mon, hist>>

\* the readers are stuck for good: one of them waits for the mutex it holds itself (Go mutexes are not reentrant)
Stall == /\ ~done /\ nW = MaxW /\ nI = MaxI
         /\ \A w \in Writers : pc[w] = "idle"
         /\ \E r \in Readers : pc[r] = "rLock" /\ rmu = r
         /\ done' = TRUE
         /\ mon' = MonStep(mon, [ev |-> "ReadStalled", scn |-> 0], 0)
         /\ UNCHANGED <<psk, pc, loc, wmu, rmu, lk, writeBuf, readBuf, keyInput, inbox, nW, nI, nJ, hist>>

Init == /\ pc = [p \in Procs |-> "idle"]
        /\ loc = [p \in Procs |-> [pid |-> 0, pay |-> <<>>, key |-> <<>>, iid |-> 0, n |-> 0, out |-> <<>>]]
        /\ wmu = 0 /\ rmu = 0 /\ lk = 0
        /\ writeBuf = [salt |-> 0, body |-> [i \in 1..MaxLen |-> 0]]
        /\ readBuf = <<>> /\ keyInput = 0 /\ psk = K0 /\ inbox = <<>>
        /\ nW = 0 /\ nI = 0 /\ nJ = 0 /\ done = FALSE
        /\ mon = MonInit /\ hist = <<>>

Next == \/ \E w \in Writers : WStart(w) \/ WLock(w) \/ OSalt(w) \/ OHash(w) \/ OXor(w) \/ WInner(w) \/ WUnlock(w)
        \/ \E r \in Readers : RStart(r) \/ RLock(r) \/ RInner(r) \/ DCheck(r) \/ DHash(r) \/ DXor(r) \/ RUnlock(r)
        \/ (~done /\ (InjectValid \/ InjectJunk))
        \/ Finish \/ Stall \/ CallerReuses

Spec == Init /\ [][Next]_vars

NoViolation == mon.viol = {}
\* mutual exclusion of the three critical sections, as a sanity invariant of the unmutated model
MutexOk == /\ Cardinality({w \in Writers : pc[w] \in {"oLock", "oHash", "oXor", "wInner", "wUnlock"}}) <= 1
           /\ Cardinality({r \in Readers : pc[r] \in {"rInner", "dCheck", "dHash", "dXor", "rUnlock"}}) <= 1
           /\ Cardinality({p \in Procs : pc[p] \in {"oHash", "dHash"}}) <= 1
PrintScn == done => PrintT(<<"SCN", ToJson([steps |-> hist])>>)
View == <<pc, loc, wmu, rmu, lk, writeBuf, readBuf, keyInput, psk, inbox, nW, nI, nJ, done, mon>>
=============================================================================
