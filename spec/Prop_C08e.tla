----------------------------- MODULE Prop_C08e -----------------------------
(* C08 end to end: real client -> real server whose Outbound is the real ACL *)
(* engine (behind the system resolver and the pluggable-outbound adapter)   *)
(* with a recording "direct" outbound.  The policy is judged by a predicate *)
(* the harness evaluates independently of the ACL code (CIDR, suffix, port).*)
(*  Sent(dst, tag, allowed)        client sent datagram tag to destination  *)
(*  Delivered(dst, tag)            the direct outbound's socket wrote it    *)
(*  Dialed(dst)                    the direct outbound was asked for a      *)
(*                                 socket for a session starting with dst   *)
EXTENDS Mon
Put(f, k, v) == [x \in (DOMAIN f) \cup {k} |-> IF x = k THEN v ELSE f[x]]
MonInit == [viol |-> {}, sent |-> <<>>, okdst |-> <<>>]     \* tag -> dst ; dst -> allowed
MonStep(m, e, ln) ==
  CASE e.ev = "Reset" -> [MonInit EXCEPT !.viol = m.viol]
    [] e.ev = "Sent" -> [m EXCEPT !.sent = Put(@, e.tag, e.dst), !.okdst = Put(@, e.dst, e.allowed)]
    [] e.ev = "Delivered" ->
         [m EXCEPT !.viol = VAll(m.viol, e, ln,
            << <<"Policy_DeniedDestination", e.dst \in DOMAIN m.okdst /\ ~m.okdst[e.dst]>>,
               <<"Policy_WrongDestination",  e.tag \notin DOMAIN m.sent \/ (e.tag \in DOMAIN m.sent /\ m.sent[e.tag] # e.dst)>> >>)]
    [] e.ev = "Dialed" ->
         [m EXCEPT !.viol = VAll(m.viol, e, ln, << <<"Policy_DeniedDestination", e.dst \in DOMAIN m.okdst /\ ~m.okdst[e.dst]>> >>)]
    [] e.ev = "Panic" -> [m EXCEPT !.viol = V(m.viol, e, ln, "Panic", TRUE)]
    [] OTHER -> m
=============================================================================
