SPECIFICATION Spec
CONSTANTS NU = 2  NG = 1  NC = 0  MaxOps = 10  Spurious = TRUE
  Amts <- A2  Ops <- OpsAll  KickSets <- KS
  ClearAtomic = TRUE  LogAtomic = TRUE  KickConsume = TRUE  OfflineOnVeto = TRUE  CloseOnLateVeto = TRUE  AuthAtomic = TRUE  OnlineFloor = TRUE
INVARIANT PrintScn
CHECK_DEADLOCK FALSE
