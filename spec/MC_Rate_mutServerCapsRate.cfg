SPECIFICATION Spec
CONSTANTS MaxRank = 4  ServerCapsRate = FALSE  ClientHonoursAuto = TRUE  ClientZeroIsCC = TRUE  ReportInstalled = TRUE
INVARIANT NoViolation
CHECK_DEADLOCK FALSE
