SPECIFICATION Spec
CONSTANTS NRules = 2  K = 2  MaxQ = 3
  MutKeyNoPort = FALSE  MutKeyNoProto = FALSE  MutKeyNoV6 = FALSE  MutSuffixNoDot = FALSE  MutPortHi = TRUE
  RulePool <- PoolQ  QueryPool <- QueriesQ
INVARIANT NoViolation
VIEW View
CHECK_DEADLOCK FALSE
