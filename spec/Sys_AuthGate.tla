---------------------------- MODULE Sys_AuthGate ----------------------------
(* Model of core/server/server.go: one h3sHandler per accepted QUIC          *)
(* connection; ServeHTTP's authMutex section as one action (AuthLocked);     *)
(* the stream dispatcher's unlocked read of the flag (Hijack) followed by    *)
(* handleTCPRequest (HandleTCP); the two `go` statements that create and run *)
(* the UDP session manager (SpawnSM, RunSM); datagrams queue inside QUIC and *)
(* are consumed only by a running manager (SMRecv).  Clients issue operations*)
(* without waiting for earlier ones (requests and streams are concurrent).   *)
EXTENDS Integers, Sequences, FiniteSets, TLC, Json

C01 == INSTANCE Prop_C01
C02 == INSTANCE Prop_C02

CONSTANTS Conns, MaxOps, DisableUDP,
          \* guard switches (TRUE = the code as written)
          FlagPerConn, FlagNeedsVerdict, HijackChecksFlag, SMOnlyOnOk, MasqOnReject, GenHist

VARIABLES authed,      \* [Conns -> BOOLEAN]  (with ~FlagPerConn: all connections share authed[CHOOSE c])
          sm,          \* [Conns -> {"none","spawned","running"}]
          dgq,         \* [Conns -> Seq(op)]   datagrams waiting in QUIC's receive queue
          pend,        \* set of in-flight operations [conn, op, kind, stage]
          nops,        \* [Conns -> Nat]
          mon1, mon2, hist

vars == <<authed, sm, dgq, pend, nops, mon1, mon2, hist>>

Kinds == {"authGood", "authBad", "nearMiss", "other", "stream", "dgram"}
Shared == CHOOSE c \in Conns : TRUE
Flag(c) == IF FlagPerConn THEN authed[c] ELSE authed[Shared]
SetFlag(c) == IF FlagPerConn THEN [authed EXCEPT ![c] = TRUE] ELSE [authed EXCEPT ![Shared] = TRUE]

Feed(es) == LET RECURSIVE R1(_, _) R1(m, s) == IF s = <<>> THEN m ELSE R1(C01!MonStep(m, Head(s), 0), Tail(s))
                RECURSIVE R2(_, _) R2(m, s) == IF s = <<>> THEN m ELSE R2(C02!MonStep(m, Head(s), 0), Tail(s))
            IN mon1' = R1(mon1, es) /\ mon2' = R2(mon2, es)
H(x) == hist' = IF GenHist THEN Append(hist, x) ELSE hist

Req(kind) == CASE kind = "authGood" -> [method |-> "POST", host |-> "hysteria", path |-> "/auth", credok |-> TRUE]
               [] kind = "authBad"  -> [method |-> "POST", host |-> "hysteria", path |-> "/auth", credok |-> FALSE]
               [] kind = "nearMiss" -> [method |-> "GET",  host |-> "hysteria", path |-> "/auth", credok |-> TRUE]
               [] OTHER             -> [method |-> "GET",  host |-> "example.com", path |-> "/", credok |-> FALSE]

\* ---- client side (environment): issue the next operation on connection c
Issue(c, kind) ==
  /\ nops[c] < MaxOps
  /\ (kind = "dgram" => ~DisableUDP)
  /\ nops' = [nops EXCEPT ![c] = @ + 1]
  /\ LET op == nops[c] + 1 IN
       /\ IF kind = "dgram"
          THEN /\ dgq' = [dgq EXCEPT ![c] = Append(@, op)]
               /\ UNCHANGED pend
               /\ Feed(<< [ev |-> "DgramSent", scn |-> 0, conn |-> c, op |-> op] >>)
          ELSE /\ pend' = pend \cup {[conn |-> c, op |-> op, kind |-> kind, stage |-> "new"]}
               /\ UNCHANGED dgq
               /\ IF kind = "stream" THEN Feed(<< [ev |-> "StreamSent", scn |-> 0, conn |-> c, op |-> op] >>)
                  ELSE UNCHANGED <<mon1, mon2>>
       /\ H([conn |-> c, kind |-> kind])
  /\ UNCHANGED <<authed, sm>>

\* ---- ServeHTTP
HTTPRespEv(p, status, hy, same) ==
  [ev |-> "HTTPResp", scn |-> 0, conn |-> p.conn, op |-> p.op, status |-> status, hyHdr |-> hy, same |-> same] @@ Req(p.kind)
RespEv(p, status) == [ev |-> "Resp", scn |-> 0, conn |-> p.conn, op |-> p.op, status |-> status]

Masq(p) ==                                   \* not an auth request: delegated to the masquerade handler
  /\ p \in pend /\ p.stage = "new" /\ p.kind \in {"nearMiss", "other"}
  /\ pend' = pend \ {p}
  /\ Feed(<< RespEv(p, 404), HTTPRespEv(p, 404, FALSE, TRUE) >>)
  /\ UNCHANGED <<authed, sm, dgq, nops, hist>>

AuthLocked(p) ==                             \* the whole authMutex critical section
  /\ p \in pend /\ p.stage = "new" /\ p.kind \in {"authGood", "authBad"}
  /\ pend' = pend \ {p}
  /\ LET c == p.conn
         ok == p.kind = "authGood"
     IN IF Flag(c)
        THEN /\ Feed(<< RespEv(p, 233), HTTPRespEv(p, 233, TRUE, FALSE) >>)      \* already authenticated: no re-evaluation
             /\ UNCHANGED <<authed, sm>>
        ELSE /\ authed' = IF ok \/ ~FlagNeedsVerdict THEN SetFlag(c) ELSE authed
             /\ sm' = IF (ok \/ ~SMOnlyOnOk) /\ ~DisableUDP /\ sm[c] = "none" THEN [sm EXCEPT ![c] = "spawned"] ELSE sm
             /\ IF ok
                THEN Feed(<< [ev |-> "AuthCall", scn |-> 0, conn |-> c, ok |-> TRUE], RespEv(p, 233), HTTPRespEv(p, 233, TRUE, FALSE) >>)
                ELSE IF MasqOnReject
                THEN Feed(<< [ev |-> "AuthCall", scn |-> 0, conn |-> c, ok |-> FALSE], RespEv(p, 404), HTTPRespEv(p, 404, FALSE, TRUE) >>)
                ELSE Feed(<< [ev |-> "AuthCall", scn |-> 0, conn |-> c, ok |-> FALSE], RespEv(p, 403), HTTPRespEv(p, 403, FALSE, FALSE) >>)
  /\ UNCHANGED <<dgq, nops, hist>>

\* ---- proxy streams
Hijack(p) ==                                 \* unlocked read of the flag
  /\ p \in pend /\ p.stage = "new" /\ p.kind = "stream"
  /\ IF Flag(p.conn) \/ ~HijackChecksFlag
     THEN /\ pend' = (pend \ {p}) \cup {[p EXCEPT !.stage = "hijacked"]}
          /\ UNCHANGED <<mon1, mon2>>
     ELSE /\ pend' = pend \ {p}
          /\ Feed(<< [ev |-> "StreamOutcome", scn |-> 0, conn |-> p.conn, op |-> p.op, proxied |-> FALSE, cls |-> "silent", oracle |-> "silent"] >>)
  /\ UNCHANGED <<authed, sm, dgq, nops, hist>>

HandleTCP(p) ==                              \* ReadTCPRequest, dial the target
  /\ p \in pend /\ p.stage = "hijacked"
  /\ pend' = pend \ {p}
  /\ Feed(<< [ev |-> "OutTCP", scn |-> 0, conn |-> p.conn, op |-> p.op],
            [ev |-> "StreamOutcome", scn |-> 0, conn |-> p.conn, op |-> p.op, proxied |-> TRUE, cls |-> "bytes", oracle |-> "silent"] >>)
  /\ UNCHANGED <<authed, sm, dgq, nops, hist>>

\* ---- UDP session manager
RunSM(c) ==
  /\ sm[c] = "spawned"
  /\ sm' = [sm EXCEPT ![c] = "running"]
  /\ UNCHANGED <<authed, dgq, pend, nops, mon1, mon2, hist>>

SMRecv(c) ==
  /\ sm[c] = "running" /\ dgq[c] # <<>>
  /\ dgq' = [dgq EXCEPT ![c] = Tail(@)]
  \* the target answers, and the answer travels back to the peer as a Hysteria UDP datagram
  /\ Feed(<< [ev |-> "OutUDP", scn |-> 0, conn |-> c, op |-> Head(dgq[c])],
            [ev |-> "DgramRecv", scn |-> 0, conn |-> c, n |-> 1] >>)
  /\ UNCHANGED <<authed, sm, pend, nops, hist>>

Init == /\ authed = [c \in Conns |-> FALSE] /\ sm = [c \in Conns |-> "none"]
        /\ dgq = [c \in Conns |-> <<>>] /\ pend = {} /\ nops = [c \in Conns |-> 0]
        /\ mon1 = C01!MonInit /\ mon2 = C02!MonInit /\ hist = <<>>

Next == \/ \E c \in Conns, k \in Kinds : Issue(c, k)
        \/ \E p \in pend : Masq(p) \/ AuthLocked(p) \/ Hijack(p) \/ HandleTCP(p)
        \/ \E c \in Conns : RunSM(c) \/ SMRecv(c)

Spec == Init /\ [][Next]_vars

NoViolation1 == mon1.viol = {}
NoViolation2 == mon2.viol = {}
\* the flag is never cleared, and is only ever set together with an accepted AuthCall
NoRevokeFlag == [][\A c \in Conns : authed[c] => authed'[c]]_vars
FlagImpliesAccepted == \A c \in Conns : authed[c] => c \in mon1.accepted
SMImpliesAccepted == \A c \in Conns : sm[c] # "none" => c \in mon1.accepted

Done == \A c \in Conns : nops[c] = MaxOps
PrintScn == (Done /\ pend = {}) => PrintT(<<"SCN", ToJson(hist)>>)
=============================================================================
