---- MODULE MC_UDPSessions ----
EXTENDS Sys_UDPSessions
HookId == [d \in Dsts |-> d]
HookRw == [d \in Dsts |-> IF d = 1 THEN 3 ELSE d]
====
