------------------------------ MODULE Sys_Frag ------------------------------
(* Model of core/internal/frag/frag.go (FragUDPMessage + Defragger) and of   *)
(* the lossy, duplicating, reordering datagram path between them.            *)
(* Implementation-shaped: Defragger state is (pktID, slots, count, size) and *)
(* Feed is transcribed branch by branch from frag.go:47-80.                  *)
EXTENDS Prop_C05, TLC, Json

CONSTANTS NMsg,        \* number of messages in flight (distinct packet IDs 1..NMsg)
          MaxCnt,      \* fragments per message 1..MaxCnt
          MaxDeliv,    \* deliveries (incl. duplicates and bogus fragments)
          GridD, GridH, GridL,   \* arithmetic grid: data lengths, header sizes, limits
          DupCheck,    \* FALSE: a duplicate fragment is counted again (mutant for non-vacuity)
          FreshPktID,  \* TRUE: every message carries its own packet ID (FALSE: the sender reuses one - mutant)
          FixCount     \* TRUE: count > 255 => discard (the property); FALSE: uint8 wrap (pre-fix code)

VARIABLES cnt,         \* cnt[m] fragment count of message m
          dPkt, dSlots, dCount,   \* Defragger (size is implied: every fragment has length 1 here)
          nDeliv, gridDone, mon, hist

vars == <<cnt, dPkt, dSlots, dCount, nDeliv, gridDone, mon, hist>>

Msgs == 1..NMsg
PktOf(m) == IF FreshPktID THEN m ELSE 1

\* ---------------- fragmenter (frag.go:7-34) ------------------------------
\* returns the sequence of data lengths, <<>> for nil
FragLens(dlen, hdr, limit) ==
  IF hdr + dlen <= limit THEN <<dlen>>
  ELSE LET budget == limit - hdr IN
       IF budget <= 0 THEN <<>>
       ELSE LET full == CeilDiv(dlen, budget)
                n    == IF FixCount THEN (IF full > 255 THEN 0 ELSE full) ELSE full % 256
            IN IF n = 0 THEN <<>>
               ELSE IF n # full THEN [i \in 1..n |-> budget]   \* wrapped count: the real code panics here;
                                                                \* modelled as "sends n full fragments" (corrupt)
               ELSE [i \in 1..n |-> IF i < n THEN budget ELSE dlen - (n-1)*budget]

FragEvent(dlen, hdr, limit) ==
  LET ls == FragLens(dlen, hdr, limit) IN
  [ev |-> "FragCall", scn |-> 0, dlen |-> dlen, hdr |-> hdr, limit |-> limit,
   n |-> Len(ls), dlens |-> ls, sizes |-> [i \in 1..Len(ls) |-> hdr + ls[i]],
   hdrSame |-> TRUE, concatOk |-> SeqSum(ls) = dlen]

\* every grid point is one (stuttering unless it violates) step from the initial states
Grid == /\ nDeliv = 0
        /\ \E d \in GridD, h \in GridH, l \in GridL : mon' = MonStep(mon, FragEvent(d, h, l), 0)
        /\ gridDone' = TRUE
        /\ UNCHANGED <<cnt, dPkt, dSlots, dCount, nDeliv, hist>>

\* ---------------- reassembler (frag.go:47-80) -----------------------------
\* a fragment on the wire: [msg, pkt, fid, cnt]; slots: fid -> msg tag or 0
FeedResult(f) ==   \* <<emitted, pieces, dPkt', dSlots', dCount'>>
  IF f.cnt <= 1 THEN <<TRUE, << <<f.msg, 0>> >>, dPkt, dSlots, dCount>>
  ELSE IF f.fid >= f.cnt THEN <<FALSE, <<>>, dPkt, dSlots, dCount>>
  ELSE IF f.pkt # dPkt \/ f.cnt # Len(dSlots) THEN
       <<FALSE, <<>>, f.pkt,
         [i \in 1..f.cnt |-> IF i = f.fid + 1 THEN <<f.msg, f.fid>> ELSE <<0, 0>>], 1>>
  ELSE IF dSlots[f.fid + 1] = <<0, 0>> \/ ~DupCheck THEN
       LET s2 == [dSlots EXCEPT ![f.fid + 1] = <<f.msg, f.fid>>] IN
       IF dCount + 1 = Len(dSlots) THEN <<TRUE, s2, dPkt, s2, dCount + 1>>
       ELSE <<FALSE, <<>>, dPkt, s2, dCount + 1>>
  ELSE <<FALSE, <<>>, dPkt, dSlots, dCount>>

Deliver(m, fid, c) ==
  /\ nDeliv < MaxDeliv
  /\ LET f == [msg |-> m, pkt |-> PktOf(m), fid |-> fid, cnt |-> c]
         r == FeedResult(f)
         e == [ev |-> "Feed", scn |-> 0, msg |-> m, pkt |-> PktOf(m), fid |-> fid, cnt |-> c,
               emitted |-> r[1], pieces |-> r[2], hdrOk |-> TRUE]
     IN /\ dPkt' = r[3] /\ dSlots' = r[4] /\ dCount' = r[5]
        /\ mon' = MonStep(mon, e, 0)
        /\ hist' = Append(hist, <<m, fid, c>>)
  /\ nDeliv' = nDeliv + 1
  /\ UNCHANGED <<cnt, gridDone>>

Init == /\ cnt \in [Msgs -> 1..MaxCnt]
        /\ dPkt = 0 /\ dSlots = <<>> /\ dCount = 0
        /\ nDeliv = 0 /\ gridDone = FALSE /\ hist = <<>>
        /\ mon = [MonInit EXCEPT !.msgs = [m \in Msgs |-> [pkt |-> PktOf(m), cnt |-> cnt[m]]]]

Next == \/ Grid
        \/ \E m \in Msgs : \E fid \in 0..(IF cnt[m] > 1 THEN cnt[m] ELSE 0) : Deliver(m, fid, cnt[m])   \* fid = cnt[m] is the bogus index

Spec == Init /\ [][Next]_vars

NoViolation == mon.viol = {}
\* scenario printer for the generator configuration (always TRUE)
PrintScn == (nDeliv = MaxDeliv) => PrintT(<<"SCN", ToJson([cnt |-> cnt, steps |-> hist])>>)
View == <<cnt, dPkt, dSlots, dCount, nDeliv, gridDone, mon>>
=============================================================================
