SPECIFICATION Spec
CONSTANTS Mds0 = 2  MdsUp <- MdsUp3  MinPkts = 4  InitPkts = 5  MaxPkts = 6  MinBps = 2  SlotAdd = 0
  PrSet <- PrQ  SmallOn = TRUE  MaxPn = 6  MaxEv = 13
  ClampOn = TRUE  RecFloorOn = TRUE  MinBpsOn = TRUE  PruneOn = TRUE  MdsClampOn = TRUE  PacerMdsOn = TRUE
INVARIANT PrintScn

CHECK_DEADLOCK FALSE
