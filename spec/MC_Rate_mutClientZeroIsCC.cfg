SPECIFICATION Spec
CONSTANTS MaxRank = 4  ServerCapsRate = TRUE  ClientHonoursAuto = TRUE  ClientZeroIsCC = FALSE  ReportInstalled = TRUE
INVARIANT NoViolation
CHECK_DEADLOCK FALSE
