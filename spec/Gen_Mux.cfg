SPECIFICATION Spec
CONSTANTS NConn = 3  MaxListen = 4  MaxClose = 3  MaxReads = 3  Fixed = TRUE  ZeroFirst = TRUE  RouteByByte = TRUE
INVARIANT PrintScn

CHECK_DEADLOCK FALSE
