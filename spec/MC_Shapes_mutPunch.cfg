SPECIFICATION Spec
CONSTANTS FixUnprotect = TRUE  FixFragCount = TRUE  GeckoPadCheck = TRUE  TcpAddrCheck = TRUE
  UDPLenCheck = TRUE  PunchMin = 32  FeedIdxCheck = TRUE  Mode = "shapes"  Only = "punch"  MaxSteps = 4
INVARIANT NoViolation
VIEW View
CHECK_DEADLOCK FALSE
