------------------------------ MODULE Sys_ACL ------------------------------
(* Model of extras/outbounds/acl: compiledRuleSetImpl.Match (compile.go:    *)
(* 82-109) with its LRU decision cache, compiledRule.Match (62-70) and the   *)
(* matchers of matchers.go, transcribed: deepMatchRune as the recursive      *)
(* back-tracking matcher, suffix as HasSuffix("." + pattern), CIDR as a mask *)
(* comparison, the cache as an ordered list (front = most recently used,     *)
(* hashicorp simplelru: Get moves to front, Add evicts the oldest).          *)
(* The monitor (Prop_C09) has its own, differently formulated semantics.     *)
EXTENDS Prop_C09, TLC, Json

CONSTANTS RulePool,      \* sequence of rule records the rule lists are drawn from
          QueryPool,     \* set of query records
          NRules,        \* rule lists have 1..NRules rules (file order = sequence order)
          K,             \* cache capacity
          MaxQ,          \* number of lookups
          MutKeyNoPort, MutKeyNoProto, MutKeyNoV6, MutSuffixNoDot, MutPortHi   \* model mutants

VARIABLES rules, cache, nq, mon, hist
vars == <<rules, cache, nq, mon, hist>>

\* ---------------- matchers (code-shaped) ------------------------------------
RECURSIVE Deep(_, _)
Deep(str, pat) ==      \* deepMatchRune
  IF pat = <<>> THEN str = <<>>
  ELSE IF pat[1] = 42 THEN Deep(str, Tail(pat)) \/ (str # <<>> /\ Deep(Tail(str), pat))
  ELSE str # <<>> /\ str[1] = pat[1] /\ Deep(Tail(str), Tail(pat))

HasSuffix(s, x) == Len(s) >= Len(x) /\ SubSeq(s, Len(s) - Len(x) + 1, Len(s)) = x

\* net.IPNet.Contains: (ip & mask) = network, octet by octet
MaskOctet(bits, i) == LET r == bits - (i - 1) * 8 IN IF r >= 8 THEN 255 ELSE IF r <= 0 THEN 0 ELSE 256 - Pow2(8 - r)
AndMask(a, mb) == a - (a % (256 - mb))       \* a & mb for a prefix mask octet mb
NetContains(ip, bits, a) == Len(a) = Len(ip) /\ \A i \in 1..Len(a) : AndMask(a[i], MaskOctet(bits, i)) = AndMask(ip[i], MaskOctet(bits, i))

SysHost(r, name, q) ==
  LET pat == r.pat IN           \* compileHostMatcher has normalised the pattern (Init)
  CASE r.kind = "all"    -> TRUE
    [] r.kind = "exact"  -> name = pat
    [] r.kind = "wild"   -> Deep(name, pat)
    [] r.kind = "suffix" -> name = pat \/ HasSuffix(name, IF MutSuffixNoDot THEN pat ELSE <<46>> \o pat)
    [] r.kind = "ip"     -> (q.v4 # <<>> /\ r.ip = q.v4) \/ (q.v6 # <<>> /\ r.ip = q.v6)
    [] r.kind = "cidr"   -> (q.v4 # <<>> /\ NetContains(r.ip, r.bits, q.v4)) \/ (q.v6 # <<>> /\ NetContains(r.ip, r.bits, q.v6))
    [] OTHER             -> FALSE

SysRule(r, name, q) ==        \* compiledRule.Match
  IF r.proto # 0 /\ r.proto # q.proto THEN FALSE
  ELSE IF r.lo # 0 /\ (q.port < r.lo \/ (IF MutPortHi THEN q.port >= r.hi ELSE q.port > r.hi)) THEN FALSE
  ELSE SysHost(r, name, q)

RECURSIVE Scan(_, _, _)
Scan(rs, name, q) ==          \* the linear scan in file order
  IF rs = <<>> THEN NoAnswer
  ELSE IF SysRule(rs[1], name, q) THEN [out |-> rs[1].out, hij |-> rs[1].hij]
  ELSE Scan(Tail(rs), name, q)

\* ---------------- Match with the LRU cache ----------------------------------
Key(name, q) == <<name, q.v4, IF MutKeyNoV6 THEN <<>> ELSE q.v6,
                  IF MutKeyNoProto THEN 0 ELSE q.proto, IF MutKeyNoPort THEN 0 ELSE q.port>>

Lookup(q) ==
  /\ nq < MaxQ
  /\ LET name == Norm(q.host)
         key  == Key(name, q)
         hit  == {i \in 1..Len(cache) : cache[i].key = key}
         cold == Scan(rules, name, q)
         warm == IF hit # {} THEN cache[CHOOSE i \in hit : TRUE].val ELSE cold
         rest == SelectSeq(cache, LAMBDA c : c.key # key)
         c2   == <<[key |-> key, val |-> warm]>> \o rest
     IN /\ cache' = SubSeq(c2, 1, Min2(K, Len(c2)))
        /\ mon' = MonStep(mon, [ev |-> "Match", scn |-> 0, host |-> q.host, v4 |-> q.v4, v6 |-> q.v6,
                                proto |-> q.proto, port |-> q.port,
                                out |-> warm.out, hij |-> warm.hij, cout |-> cold.out, chij |-> cold.hij], 0)
        /\ hist' = Append(hist, q)
  /\ nq' = nq + 1
  /\ UNCHANGED rules

RuleLists == UNION {[1..n -> 1..Len(RulePool)] : n \in 1..NRules}

Init == /\ \E f \in RuleLists : rules = [i \in DOMAIN f |-> [RulePool[f[i]] EXCEPT !.pat = Norm(@)]]
        /\ cache = <<>> /\ nq = 0 /\ hist = <<>>
        /\ mon = MonStep(MonInit, [ev |-> "Rules", scn |-> 0, rules |-> rules, dflt |-> 0], 0)

Next == \E q \in QueryPool : Lookup(q)
Spec == Init /\ [][Next]_vars

NoViolation == mon.viol = {}
PrintScn == (nq = MaxQ) => PrintT(<<"SCN", ToJson([rules |-> rules, qs |-> hist])>>)
View == <<rules, cache, nq, mon>>
=============================================================================
