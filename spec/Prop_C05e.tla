----------------------------- MODULE Prop_C05e -----------------------------
(* C05 (end-to-end part, client side): what a client UDP session hands to    *)
(* the application is, byte for byte, one message that the server sent to    *)
(* THAT session - or nothing.  Monitor over the client's udpSessionManager:  *)
(*  NewUDP(id, ok)                 application opened a session              *)
(*  Inject(sid, msg, fid, cnt)     a UDPMessage arrived from the server      *)
(*                                 (fragment fid of cnt of message msg)      *)
(*  Recv(conn, pieces, hdrOk)      conn.Receive() returned a payload; pieces *)
(*                                 = the (msg, fid) runs found in it         *)
(*  RecvEOF(conn)  Close(conn)  Loss  (connection lost)                      *)
(*  SendCall(conn, dlen, hdr, limit) / SendOut(sid, n, sizes, concatOk,      *)
(*                                 hdrSame) what Send put on the wire        *)
(*  SendSeq(conn, msgs, failed, frames, emitted, bad)  several Sends in a row *)
(*                                 on one session, some refused by the       *)
(*                                 transport part-way; all datagrams that    *)
(*                                 reached the wire fed in wire order to a   *)
(*                                 far-side reassembler: `bad` = payloads it *)
(*                                 emitted that are none of the sent messages*)
(*  End(open)                      sessions whose Receive has not ended      *)
EXTENDS Mon

Put(f, k, v) == [x \in (DOMAIN f) \cup {k} |-> IF x = k THEN v ELSE f[x]]

MonInit == [viol |-> {}, ids |-> {}, closed |-> {}, eof |-> {}, lost |-> FALSE,
            msgs |-> <<>>,       \* msg -> [sid, cnt, early: fragments that arrived while the session was open]
            got  |-> {}]         \* messages already handed to the application

Whole(m, ps) ==
  /\ Len(ps) >= 1
  /\ LET mm == ps[1][1] IN
       /\ mm \in DOMAIN m.msgs
       /\ Len(ps) = (IF m.msgs[mm].cnt < 1 THEN 1 ELSE m.msgs[mm].cnt)
       /\ \A i \in 1..Len(ps) : ps[i][1] = mm /\ ps[i][2] = i - 1

MonStep(m, e, ln) ==
  CASE e.ev = "Reset" -> [MonInit EXCEPT !.viol = m.viol]
    [] e.ev = "NewUDP" ->
         [m EXCEPT !.ids = IF e.ok THEN @ \cup {e.id} ELSE @,
                   !.viol = VAll(m.viol, e, ln,
            << <<"IDReused", e.ok /\ e.id \in m.ids>>,
               <<"NewAfterLoss", e.ok /\ m.lost>> >>)]
    [] e.ev = "Inject" ->
         LET live == e.sid \notin m.closed /\ ~m.lost
             old  == IF e.msg \in DOMAIN m.msgs THEN m.msgs[e.msg].early ELSE {} IN
         [m EXCEPT !.msgs = Put(m.msgs, e.msg, [sid |-> e.sid, cnt |-> e.cnt, early |-> IF live THEN old \cup {e.fid} ELSE old])]
    [] e.ev = "Recv" ->
         LET w == Whole(m, e.pieces)
             mm == e.pieces[1][1] IN
         [m EXCEPT !.got = IF w THEN @ \cup {mm} ELSE @,
                   !.viol = VAll(m.viol, e, ln,
            << <<"NoChimera",       ~w \/ ~e.hdrOk>>,
               <<"ClientIsolation", w /\ m.msgs[mm].sid # e.conn>>,
               \* what was queued before the close may still be read; a fragment that arrived after it may not
               <<"ClosedSessionDelivers", w /\ ~((0..(Len(e.pieces) - 1)) \subseteq m.msgs[mm].early)>> >>)]
    [] e.ev = "RecvEOF" ->
         [m EXCEPT !.eof = @ \cup {e.conn},
                   !.viol = VAll(m.viol, e, ln, << <<"SpuriousEOF", e.conn \notin m.closed /\ ~m.lost>> >>)]
    [] e.ev = "Close" -> [m EXCEPT !.closed = @ \cup {e.conn}]
    [] e.ev = "Loss"  -> [m EXCEPT !.lost = TRUE]
    [] e.ev = "SendOut" ->
         LET idx == 1..e.n IN
         [m EXCEPT !.viol = VAll(m.viol, e, ln,
            << <<"Send_SizeBound",  e.n > 0 /\ \E i \in idx : e.sizes[i] > e.limit>>,
               <<"Send_CountBound", e.n > 255>>,
               <<"Send_Lossless",   e.n > 0 /\ (~e.concatOk \/ ~e.hdrSame)>>,
               <<"Send_WrongSession", e.n > 0 /\ e.sid # e.conn>> >>)]
    [] e.ev = "SendSeq" ->
         [m EXCEPT !.viol = VAll(m.viol, e, ln,
            << <<"Send_ChimeraAcrossMessages", e.bad > 0>>,
               <<"Send_Lossless", e.failed = 0 /\ e.emitted # e.msgs>> >>)]
    [] e.ev = "End" ->
         [m EXCEPT !.viol = VAll(m.viol, e, ln,
            << <<"LossNotReported", m.lost /\ Len(e.open) > 0>> >>)]
    [] e.ev = "Panic" -> [m EXCEPT !.viol = V(m.viol, e, ln, "Panic", TRUE)]
    [] OTHER -> m
=============================================================================
