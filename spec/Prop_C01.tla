----------------------------- MODULE Prop_C01 -----------------------------
(* C01 - no proxying before authentication on the same connection.          *)
(* Events (from fakes inside a real server, and from raw QUIC clients):     *)
(*  ConnOpen(conn)  AuthCall(conn, ok)  Resp(conn, op, status)              *)
(*  StreamSent(conn, op)  StreamOutcome(conn, op, proxied)                  *)
(*  DgramSent(conn, op)   OutTCP(conn, op)  OutUDP(conn, op)                *)
(*  OutCheckUDP(conn, op) TgtData(conn, op, n)  (payload reached a target)  *)
(* conn/op of an outbound call are decoded from the target address, which   *)
(* the client chose as "c<conn>o<op>.test:port".                            *)
EXTENDS Mon

MonInit == [viol |-> {}, accepted |-> {}, sentAuthed |-> {}]

Out(m, e, ln) == [m EXCEPT !.viol = VAll(m.viol, e, ln, << <<"NoProxyBeforeAuth", e.conn \notin m.accepted>> >>)]

MonStep(m, e, ln) ==
  CASE e.ev = "Reset" -> [MonInit EXCEPT !.viol = m.viol]
    [] e.ev = "AuthCall" ->
         [m EXCEPT !.accepted = IF e.ok THEN m.accepted \cup {e.conn} ELSE m.accepted,
                   !.viol = VAll(m.viol, e, ln, << <<"NoReEval", e.conn \in m.accepted>> >>)]
    [] e.ev = "Resp" ->
         [m EXCEPT !.viol = VAll(m.viol, e, ln, << <<"PerConnection_233WithoutAcceptance", e.status = 233 /\ e.conn \notin m.accepted>> >>)]
    [] e.ev \in {"OutTCP", "OutUDP", "OutCheckUDP", "TgtData"} -> Out(m, e, ln)
    [] e.ev = "StreamSent" ->
         [m EXCEPT !.sentAuthed = IF e.conn \in m.accepted THEN m.sentAuthed \cup {<<e.conn, e.op>>} ELSE m.sentAuthed]
    [] e.ev = "StreamOutcome" ->
         [m EXCEPT !.viol = VAll(m.viol, e, ln,
            << <<"NoProxyBeforeAuth", e.proxied /\ e.conn \notin m.accepted>>,
               <<"NoRevoke", ~e.proxied /\ <<e.conn, e.op>> \in m.sentAuthed>> >>)]
    [] e.ev = "Panic" -> [m EXCEPT !.viol = V(m.viol, e, ln, "Panic", TRUE)]
    [] OTHER -> m
===========================================================================
