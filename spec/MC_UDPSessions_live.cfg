SPECIFICATION FairSpec
CONSTANTS IDs = {1, 2}  MaxDg = 2  MaxRep = 1  MaxEnt = 2  Idle = 1  MaxT = 1  MaxFault = 1
  Dsts = {1}  Allow = {1}  HookMap <- HookId  AclCap = 1
  GuardClosedInInit = TRUE  GuardCloseOnce = TRUE  TouchOnReply = TRUE  CheckEveryDgram = TRUE  StampOwnID = TRUE  LockAcrossDial = TRUE  FailPathCloses = TRUE  FragHdr = FALSE  VetWritten = TRUE  VetRewritten = TRUE  SplitExit = FALSE  GenHist = FALSE
PROPERTY EventuallyClean
CHECK_DEADLOCK FALSE
