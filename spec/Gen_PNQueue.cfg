SPECIFICATION Spec
CONSTANTS InitSize = 1  MaxPn = 9  MaxOps = 14  GrowOrderOn = TRUE  ClearupOn = TRUE  PopOn = TRUE
INVARIANT PrintScn

CHECK_DEADLOCK FALSE
