SPECIFICATION Spec
CONSTANTS Proto = "http"  NoneOK = FALSE  AuthFirst = FALSE  KeepBuffered = TRUE  SharedBuf = FALSE  Cut = FALSE
INVARIANT NoViolation
CHECK_DEADLOCK FALSE
