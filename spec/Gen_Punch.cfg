SPECIFICATION Spec
CONSTANTS NId = 3  NMeta = 3  MaxPkt = 8  MaxCalls = 8  NResp = 2  Respond = FALSE  Mut = "none"
INVARIANT PrintScn

CHECK_DEADLOCK FALSE
