------------------------------ MODULE Sys_Mux ------------------------------
(* Model of app/internal/proxymux/mux.go: acceptLoop, mainLoop, dispatch,     *)
(* ListenSOCKS/ListenHTTP, subListener.Accept/Close and connWithOneByte.Read, *)
(* one action per critical section / channel operation, and of the            *)
(* environment the statement quantifies over: any order of listener           *)
(* registration, sub-listener close, accept loops starting, and incoming      *)
(* connections (first byte 5, something else, or none).                       *)
(*                                                                           *)
(* Fixed = TRUE is the repaired code (a connection the mux can no longer hand *)
(* over is closed, fixes/C18-mux-close-undeliverable.patch); Fixed = FALSE is *)
(* the tree as found: dispatch and acceptLoop simply return and the           *)
(* connection stays open for ever, which TLC reports (mutant config).         *)
(* ZeroFirst = FALSE is the mutant "bRead set before the zero-length check".  *)
EXTENDS Prop_C18, TLC, Json

CONSTANTS NConn, MaxListen, MaxClose, MaxReads,
          Fixed, ZeroFirst, RouteByByte

VARIABLES sub,        \* kind -> id of the registered sub-listener (0 = nil)
          sl,         \* sequence of sub-listeners ever created: [kind, closed, looping, alive]
          muxClosed,  \* l.closeChan closed
          mlpc, mlSnap, \* mainLoop: "top" (about to read the close channels under the lock), "sel", "done"
          cst, first, tgt, bRead, hoff, nreads,   \* connections
          nlisten, nclose, mon, hist

vars == <<sub, sl, muxClosed, mlpc, mlSnap, cst, first, tgt, bRead, hoff, nreads, nlisten, nclose, mon, hist>>

Kinds == {"socks", "http"}
Conns == 1..NConn
Stream(c) == <<first[c], 1, 2>>
E(name, fields) == [ev |-> name, scn |-> 0] @@ fields
H(op, kind, n, c) == [op |-> op, kind |-> kind, n |-> n, c |-> c]

\* ---------------------------------------------------------------- environment
\* ListenSOCKS / ListenHTTP (mux.go:166-230)
Listen(k) ==
  /\ nlisten < MaxListen
  /\ nlisten' = nlisten + 1
  /\ LET cur     == sub[k]
         pending == cur # 0 /\ sl[cur].closed
         inUse   == cur # 0 /\ ~pending
         ok      == ~inUse /\ ~muxClosed
         id      == Len(sl) + 1
     IN /\ sub' = IF inUse THEN sub ELSE [sub EXCEPT ![k] = IF ok THEN id ELSE 0]
        /\ sl' = IF ok THEN Append(sl, [kind |-> k, closed |-> FALSE, looping |-> FALSE, alive |-> FALSE]) ELSE sl
        /\ mon' = MonStep(mon, E("MuxListen", [which |-> k, sub |-> IF ok THEN id ELSE 0, ok |-> ok]), 0)
        /\ hist' = Append(hist, H("listen", k, 0, 0))
  /\ UNCHANGED <<muxClosed, mlpc, mlSnap, cst, first, tgt, bRead, hoff, nreads, nclose>>

\* the owner of sub-listener s starts its accept loop (like Serve does)
StartLoop(s) ==
  /\ s \in 1..Len(sl) /\ ~sl[s].looping
  /\ sl' = [sl EXCEPT ![s].looping = TRUE, ![s].alive = TRUE]
  /\ mon' = MonStep(mon, E("LoopStart", [sub |-> s]), 0)
  /\ hist' = Append(hist, H("loop", "", s, 0))
  /\ UNCHANGED <<sub, muxClosed, mlpc, mlSnap, cst, first, tgt, bRead, hoff, nreads, nlisten, nclose>>

\* subListener.Close (mux.go:276-284)
CloseSub(s) ==
  /\ s \in 1..Len(sl) /\ ~sl[s].closed /\ nclose < MaxClose
  /\ sl' = [sl EXCEPT ![s].closed = TRUE]
  /\ nclose' = nclose + 1
  /\ mon' = MonStep(mon, E("SubClose", [sub |-> s]), 0)
  /\ hist' = Append(hist, H("close", "", s, 0))
  /\ UNCHANGED <<sub, muxClosed, mlpc, mlSnap, cst, first, tgt, bRead, hoff, nreads, nlisten>>

\* Accept of a closed sub-listener returns net.ErrClosed: the loop ends
LoopSeesClose(s) ==
  /\ s \in 1..Len(sl) /\ sl[s].alive /\ sl[s].closed
  /\ sl' = [sl EXCEPT ![s].alive = FALSE]
  /\ UNCHANGED <<sub, muxClosed, mlpc, mlSnap, cst, first, tgt, bRead, hoff, nreads, nlisten, nclose, mon, hist>>

\* a connection arrives: base.Accept returns it to acceptLoop (mux.go:37-54)
Arrive(c, b) ==
  /\ cst[c] = "idle" /\ ~muxClosed /\ mlpc # "done"
  /\ first' = [first EXCEPT ![c] = b]
  /\ cst' = [cst EXCEPT ![c] = "al"]
  /\ mon' = MonStep(mon, E("MuxConn", [conn |-> c, first |-> b, stream |-> IF b < 0 THEN <<>> ELSE <<b, 1, 2>>]), 0)
  /\ hist' = Append(hist, H("conn", "", b, c))
  /\ UNCHANGED <<sub, sl, muxClosed, mlpc, mlSnap, tgt, bRead, hoff, nreads, nlisten, nclose>>

\* ---------------------------------------------------------------- the mux
CloseConn(c) == mon' = MonStep(mon, E("SrvClosed", [conn |-> c]), 0)

\* acceptLoop's select when the mux has shut down: the connection is abandoned (fixed: closed)
AcceptLoopDrop(c) ==
  /\ cst[c] = "al" /\ muxClosed
  /\ IF Fixed THEN cst' = [cst EXCEPT ![c] = "closed"] /\ CloseConn(c)
              ELSE cst' = [cst EXCEPT ![c] = "dropped"] /\ UNCHANGED mon
  /\ UNCHANGED <<sub, sl, muxClosed, mlpc, mlSnap, first, tgt, bRead, hoff, nreads, nlisten, nclose, hist>>

\* mainLoop, top of the loop: read the close channels of the registered sub-listeners under the lock
MainTop ==
  /\ mlpc = "top"
  /\ mlSnap' = sub
  /\ mlpc' = "sel"
  /\ UNCHANGED <<sub, sl, muxClosed, cst, first, tgt, bRead, hoff, nreads, nlisten, nclose, mon, hist>>

\* mainLoop's select: a connection from acceptLoop -> go dispatch
MainConn(c) ==
  /\ mlpc = "sel" /\ cst[c] = "al"
  /\ cst' = [cst EXCEPT ![c] = "d1"]
  /\ mlpc' = "top"
  /\ UNCHANGED <<sub, sl, muxClosed, mlSnap, first, tgt, bRead, hoff, nreads, nlisten, nclose, mon, hist>>

\* mainLoop's select: the sub-listener whose close channel was read at the top was closed
MainClosed(k) ==
  /\ mlpc = "sel" /\ mlSnap[k] # 0 /\ sl[mlSnap[k]].closed
  /\ LET sub2 == IF sub[k] = mlSnap[k] THEN [sub EXCEPT ![k] = 0] ELSE sub
         idle == \A j \in Kinds : sub2[j] = 0
     IN /\ sub' = sub2
        /\ IF idle THEN mlpc' = "done" /\ muxClosed' = TRUE     \* deleteFunc, base.Close, close(closeChan)
                   ELSE mlpc' = "top" /\ UNCHANGED muxClosed
  /\ UNCHANGED <<sl, mlSnap, cst, first, tgt, bRead, hoff, nreads, nlisten, nclose, mon, hist>>

\* dispatch (mux.go:118-145): read the first byte
D1(c) ==
  /\ cst[c] = "d1"
  /\ IF first[c] < 0 THEN cst' = [cst EXCEPT ![c] = "closed"] /\ CloseConn(c)
                     ELSE cst' = [cst EXCEPT ![c] = "d2"] /\ UNCHANGED mon
  /\ UNCHANGED <<sub, sl, muxClosed, mlpc, mlSnap, first, tgt, bRead, hoff, nreads, nlisten, nclose, hist>>

\* dispatch: choose the target under the lock
D2(c) ==
  /\ cst[c] = "d2"
  /\ LET k == IF RouteByByte THEN KindOf(first[c]) ELSE (IF sub["socks"] # 0 THEN "socks" ELSE "http")
         t == sub[k]
     IN IF t = 0 THEN cst' = [cst EXCEPT ![c] = "closed"] /\ CloseConn(c) /\ UNCHANGED tgt
                 ELSE cst' = [cst EXCEPT ![c] = "d3"] /\ tgt' = [tgt EXCEPT ![c] = t] /\ UNCHANGED mon
  /\ UNCHANGED <<sub, sl, muxClosed, mlpc, mlSnap, first, bRead, hoff, nreads, nlisten, nclose, hist>>

\* dispatch's select, case target.acceptChan <- wconn: an Accept is waiting
D3Hand(c) ==
  /\ cst[c] = "d3" /\ sl[tgt[c]].alive
  /\ cst' = [cst EXCEPT ![c] = "handed"]
  /\ mon' = MonStep(mon, E("Accepted", [conn |-> c, sub |-> tgt[c]]), 0)
  /\ UNCHANGED <<sub, sl, muxClosed, mlpc, mlSnap, first, tgt, bRead, hoff, nreads, nlisten, nclose, hist>>

\* dispatch's select, case <-target.closeChan
D3Closed(c) ==
  /\ cst[c] = "d3" /\ sl[tgt[c]].closed
  /\ IF Fixed THEN cst' = [cst EXCEPT ![c] = "closed"] /\ CloseConn(c)
              ELSE cst' = [cst EXCEPT ![c] = "dropped"] /\ UNCHANGED mon
  /\ UNCHANGED <<sub, sl, muxClosed, mlpc, mlSnap, first, tgt, bRead, hoff, nreads, nlisten, nclose, hist>>

\* connWithOneByte.Read (mux.go:295-305) called by the handler with a buffer of `want` bytes
HandlerRead(c, want) ==
  /\ cst[c] = "handed" /\ nreads[c] < MaxReads
  /\ nreads' = [nreads EXCEPT ![c] = @ + 1]
  /\ LET rest == SubSeq(Stream(c), 2 + hoff[c], 3)      \* what the underlying connection still holds
         data == IF bRead[c] THEN SubSeq(rest, 1, Min2(want, Len(rest)))
                 ELSE IF want = 0 THEN <<>>
                 ELSE <<first[c]>>
         br2  == IF bRead[c] THEN TRUE ELSE IF want = 0 THEN ~ZeroFirst ELSE TRUE
         eof  == bRead[c] /\ Len(rest) = 0 /\ want > 0
     IN /\ bRead' = [bRead EXCEPT ![c] = br2]
        /\ hoff' = [hoff EXCEPT ![c] = IF bRead[c] THEN @ + Len(data) ELSE @]
        /\ mon' = IF eof THEN MonStep(mon, E("HEof", [conn |-> c]), 0)
                  ELSE MonStep(mon, E("HRead", [conn |-> c, want |-> want, data |-> data]), 0)
        /\ hist' = Append(hist, H("read", "", want, c))
  /\ UNCHANGED <<sub, sl, muxClosed, mlpc, mlSnap, cst, first, tgt, nlisten, nclose>>

Internal == \/ MainTop \/ (\E k \in Kinds : MainClosed(k))
            \/ \E c \in Conns : AcceptLoopDrop(c) \/ MainConn(c) \/ D1(c) \/ D2(c) \/ D3Hand(c) \/ D3Closed(c)
            \/ \E s \in 1..Len(sl) : LoopSeesClose(s)

\* every goroutine of the mux is blocked
Quiesce ==
  /\ ~ENABLED Internal
  /\ mon' = MonStep(mon, E("Quiesce", [x |-> 0]), 0)
  /\ hist' = IF hist # <<>> /\ hist[Len(hist)].op = "wait" THEN hist ELSE Append(hist, H("wait", "", 0, 0))
  /\ UNCHANGED <<sub, sl, muxClosed, mlpc, mlSnap, cst, first, tgt, bRead, hoff, nreads, nlisten, nclose>>

Init == /\ sub = [k \in Kinds |-> 0] /\ sl = <<>> /\ muxClosed = FALSE
        /\ mlpc = "top" /\ mlSnap = [k \in Kinds |-> 0]
        /\ cst = [c \in Conns |-> "idle"] /\ first = [c \in Conns |-> -1] /\ tgt = [c \in Conns |-> 0]
        /\ bRead = [c \in Conns |-> FALSE] /\ hoff = [c \in Conns |-> 0] /\ nreads = [c \in Conns |-> 0]
        /\ nlisten = 0 /\ nclose = 0 /\ mon = MonInit /\ hist = <<>>

Env == \/ \E k \in Kinds : Listen(k)
       \/ \E s \in 1..Len(sl) : StartLoop(s) \/ CloseSub(s)
       \/ \E c \in Conns, b \in {5, 71, -1} : (\A d \in Conns : d < c => cst[d] # "idle") /\ Arrive(c, b)
       \/ \E c \in Conns, w \in {0, 1, 2} : HandlerRead(c, w)

Next == Env \/ Internal \/ Quiesce
Spec == Init /\ [][Next]_vars

NoViolation == mon.viol = {}
Settled == ~ENABLED Internal
PrintScn == (Settled /\ nlisten = MaxListen /\ \A c \in Conns : cst[c] # "idle")
               => PrintT(<<"SCN", ToJson([steps |-> hist])>>)
View == <<sub, sl, muxClosed, mlpc, mlSnap, cst, first, tgt, bRead, hoff, nreads, nlisten, nclose, mon>>
=============================================================================
