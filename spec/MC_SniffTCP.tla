---- MODULE MC_SniffTCP ----
EXTENDS Sys_SniffTCP
====
