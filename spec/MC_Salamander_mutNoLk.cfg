SPECIFICATION Spec
CONSTANTS NW = 1  NR = 1  MaxW = 1  MaxI = 1  MaxJ = 0  JunkLens <- JL1
  UseWMu = TRUE  UseRMu = TRUE  UseLk = FALSE  DeobfInLock = TRUE  JunkRetry = TRUE  UnlockOnRetry = TRUE
INVARIANT NoViolation

VIEW View
CHECK_DEADLOCK FALSE
