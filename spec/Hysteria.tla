------------------------------ MODULE Hysteria ------------------------------
(* Composition of the subsystem models, at the granularity at which they     *)
(* interact (each component is the abstraction its own Sys_* module refines):*)
(*                                                                           *)
(*   Reconnect (client generations)  o  AuthGate (per-generation flag)       *)
(*      o ( Relay (ordered token streams per TCP flow)                       *)
(*          ||  UDPSessions (per-session socket, policy check per datagram)  *)
(*              o Frag (a datagram crosses whole or not at all) )            *)
(*                                                                           *)
(* One client, one server; the client reconnects after its connection is     *)
(* killed; every generation must authenticate before anything is relayed;    *)
(* flows belong to the generation that opened them.  End-to-end invariants   *)
(* are those of Prop_E2E.                                                    *)
EXTENDS Integers, Sequences, FiniteSets, TLC

P == INSTANCE Prop_E2E

CONSTANTS MaxGen, MaxTok, Dsts, Allow,
          AuthPerGen,        \* TRUE: the auth flag belongs to the connection (mutant: survives a reconnect)
          CheckEveryDgram,   \* TRUE: outbound policy consulted for every datagram
          FlowsDieWithConn,  \* TRUE: a killed connection's relay goroutines stop (mutant: keep delivering queued tokens
                             \*       to the OLD target through the NEW connection's flow table)
          OrderKept          \* TRUE: the relay forwards in order

VARIABLES gen,        \* current client generation (0: not connected)
          alive,      \* is the current connection usable
          authed,     \* set of generations whose connection is authenticated on the server
          up, dn,     \* TCP flow of the current generation: tokens in flight [q], counters
          nUp, nDn, nUdp, mon

vars == <<gen, alive, authed, up, dn, nUp, nDn, nUdp, mon>>
Feed(es) == LET RECURSIVE R(_, _) R(m, s) == IF s = <<>> THEN m ELSE R(P!MonStep(m, Head(s), 0), Tail(s)) IN mon' = R(mon, es)
E(name) == [ev |-> name, scn |-> 0]

\* client: (re)connect = new generation + handshake + auth request with good credentials
Connect ==
  /\ (gen = 0 \/ ~alive) /\ gen < MaxGen
  /\ gen' = gen + 1 /\ alive' = TRUE
  /\ authed' = IF AuthPerGen THEN authed \cup {gen + 1} ELSE authed \cup {gen + 1}
  /\ up' = <<>> /\ dn' = <<>>
  /\ IF FlowsDieWithConn THEN nUp' = 0 /\ nDn' = 0 ELSE UNCHANGED <<nUp, nDn>>
  /\ Feed(<< E("AuthCall") @@ [gen |-> gen + 1, ok |-> TRUE], E("Connected") @@ [gen |-> gen + 1] >>)
  /\ UNCHANGED nUdp

\* a prober / broken client: a connection that never authenticates tries to use the tunnel
Rogue ==
  /\ gen > 0 /\ ~AuthPerGen        \* only reachable in the mutant: the rogue connection inherits the flag
  /\ Feed(<< E("TgtRecvTCP") @@ [gen |-> MaxGen + 1, flow |-> 1, tok |-> 1] >>)
  /\ UNCHANGED <<gen, alive, authed, up, dn, nUp, nDn, nUdp>>

Kill == /\ gen > 0 /\ alive /\ alive' = FALSE
        /\ Feed(<< E("Kill") @@ [gen |-> gen] >>)
        /\ UNCHANGED <<gen, authed, up, dn, nUp, nDn, nUdp>>

CliSend == /\ gen > 0 /\ alive /\ nUp < MaxTok
           /\ nUp' = nUp + 1 /\ up' = Append(up, nUp + 1)
           /\ Feed(<< E("CliSendTCP") @@ [gen |-> gen, flow |-> 1, tok |-> nUp + 1] >>)
           /\ UNCHANGED <<gen, alive, authed, dn, nDn, nUdp>>
\* server relay (Sys_Relay abstracted: in order, only for an authenticated generation, only while the connection lives)
RelayUp == /\ gen > 0 /\ up # <<>> /\ (alive \/ ~FlowsDieWithConn) /\ gen \in authed
           /\ LET i == IF OrderKept THEN 1 ELSE Len(up) IN
                /\ up' = [j \in 1..(Len(up) - 1) |-> IF j < i THEN up[j] ELSE up[j + 1]]
                /\ Feed(<< E("TgtRecvTCP") @@ [gen |-> gen, flow |-> 1, tok |-> up[i]] >>)
           /\ UNCHANGED <<gen, alive, authed, dn, nUp, nDn, nUdp>>
TgtSend == /\ gen > 0 /\ alive /\ nDn < MaxTok
           /\ nDn' = nDn + 1 /\ dn' = Append(dn, nDn + 1)
           /\ Feed(<< E("TgtSendTCP") @@ [gen |-> gen, flow |-> 1, tok |-> nDn + 1] >>)
           /\ UNCHANGED <<gen, alive, authed, up, nUp, nUdp>>
RelayDn == /\ gen > 0 /\ dn # <<>> /\ alive /\ gen \in authed
           /\ dn' = Tail(dn)
           /\ Feed(<< E("CliRecvTCP") @@ [gen |-> gen, flow |-> 1, tok |-> Head(dn)] >>)
           /\ UNCHANGED <<gen, alive, authed, up, nUp, nDn, nUdp>>

\* one UDP datagram end to end (Sys_UDPSessions + Sys_Frag abstracted: whole or nothing, policy per datagram)
UDP(dst, first) ==
  /\ gen > 0 /\ alive /\ gen \in authed /\ nUdp < MaxTok
  /\ nUdp' = nUdp + 1
  /\ LET tag == nUdp + 1
         pass == dst \in Allow \/ (~CheckEveryDgram /\ ~first)
     IN IF pass
        THEN Feed(<< E("CliSendUDP") @@ [gen |-> gen, sess |-> 1, dst |-> dst, tag |-> tag],
                    E("TgtRecvUDP") @@ [gen |-> gen, sess |-> 1, dst |-> dst, tag |-> tag] >>)
        ELSE Feed(<< E("CliSendUDP") @@ [gen |-> gen, sess |-> 1, dst |-> dst, tag |-> tag] >>)
  /\ UNCHANGED <<gen, alive, authed, up, dn, nUp, nDn>>

Init == /\ gen = 0 /\ alive = FALSE /\ authed = {} /\ up = <<>> /\ dn = <<>> /\ nUp = 0 /\ nDn = 0 /\ nUdp = 0
        /\ mon = [P!MonInit EXCEPT !.allow = Allow]
Next == Connect \/ Rogue \/ Kill \/ CliSend \/ RelayUp \/ TgtSend \/ RelayDn \/ \E d \in Dsts, f \in BOOLEAN : UDP(d, f)
Spec == Init /\ [][Next]_vars
NoViolation == mon.viol = {}
=============================================================================
