SPECIFICATION Spec
CONSTANTS MaxAddr = 3  MaxMsg = 2  MaxPad = 3  Present = 4  BufSz = 2
  MutCheckAfter = FALSE  MutGreedy = FALSE  MutPadGE = FALSE
  Len1Set <- B1  Len2Set <- B2  TrailSet <- Tr3  CutSet <- Cut
INVARIANT NoViolation
VIEW View
CHECK_DEADLOCK FALSE
