SPECIFICATION Spec
CONSTANTS MsgSrc <- S5  MsgMid <- M5  MsgTot <- T5  CapSrc = 2  CapAll = 3  MaxDeliv = 6  MaxTick = 3
  GridP <- GP  GridMM <- GM
  DecOnComplete = TRUE  DupCheck = TRUE  TotalCheck = TRUE  CapStrict = TRUE  GcOn = TRUE
INVARIANT NoViolation
INVARIANT TableOk
VIEW View
CHECK_DEADLOCK FALSE
