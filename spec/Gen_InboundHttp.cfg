SPECIFICATION Spec
CONSTANTS Proto = "http"  NoneOK = FALSE  AuthFirst = TRUE  KeepBuffered = TRUE  SharedBuf = FALSE  Cut = FALSE
INVARIANT PrintScn
CHECK_DEADLOCK FALSE
