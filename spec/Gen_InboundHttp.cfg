SPECIFICATION Spec
CONSTANTS Proto = "http"  NoneOK = FALSE  AuthFirst = TRUE  KeepBuffered = TRUE  Cut = FALSE
INVARIANT PrintScn
CHECK_DEADLOCK FALSE
