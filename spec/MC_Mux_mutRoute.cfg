SPECIFICATION Spec
CONSTANTS NConn = 1  MaxListen = 2  MaxClose = 1  MaxReads = 0  Fixed = TRUE  ZeroFirst = TRUE  RouteByByte = FALSE
INVARIANT NoViolation
VIEW View
CHECK_DEADLOCK FALSE
