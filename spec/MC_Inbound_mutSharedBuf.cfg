SPECIFICATION Spec
CONSTANTS Proto = "http"  NoneOK = FALSE  AuthFirst = TRUE  KeepBuffered = TRUE  SharedBuf = TRUE  Cut = FALSE
INVARIANT NoViolation
CHECK_DEADLOCK FALSE
