SPECIFICATION Spec
CONSTANTS Callers = {1, 2}  MaxGen = 3  MaxCalls = 4  MaxKill = 2  ReconnectWhenNil = TRUE  ClosedCheckLocked = TRUE
  DropOnlyOwn = TRUE  CloseDropped = TRUE  CheckClosedFlag = TRUE  LimitIsRecoverable = TRUE  GenHist = FALSE
INVARIANT NoViolation
CHECK_DEADLOCK FALSE
