----------------------------- MODULE Prop_C10 -----------------------------
(* C10 - negotiated send rate never exceeds either side's declared limit.   *)
(* Written from PROTOCOL.md, independently of the code.  Rates are ranks in *)
(* an ordered scale (0 = the value zero; Inf is larger than every rank):    *)
(* the rule only compares and takes minima, never computes.                 *)
(*  Reset(cUp, cDown, sUp, sDown, ignore, cDecl)                            *)
(*     client/server configured limits; cDecl = what the client's header    *)
(*     declares: a rank, or -1 for a missing / non-numeric header (which    *)
(*     reads as 0, "unknown"); a number too large for 64 bits is the top of *)
(*     the scale                                                            *)
(*  CC(side, kind, rate)   controller actually installed (hook in           *)
(*     congestion/utils.go): kind "brutal" with its rate rank, or "cc"      *)
(*  Handshake(tx)   client application: HandshakeInfo.Tx                    *)
(*  Connect(tx)     server application: EventLogger.Connect tx              *)
(*  End            end of scenario: both sides must have installed something*)
EXTENDS Mon

Inf == 1000
MinR(a, b) == IF a < b THEN a ELSE b
OrInf(r) == IF r = 0 THEN Inf ELSE r

MonInit == [viol |-> {}, cfg |-> [cUp |-> 0, cDown |-> 0, sUp |-> 0, sDown |-> 0, ignore |-> FALSE, cDecl |-> 0],
            cc |-> [server |-> "none", client |-> "none"], rate |-> [server |-> 0, client |-> 0],
            rawClient |-> FALSE, nconn |-> 0]

\* server -> client direction: limited by the server's own MaxTx and the client's declared receive rate
ServerTx(c) == LET decl == IF c.cDecl < 0 THEN 0 ELSE c.cDecl IN
               IF c.ignore \/ decl = 0 THEN 0 ELSE MinR(decl, OrInf(c.sUp))
\* client -> server direction: limited by the client's own MaxTx and the server's MaxRx (0 = unlimited)
\* (the client's own 0 means "I do not know my bandwidth": no usable limit, so no fixed rate)
ClientTx(c) == IF c.ignore \/ c.cUp = 0 THEN 0 ELSE MinR(OrInf(c.sDown), c.cUp)

Expect(c, side) == IF side = "server" THEN ServerTx(c) ELSE ClientTx(c)

MonStep(m, e, ln) ==
  CASE e.ev = "Reset" -> [MonInit EXCEPT !.viol = m.viol, !.rawClient = e.raw,
                            !.cfg = [cUp |-> e.cUp, cDown |-> e.cDown, sUp |-> e.sUp, sDown |-> e.sDown, ignore |-> e.ignore, cDecl |-> e.cDecl]]
    [] e.ev = "CC" ->
         LET want == Expect(m.cfg, e.side)
             judge == m.cfg.cDecl # -2 \/ e.side = "client"   \* cDecl = -2: two racing declarations, the winner is not known
         IN
         [m EXCEPT !.cc = [m.cc EXCEPT ![e.side] = e.kind], !.rate = [m.rate EXCEPT ![e.side] = e.rate],
                   !.viol = VAll(m.viol, e, ln,
            << \* the rate is negotiated once per connection: a second controller installation re-negotiates a rate
               \* that has already been reported
               <<"Renegotiated", m.cc[e.side] # "none">>,
               <<"Rate_ExceedsOwnLimit",  e.kind = "brutal" /\ e.rate > OrInf(IF e.side = "server" THEN m.cfg.sUp ELSE m.cfg.cUp)>>,
               <<"Rate_ExceedsPeerLimit", judge /\ e.kind = "brutal" /\ e.rate > (IF e.side = "server" THEN OrInf(IF m.cfg.cDecl < 0 THEN 0 ELSE m.cfg.cDecl) ELSE OrInf(m.cfg.sDown))>>,
               <<"Rate_NotTheMinimum",    judge /\ e.kind = "brutal" /\ want # 0 /\ e.rate # want>>,
               <<"FixedRateWithoutLimit", judge /\ e.kind = "brutal" /\ want = 0>>,
               <<"FixedRateZero",         e.kind = "brutal" /\ e.rate <= 0>>,
               <<"ControllerInsteadOfFixedRate", judge /\ e.kind = "cc" /\ want # 0>> >>)]
    [] e.ev = "Handshake" ->
         [m EXCEPT !.viol = VAll(m.viol, e, ln,
            << <<"Reported_ClientTx", e.tx # (IF m.cc.client = "brutal" THEN m.rate.client ELSE 0)>> >>)]
    [] e.ev = "Connect" ->
         [m EXCEPT !.nconn = @ + 1, !.viol = VAll(m.viol, e, ln,
            << <<"Renegotiated", m.nconn >= 1>>,
               <<"Reported_ServerTx", e.tx # (IF m.cc.server = "brutal" THEN m.rate.server ELSE 0)>> >>)]
    [] e.ev = "End" ->
         [m EXCEPT !.viol = VAll(m.viol, e, ln,
            << <<"NoControllerInstalled", m.cc.server = "none" \/ (~m.rawClient /\ m.cc.client = "none")>> >>)]
    [] OTHER -> m
===========================================================================
