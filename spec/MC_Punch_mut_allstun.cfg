SPECIFICATION Spec
CONSTANTS NId = 2  NMeta = 2  MaxPkt = 3  MaxCalls = 3  NResp = 2  Respond = TRUE  Mut = "allstun"
INVARIANT NoViolation
VIEW View
CHECK_DEADLOCK FALSE
