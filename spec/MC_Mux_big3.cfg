SPECIFICATION Spec
CONSTANTS NConn = 3  MaxListen = 2  MaxClose = 2  MaxReads = 0  Fixed = TRUE  ZeroFirst = TRUE  RouteByByte = TRUE
INVARIANT NoViolation
VIEW View
CHECK_DEADLOCK FALSE
