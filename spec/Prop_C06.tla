----------------------------- MODULE Prop_C06 -----------------------------
(* C06 - TCP relay preserves the byte stream and accounts it exactly.       *)
(* One scenario = one proxied TCP connection (client <-> server <-> target) *)
(* Lengths are in bytes (model: tokens).  Content is position-generated, so *)
(* "ok" on a read means: the bytes read are exactly the sender's bytes at   *)
(* the reader's current offset (observed by the harness, decided here).     *)
(*  Reset(logger, hooked, chunk)   chunk = size of the relay's copy buffer  *)
(*  CliWriteStart(n) TgtRead(n, ok) TgtEOF   client -> target direction     *)
(*  TgtWriteStart(n) CliRead(n, ok) CliEOF   target -> client direction     *)
(*  Log(tx, rx, ok)      TrafficLogger.LogTraffic call and its verdict      *)
(*  CliClose  TgtClose   endpoints closing     Fault  injected error        *)
(*  DialFail(msg)  outbound dial failed;  CliDialErr(kind, same) what the   *)
(*     client's TCP() or first Read reported (same: message identical)      *)
(*  ConnClosed(code)  the client saw its QUIC connection closed by the peer *)
(*  End                                                                     *)
EXTENDS Mon

MonInit == [viol |-> {}, logger |-> FALSE, hooked |-> FALSE, chunk |-> 0,
            sentC |-> 0, sentT |-> 0, gotT |-> 0, gotC |-> 0,      \* bytes written by / delivered to each endpoint
            apTx |-> 0, apRx |-> 0, logTx |-> 0, logRx |-> 0,      \* approved / all logged bytes per direction
            veto |-> FALSE, fault |-> FALSE, dialFail |-> FALSE, dialSeen |-> FALSE,
            cliClosed |-> FALSE, tgtClosed |-> FALSE, cliActive |-> FALSE, tgtActive |-> FALSE,
            connClosed |-> FALSE]

MonStep(m, e, ln) ==
  CASE e.ev = "Reset" -> [MonInit EXCEPT !.viol = m.viol, !.logger = e.logger, !.hooked = e.hooked, !.chunk = e.chunk]
    [] e.ev = "CliWriteStart" -> [m EXCEPT !.sentC = @ + e.n, !.cliActive = TRUE]
    [] e.ev = "TgtWriteStart" -> [m EXCEPT !.sentT = @ + e.n, !.tgtActive = TRUE]
    [] e.ev = "TgtRead" ->
         [m EXCEPT !.gotT = @ + e.n,
                   !.viol = VAll(m.viol, e, ln,
            << <<"Prefix_ToTarget",  ~e.ok \/ m.gotT + e.n > m.sentC>>,
               <<"ApprovedFirst_Tx", m.logger /\ ~m.hooked /\ m.gotT + e.n > m.apTx>>,
               <<"DialErr_Relayed",  m.dialFail>> >>)]
    [] e.ev = "CliRead" ->
         [m EXCEPT !.gotC = @ + e.n,
                   !.viol = VAll(m.viol, e, ln,
            << <<"Prefix_ToClient",  ~e.ok \/ m.gotC + e.n > m.sentT>>,
               <<"ApprovedFirst_Rx", m.logger /\ ~m.hooked /\ m.gotC + e.n > m.apRx>>,
               <<"DialErr_Relayed",  m.dialFail>> >>)]
    [] e.ev = "Log" ->
         [m EXCEPT !.apTx = IF e.ok THEN @ + e.tx ELSE @, !.apRx = IF e.ok THEN @ + e.rx ELSE @,
                   !.logTx = @ + e.tx, !.logRx = @ + e.rx,
                   !.veto = @ \/ ~e.ok,
                   !.viol = VAll(m.viol, e, ln,
            << <<"Account_LoggedMoreThanSent", ~m.hooked /\ (m.logTx + e.tx > m.sentC \/ m.logRx + e.rx > m.sentT)>>,
               <<"Veto_LoggedAfterVeto", m.veto /\ e.ok /\ FALSE>> >>)]   \* (the other direction may still log once; not a clause)
    [] e.ev = "TgtEOF" ->
         \* the whole stream must have arrived if the sender finished and closed while the receiver stayed passive
         [m EXCEPT !.viol = VAll(m.viol, e, ln,
            << <<"Whole_ToTarget", m.cliClosed /\ ~m.tgtActive /\ ~m.tgtClosed /\ ~m.veto /\ ~m.fault /\ ~m.dialFail /\ m.gotT # m.sentC>> >>)]
    [] e.ev = "CliEOF" ->
         [m EXCEPT !.viol = VAll(m.viol, e, ln,
            << <<"Whole_ToClient", m.tgtClosed /\ ~m.cliActive /\ ~m.cliClosed /\ ~m.veto /\ ~m.fault /\ ~m.dialFail /\ m.gotC # m.sentT>> >>)]
    [] e.ev = "CliClose" -> [m EXCEPT !.cliClosed = TRUE]
    [] e.ev = "TgtClose" -> [m EXCEPT !.tgtClosed = TRUE]
    [] e.ev = "Fault"    -> [m EXCEPT !.fault = TRUE]
    [] e.ev = "DialFail" -> [m EXCEPT !.dialFail = TRUE]
    [] e.ev = "CliDialErr" ->
         [m EXCEPT !.dialSeen = TRUE,
                   !.viol = VAll(m.viol, e, ln,
            << <<"DialErr_NotReported", m.dialFail /\ ~m.hooked /\ (e.kind # "DialError" \/ ~e.same)>> >>)]
    [] e.ev = "ConnClosed" -> [m EXCEPT !.connClosed = TRUE]
    [] e.ev = "End" ->
         [m EXCEPT !.viol = VAll(m.viol, e, ln,
            << <<"Veto_ConnectionNotClosed", m.veto /\ ~m.connClosed>>,
               <<"DialErr_NotReported", m.dialFail /\ ~m.hooked /\ ~m.dialSeen>>,
               \* accounting: approved bytes minus delivered bytes is at most the one chunk in flight,
               \* judged where the receiver drained its side (e.drT / e.drC)
               <<"Account_Tx", m.logger /\ ~m.hooked /\ e.drT /\ (m.apTx - m.gotT < 0 \/ m.apTx - m.gotT > m.chunk)>>,
               <<"Account_Rx", m.logger /\ ~m.hooked /\ e.drC /\ (m.apRx - m.gotC < 0 \/ m.apRx - m.gotC > m.chunk)>> >>)]
    [] e.ev = "Panic" -> [m EXCEPT !.viol = V(m.viol, e, ln, "Panic", TRUE)]
    [] OTHER -> m
===========================================================================
