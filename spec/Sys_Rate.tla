------------------------------ MODULE Sys_Rate ------------------------------
(* Model of the bandwidth negotiation: core/server/server.go:172-203,        *)
(* core/client/client.go:147-167, core/internal/protocol/http.go:33-68.      *)
(* Rates are ranks 0..MaxRank (0 = zero).  The header codec is modelled with *)
(* its failure modes: a missing or non-numeric Hysteria-CC-RX parses as 0, an *)
(* overflowing one saturates at 2^64-1 (the top of the scale); the server    *)
(* may answer "auto".  One behaviour = one handshake.                         *)
EXTENDS Integers, Sequences, TLC, Json

P == INSTANCE Prop_C10

CONSTANTS MaxRank,
          ServerCapsRate,     \* TRUE: server applies its own MaxTx as a cap (mutant: ignores it)
          ClientHonoursAuto,  \* TRUE: "auto" forces the configured controller
          ClientZeroIsCC,     \* TRUE: client's own 0 => configured controller
          ReportInstalled     \* TRUE: the reported rate is the installed one (mutant: reports the configured one)

VARIABLES cfg, hdr, pc, srvTx, respRx, respAuto, mon

vars == <<cfg, hdr, pc, srvTx, respRx, respAuto, mon>>
Ranks == 0..MaxRank
HdrKinds == {"num", "missing", "garbage", "overflow"}

Init == /\ cfg \in [cUp : Ranks, cDown : Ranks, sUp : Ranks, sDown : Ranks, ignore : BOOLEAN]
        /\ hdr \in HdrKinds
        /\ pc = "start" /\ srvTx = 0 /\ respRx = 0 /\ respAuto = FALSE
        /\ mon = P!MonStep(P!MonInit, [ev |-> "Reset", scn |-> 0, raw |-> FALSE, cUp |-> cfg.cUp, cDown |-> cfg.cDown, sUp |-> cfg.sUp,
                                     sDown |-> cfg.sDown, ignore |-> cfg.ignore,
                                     cDecl |-> IF hdr = "num" THEN cfg.cDown ELSE IF hdr = "overflow" THEN MaxRank ELSE -1], 0)

Feed(es) == LET RECURSIVE R(_, _) R(m, s) == IF s = <<>> THEN m ELSE R(P!MonStep(m, Head(s), 0), Tail(s)) IN mon' = R(mon, es)
CCEv(side, tx) == [ev |-> "CC", scn |-> 0, side |-> side, kind |-> IF tx > 0 THEN "brutal" ELSE "cc", rate |-> tx]

\* server.go: ServeHTTP after Authenticate returned ok
Server ==
  /\ pc = "start"
  /\ LET rx   == IF hdr = "num" THEN cfg.cDown
                 ELSE IF hdr = "overflow" THEN MaxRank                 \* strconv.ParseUint saturates on a range error
                 ELSE 0                                                \* syntax error / missing header => 0
         capd == IF ServerCapsRate /\ cfg.sUp > 0 /\ rx > cfg.sUp THEN cfg.sUp ELSE rx
         tx   == IF cfg.ignore THEN 0 ELSE capd
     IN /\ srvTx' = tx /\ respRx' = cfg.sDown /\ respAuto' = cfg.ignore
        /\ Feed(<< CCEv("server", tx), [ev |-> "Connect", scn |-> 0, tx |-> tx] >>)
  /\ pc' = "client" /\ UNCHANGED <<cfg, hdr>>

\* client.go: connect() after a 233 response
Client ==
  /\ pc = "client"
  /\ LET tx == IF respAuto /\ ClientHonoursAuto THEN 0
               ELSE LET a == respRx IN
                    IF a = 0 \/ a > cfg.cUp THEN (IF cfg.cUp = 0 /\ ~ClientZeroIsCC THEN a ELSE cfg.cUp) ELSE a
     IN Feed(<< CCEv("client", tx),
                [ev |-> "Handshake", scn |-> 0, tx |-> IF ReportInstalled THEN tx ELSE cfg.cUp],
                [ev |-> "End", scn |-> 0] >>)
  /\ pc' = "done" /\ UNCHANGED <<cfg, hdr, srvTx, respRx, respAuto>>

Next == Server \/ Client
Spec == Init /\ [][Next]_vars
NoViolation == mon.viol = {}
PrintScn == (pc = "done") => PrintT(<<"SCN", ToJson([cfg |-> cfg, hdr |-> hdr])>>)
=============================================================================
