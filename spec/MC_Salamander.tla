---- MODULE MC_Salamander ----
EXTENDS Sys_Salamander
JL == {0, 3, 8}
JL1 == {8}
====
