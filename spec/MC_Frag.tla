---- MODULE MC_Frag ----
EXTENDS Sys_Frag
\* boundary grid for the arithmetic (scaled: "255" is the real constant, sizes small)
GD == {1, 2, 3, 7, 8, 9, 254, 255, 256, 509, 510, 511, 512, 1000}
GH == {1, 2, 9}
GL == {0, 1, 2, 3, 4, 5, 10, 11, 12, 300}
====
