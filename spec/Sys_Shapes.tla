---------------------------- MODULE Sys_Shapes ----------------------------
(* Shape models of hysteria's network-facing decoders (C03).                *)
(* A shape is the record of the quantities a decoder's index arithmetic     *)
(* depends on (total length, every declared length/count/index/offset,      *)
(* header-form bits, version), each drawn from its boundary set.  Each       *)
(* decoder is transcribed check by check; EVERY slice / index / allocation  *)
(* expression of the code appears as an assertion  InB(lo, hi, len)  and a   *)
(* failed assertion classifies the shape "panic".  TLC enumerates the whole *)
(* shape space (every shape is an initial state) and the sequence models of *)
(* the stateful receivers (Defragger, Gecko reassembly table).               *)
(* HUGE stands for "the largest encodable value" (2^62-1 in a QUIC varint,  *)
(* 2^32-1 in a uint32 field); no arithmetic is done on it.                  *)
EXTENDS Prop_C03, TLC, Json

CONSTANTS FixUnprotect,   \* TRUE: UnProtect length-checks every packet (repaired D2); FALSE: long headers only (this tree)
          FixFragCount,   \* TRUE: FragUDPMessage discards > 255 fragments (repaired D1); FALSE: uint8 narrowing
          GeckoPadCheck,  \* FALSE: decodeFrame without the padLen bound            (mutant)
          TcpAddrCheck,   \* FALSE: ReadTCPRequest without addrLen > MaxAddressLength (mutant)
          UDPLenCheck,    \* FALSE: ParseUDPMessage without len(bs) <= lAddr          (mutant)
          PunchMin,       \* 33 = punchMinWireLen; 32 = window off by one            (mutant)
          FeedIdxCheck,   \* FALSE: Defragger.Feed without FragID >= FragCount        (mutant)
          Mode,           \* "shapes" | "seq" | "all"
          Only,           \* "" or the one decoder whose shapes are enumerated (mutant configurations)
          MaxSteps        \* length of the sequences into the stateful receivers

VARIABLES sh, pc, df, gk, steps, mon, hist
vars == <<sh, pc, df, gk, steps, mon, hist>>

HUGE == 2147483647
InB(lo, hi, len) == 0 <= lo /\ lo <= hi /\ hi <= len          \* s[lo:hi] on a slice with cap = len
VLen(x) == IF x <= 63 THEN 1 ELSE IF x <= 16383 THEN 2 ELSE IF x < HUGE THEN 4 ELSE 8
Fits(x, vl) == (vl = 1 => x <= 63) /\ (vl = 2 => x <= 16383) /\ (vl = 4 => x < HUGE)

\* ------------------------------------------------------------- core/internal/protocol: ParseUDPMessage (proxy.go:193-223)
UDPMsgShapes ==
  { s \in [dec : {"udpmsg"}, n : {0, 1, 7, 8, 9, 10, 11, 12, 13, 2057, 2058, 2059, 2060, 2061, 4096}, vlen : {1, 2, 4, 8},
           laddr : {0, 1, 2, 3, 63, 64, 2047, 2048, 2049, 16383, 16384, HUGE}] : Fits(s.laddr, s.vlen) }
UDPMsg(s) ==
  IF s.n < 8 THEN "reject"
  ELSE IF s.n - 8 < s.vlen THEN "reject"
  ELSE LET bs == s.n - 8 - s.vlen IN
       IF s.laddr = 0 \/ s.laddr > 2048 THEN "reject"
       ELSE IF UDPLenCheck /\ bs <= s.laddr THEN "reject"
       ELSE IF InB(0, s.laddr, bs) /\ InB(s.laddr, bs, bs) THEN "accept" ELSE "panic"

\* ------------------------------------------------------------- ReadTCPRequest / ReadTCPResponse (proxy.go:39-67, 93-129)
\* reader based: avail says what the stream holds when the field is read
Avails == {"vtrunc", "none", "short", "full"}
TcpReqShapes == { s \in [dec : {"tcpreq"}, alen : {0, 1, 63, 64, 2047, 2048, 2049, 16383, HUGE}, aavail : Avails,
                         plen : {0, 1, 4095, 4096, 4097, HUGE}, pavail : Avails] :
                    (s.aavail # "full" => s.plen = 0 /\ s.pavail = "full") }
TcpReq(s) ==
  IF s.aavail = "vtrunc" THEN "reject"
  ELSE IF s.alen = 0 \/ (TcpAddrCheck /\ s.alen > 2048) THEN "reject"
  ELSE IF s.alen = HUGE THEN "panic"                       \* make([]byte, 2^62-1)
  ELSE IF s.aavail # "full" THEN "reject"
  ELSE IF s.pavail = "vtrunc" THEN "reject"
  ELSE IF s.plen > 4096 THEN "reject"
  ELSE IF s.plen > 0 /\ s.pavail # "full" THEN "reject"
  ELSE "accept"

TcpRespShapes == { s \in [dec : {"tcpresp"}, status : {-1, 0, 1, 255}, alen : {0, 1, 2047, 2048, 2049, HUGE}, aavail : Avails,
                          plen : {0, 1, 4095, 4096, 4097, HUGE}, pavail : Avails] :
                     /\ (s.aavail # "full" => s.plen = 0 /\ s.pavail = "full")
                     /\ (s.status = -1 => s.alen = 0 /\ s.aavail = "full" /\ s.plen = 0 /\ s.pavail = "full") }
TcpResp(s) ==
  IF s.status = -1 THEN "reject"                           \* EOF before the status byte
  ELSE IF s.aavail = "vtrunc" THEN "reject"
  ELSE IF s.alen > 2048 THEN "reject"
  ELSE IF s.aavail # "full" THEN "reject"                  \* the stream ends inside / right after the message
  ELSE IF s.pavail = "vtrunc" THEN "reject"
  ELSE IF s.plen > 4096 THEN "reject"
  ELSE IF s.plen > 0 /\ s.pavail # "full" THEN "reject"
  ELSE "accept"

\* ------------------------------------------------------------- core/internal/frag: FragUDPMessage (frag.go:7-34)
FragShapes == [dec : {"frag"}, dlen : {1, 2, 9, 10, 254, 255, 256, 257, 509, 510, 511, 512, 2550, 2551, 4096},
               hdr : {10, 11}, limit : {0, 10, 11, 12, 13, 20, 21, 1200}]
CeilDiv(a, b) == (a + b - 1) \div b
Frag(s) ==
  IF s.hdr + s.dlen <= s.limit THEN "accept"
  ELSE LET mp == s.limit - s.hdr IN
       IF mp <= 0 THEN "reject"
       ELSE LET full == CeilDiv(s.dlen, mp) IN
            IF FixFragCount /\ full > 255 THEN "reject"
            ELSE LET cnt == full % 256 IN                 \* uint8(fullCount): len(frags)
                 \* the loop writes frags[fragID] for fragID = 0 .. full-1 (mod 256)
                 IF \A i \in 0..(full - 1) : InB(i % 256, (i % 256) + 1, cnt) THEN "accept" ELSE "panic"

\* ------------------------------------------------------------- extras/sniff/internal/quic: header.go, payload.go:24-60, packet_protector.go:46-79
QuicShapes ==
  { s \in [dec : {"quic"}, fb : {192, 64, 128, 208, 240, 80}, ver : {"v1", "v2", "zero", "other"},
           trunc : {"none", "fb", "ver", "dcil", "dcid", "scil", "scid", "tok", "len"},
           dcil : {0, 8, 255}, scil : {0, 255}, tokl : {0, 1, HUGE},
           plen : {0, 1, 4, 19, 20, 21, 40, HUGE}, body : {0, 1, 3, 4, 19, 20, 21, 39, 40, 41}, aead : BOOLEAN] :
      /\ (s.trunc # "none" => s.fb = 192 /\ s.ver = "v1" /\ s.scil = 0 /\ s.tokl = 0 /\ s.plen = 40 /\ s.body = 0 /\ ~s.aead
                              /\ (s.trunc = "dcid" => s.dcil > 0))
      /\ (s.trunc \in {"fb", "ver", "dcil", "scil", "tok", "len"} => s.dcil = 8)
      \* aead: the harness encrypts a real payload into this header.  Long headers only: in the short form header
      \* protection also masks bit 4, so the type bits the parser sees would not be the ones of the shape.
      /\ (s.aead => s.fb >= 128 /\ s.ver \in {"v1", "v2"} /\ s.plen \in {21, 40} /\ s.body >= s.plen /\ s.tokl # HUGE) }
IsInitialType(s) == ((s.fb \div 16) % 4) = (IF s.ver = "v2" THEN 1 ELSE 0)
QuicOff(s) == 1 + 4 + 1 + s.dcil + 1 + s.scil + (IF IsInitialType(s) THEN VLen(s.tokl) + s.tokl ELSE 0) + VLen(s.plen)
Quic(s) ==
  IF s.trunc # "none" THEN "reject"                                      \* EOF inside the header
  ELSE IF s.ver # "zero" /\ (s.fb \div 64) % 2 = 0 THEN "reject"       \* fixed bit
  ELSE IF IsInitialType(s) /\ s.tokl = HUGE THEN "reject"                \* token longer than the packet
  ELSE IF s.ver \notin {"v1", "v2"} THEN "reject"
  ELSE IF s.plen = 0 THEN "reject"
  ELSE IF s.plen = HUGE \/ s.body < s.plen THEN "reject"                 \* packet shorter than offset+Length
  ELSE LET off == QuicOff(s)
           L   == off + s.plen                                           \* len(packet[:offset+hdr.Length])
           long == s.fb >= 128 IN
       IF (FixUnprotect \/ long) /\ L < off + 4 + 16 THEN "reject"
       ELSE IF ~InB(off + 4, off + 4 + 16, L) THEN "panic"               \* sample := packet[sampleOffset:sampleOffset+16]
       ELSE IF ~(\A pnLen \in 1..4 : InB(off, off + pnLen, L)) THEN "panic"
       ELSE IF s.aead THEN "accept" ELSE "reject"

\* CRYPTO frames: extractCryptoFrames / assembleCryptoFrames (payload.go:81-148); up to two frames
FrameShapes == { f \in [t : {"pad", "ping", "crypto", "other", "tvar"}, off : {0, 1, 5, 262144, 262145, HUGE},
                        dl : {0, 1, 5, 262144, 262145, HUGE}, have : {"full", "short"}] :
                   /\ (f.t # "crypto" => f.off = 0 /\ f.dl = 0 /\ f.have = "full")
                   /\ (f.dl \in {0, HUGE} => f.have = (IF f.dl = 0 THEN "full" ELSE "short"))
                   /\ (f.dl = 262145 => f.have = "short") }
NoFrame == [t |-> "none", off |-> 0, dl |-> 0, have |-> "full"]
CFrameShapes == { s \in [dec : {"cframes"}, f1 : FrameShapes, f2 : FrameShapes \cup {NoFrame}] :
                    (s.f1.t \in {"other", "tvar"} \/ s.f1.have = "short" => s.f2 = NoFrame) }
FrameRejects(f) == f.t \in {"other", "tvar"} \/ (f.t = "crypto" /\ (f.dl > 262144 \/ f.have = "short"))
Plus(a, b) == IF a = HUGE \/ b = HUGE THEN HUGE ELSE a + b
CFrames(s) ==
  IF FrameRejects(s.f1) \/ FrameRejects(s.f2) THEN "reject"
  ELSE LET cs == SelectSeq(<<s.f1, s.f2>>, LAMBDA f : f.t = "crypto") IN
       IF Len(cs) = 0 THEN "reject"
       ELSE IF Len(cs) = 1 THEN "accept"
       ELSE LET a == IF cs[1].off <= cs[2].off THEN cs[1] ELSE cs[2]
                b == IF cs[1].off <= cs[2].off THEN cs[2] ELSE cs[1] IN
            IF b.off # Plus(a.off, a.dl) THEN "reject"
            ELSE IF b.off > 262144 THEN "reject"
            ELSE LET end == Plus(b.off, b.dl) IN
                 IF end > 262144 THEN "reject"
                 ELSE IF InB(a.off, end, end) /\ InB(b.off, end, end) THEN "accept" ELSE "panic"   \* copy(data[frame.Offset:], ...)

\* ------------------------------------------------------------- extras/obfs: Salamander Deobfuscate (salamander.go:75-88) behind obfsPacketConn.ReadFrom
SalShapes == { s \in [dec : {"salamander"}, n : {1, 7, 8, 9, 10, 100, 2048}, out : {0, 1, 2, 91, 92, 93, 2040, 2048}] : TRUE }
Sal(s) ==
  LET outLen == s.n - 8 IN
  IF outLen <= 0 \/ s.out < outLen THEN "reject"
  ELSE IF InB(0, 8, s.n) /\ InB(8, s.n, s.n) /\ InB(0, outLen, s.out) THEN "accept" ELSE "panic"

\* Gecko frame header: decodeFrame (gecko_frame.go:63-86)
GeckoShapes == { s \in [dec : {"gecko"}, n : {1, 4, 5, 6, 7, 100}, flag : BOOLEAN, tot : {0, 1, 2, 8, 9, 15}, idx : {0, 1, 7, 8, 15},
                        pad : {0, 1, 2, 3, 94, 95, 96, 65535}] : TRUE }
Gecko(s) ==
  IF s.n < 5 THEN "reject"
  ELSE IF ~s.flag THEN "reject"                               \* not a fragment frame (ReadFrom passes such packets through before decoding)
  ELSE IF s.tot < 2 \/ s.tot > 8 THEN "reject"
  ELSE IF s.idx >= s.tot THEN "reject"
  ELSE IF GeckoPadCheck /\ 5 + s.pad > s.n THEN "reject"
  ELSE IF InB(5 + s.pad, s.n, s.n) THEN "accept" ELSE "panic"  \* in[geckoHeaderSize+padLen:]

\* ------------------------------------------------------------- extras/realm: DecodePunchPacket (punch.go:72-100)
PunchShapes == [dec : {"punch"}, n : {0, 1, 8, 31, 32, 33, 34, 1056, 1057, 1058, 1500}, magic : BOOLEAN, typ : {0, 1, 2, 3}, nonce : BOOLEAN]
Punch(s) ==
  IF s.n < PunchMin \/ s.n > 1057 THEN "reject"
  ELSE LET pl == s.n - 8 IN                                   \* plain := packet[8:]
       IF ~InB(0, 8, s.n) \/ ~InB(0, 8, pl) THEN "panic"
       ELSE IF ~s.magic THEN "reject"
       ELSE IF ~InB(8, 9, pl) THEN "panic"
       ELSE IF s.typ \notin {1, 2} THEN "reject"
       ELSE IF ~InB(9, 25, pl) THEN "panic"
       ELSE IF ~s.nonce THEN "reject" ELSE "accept"

\* ------------------------------------------------------------- extras/outbounds/speedtest: server (server.go:24-106), client readers (protocol.go)
SpeedSrvShapes == { s \in [dec : {"speedsrv"}, typ : {-1, 0, 1, 2, 3, 255}, lenb : 0..4, l : {0, 1, 65535, 65536, 65537, HUGE},
                           sup : {"none", "short", "full", "more"}] :
                      /\ (s.typ \notin {1, 2} => s.lenb = 4 /\ s.l = 0 /\ s.sup = "none")
                      /\ (s.lenb < 4 => s.l = 0 /\ s.sup = "none")
                      /\ (s.typ = 1 => s.sup = "none")
                      /\ (s.l = 0 => s.sup = "none") /\ (s.l = HUGE => s.sup \in {"none", "short"}) }
SpeedSrv(s) ==
  IF s.typ \notin {1, 2} THEN "reject"
  ELSE IF s.lenb < 4 THEN "reject"
  ELSE IF s.typ = 1 THEN (IF s.l = HUGE THEN "reject" ELSE "accept")   \* download: streams l bytes in 64 KiB slices of one buffer; 4 GiB: the peer leaves first
  ELSE IF s.l = 0 THEN "accept"
  ELSE IF s.sup \in {"none", "short"} THEN "reject" ELSE "accept"

SpeedCliShapes == { s \in [dec : {"speedcli"}, status : {-1, 0, 1, 7}, lenb : 0..2, l : {0, 1, 65535}, have : {"full", "short"}] :
                      /\ (s.status = -1 => s.lenb = 2 /\ s.l = 0 /\ s.have = "full")
                      /\ (s.lenb < 2 => s.l = 0 /\ s.have = "full") /\ (s.l = 0 => s.have = "full") }
SpeedCli(s) == IF s.status = -1 \/ s.lenb < 2 THEN "reject" ELSE IF s.l > 0 /\ s.have = "short" THEN "reject" ELSE "accept"

\* ------------------------------------------------------------- dispatch
Outcome(s) ==
  CASE s.dec = "udpmsg"     -> UDPMsg(s)
    [] s.dec = "tcpreq"     -> TcpReq(s)
    [] s.dec = "tcpresp"    -> TcpResp(s)
    [] s.dec = "frag"       -> Frag(s)
    [] s.dec = "quic"       -> Quic(s)
    [] s.dec = "cframes"    -> CFrames(s)
    [] s.dec = "salamander" -> Sal(s)
    [] s.dec = "gecko"      -> Gecko(s)
    [] s.dec = "punch"      -> Punch(s)
    [] s.dec = "speedsrv"   -> SpeedSrv(s)
    [] s.dec = "speedcli"   -> SpeedCli(s)

DecEvent(d, o) == [ev |-> "Dec", scn |-> 0, dec |-> d, outcome |-> o, expect |-> IF o = "panic" THEN "any" ELSE o]

ShapeStep == /\ pc = "shape"
             /\ mon' = MonStep(mon, DecEvent(sh.dec, Outcome(sh)), 0)
             /\ pc' = "done"
             /\ UNCHANGED <<sh, df, gk, steps, hist>>

\* ------------------------------------------------------------- sequences into the Defragger (frag.go:47-80)
\* df = [pkt, len (= len(d.frags)), got (filled indices), count]
FeedArgs == [pkt : {0, 1}, fid : {0, 1, 2, 3}, cnt : {0, 1, 2, 3}]
FeedRes(m) ==    \* <<outcome, df'>>
  IF m.cnt <= 1 THEN <<"accept", df>>
  ELSE IF FeedIdxCheck /\ m.fid >= m.cnt THEN <<"reject", df>>
  ELSE IF m.pkt # df.pkt \/ m.cnt # df.len
       THEN IF InB(m.fid, m.fid + 1, m.cnt) THEN <<"reject", [pkt |-> m.pkt, len |-> m.cnt, got |-> {m.fid}, count |-> 1]>>
            ELSE <<"panic", df>>
  ELSE IF ~InB(m.fid, m.fid + 1, df.len) THEN <<"panic", df>>
  ELSE IF m.fid \notin df.got
       THEN LET d2 == [df EXCEPT !.got = df.got \cup {m.fid}, !.count = df.count + 1] IN
            IF d2.count = d2.len THEN <<"accept", d2>> ELSE <<"reject", d2>>
  ELSE <<"reject", df>>

FeedStep == /\ pc = "feedseq" /\ steps < MaxSteps
            /\ \E m \in FeedArgs :
                 LET r == FeedRes(m) IN
                 /\ mon' = MonStep(mon, DecEvent("feed", r[1]), 0)
                 /\ df' = r[2]
                 /\ hist' = Append(hist, [pkt |-> m.pkt, fid |-> m.fid, cnt |-> m.cnt, expect |-> IF r[1] = "panic" THEN "any" ELSE r[1]])
            /\ steps' = steps + 1
            /\ UNCHANGED <<sh, pc, gk>>

\* ------------------------------------------------------------- sequences into the Gecko reassembly table (gecko.go:198-247)
\* gk: function (src, id) -> [tot, got]; frames here already passed decodeFrame (2 <= tot <= 8, idx < tot)
GkArgs == { a \in [src : {"a", "b"}, id : {1, 2}, idx : {0, 1, 2}, tot : {2, 3}] : a.idx < a.tot }
GkRes(a) ==
  LET k == <<a.src, a.id>> IN
  IF k \in DOMAIN gk /\ gk[k].tot # a.tot THEN <<"reject", gk>>
  ELSE LET e == IF k \in DOMAIN gk THEN gk[k] ELSE [tot |-> a.tot, got |-> {}] IN
       IF a.idx >= e.tot \/ a.idx \in e.got THEN <<"reject", (k :> e) @@ gk>>
       ELSE IF ~InB(a.idx, a.idx + 1, e.tot) THEN <<"panic", gk>>
       ELSE LET e2 == [e EXCEPT !.got = e.got \cup {a.idx}] IN
            IF Cardinality(e2.got) < e2.tot THEN <<"reject", (k :> e2) @@ gk>>
            ELSE <<"accept", [x \in (DOMAIN gk) \ {k} |-> gk[x]]>>

GkStep == /\ pc = "geckoseq" /\ steps < MaxSteps
          /\ \E a \in GkArgs :
               LET r == GkRes(a) IN
               /\ mon' = MonStep(mon, DecEvent("geckochunk", r[1]), 0)
               /\ gk' = r[2]
               /\ hist' = Append(hist, [src |-> a.src, id |-> a.id, idx |-> a.idx, tot |-> a.tot, expect |-> r[1]])
          /\ steps' = steps + 1
          /\ UNCHANGED <<sh, pc, df>>

\* -------------------------------------------------------------
On(d) == Only = "" \/ Only = d
AllShapes(s) ==
  \/ (On("udpmsg") /\ s \in UDPMsgShapes)
  \/ (On("tcpreq") /\ s \in TcpReqShapes)
  \/ (On("tcpresp") /\ s \in TcpRespShapes)
  \/ (On("frag") /\ s \in FragShapes)
  \/ (On("quic") /\ s \in QuicShapes)
  \/ (On("cframes") /\ s \in CFrameShapes)
  \/ (On("salamander") /\ s \in SalShapes)
  \/ (On("gecko") /\ s \in GeckoShapes)
  \/ (On("punch") /\ s \in PunchShapes)
  \/ (On("speedsrv") /\ s \in SpeedSrvShapes)
  \/ (On("speedcli") /\ s \in SpeedCliShapes)

Init == /\ \/ Mode \in {"shapes", "all"} /\ pc = "shape" /\ AllShapes(sh)
           \/ Mode \in {"seq", "all"} /\ pc \in {"feedseq", "geckoseq"} /\ sh = [dec |-> pc]
        /\ df = [pkt |-> 0, len |-> 0, got |-> {}, count |-> 0]
        /\ gk = <<>>
        /\ steps = 0 /\ hist = <<>> /\ mon = MonInit

Next == ShapeStep \/ FeedStep \/ GkStep
Spec == Init /\ [][Next]_vars
GenSpec == Init /\ [][FALSE]_vars

NoViolation == mon.viol = {}
View == <<sh, pc, df, gk, steps, mon>>
PrintShape == (pc = "shape") => PrintT(<<"SCN", ToJson([dec |-> sh.dec, sh |-> sh, expect |-> LET o == Outcome(sh) IN IF o = "panic" THEN "any" ELSE o])>>)
PrintSeq == (steps = MaxSteps) => PrintT(<<"SCN", ToJson([dec |-> pc, steps |-> hist])>>)
=============================================================================
