----------------------------- MODULE Prop_C16 -----------------------------
(* C16 - reconnecting client: one live connection, reconnect on loss,       *)
(* Close is final.                                                          *)
(*  Config(ok)         configFunc evaluated          FactoryNew(sock, ok)   *)
(*  SockClose(sock)    a factory socket was closed   Connected(count)       *)
(*  Call(g)  Ret(g, kind)  a TCP()/UDP() call by caller g and its result:   *)
(*         kind = "ok" | "closed" (ClosedError) | "limit" (stream limit,    *)
(*         recoverable) | "cfgerr" (config/connect failure) | "other"       *)
(*  Kill(sock)         the harness made the transport socket a black hole   *)
(*                     and let the idle timeout pass                        *)
(*  CloseRet           Close() returned                                     *)
(*  Quiesce(open)      quiescent point: factory sockets still open          *)
EXTENDS Mon

MonInit == [viol |-> {}, last |-> 0, made |-> {}, count |-> 0, ncfg |-> 0, closedFinal |-> FALSE,
            cfgAtConnect |-> 0,    \* number of configuration evaluations seen when the latest connection was reported
            lossKills |-> 0,       \* number of kills the harness had made when the latest loss was reported
            lost |-> FALSE,        \* a call on the current connection reported it closed; nobody has reconnected since
            limitAt |-> FALSE,     \* a recoverable error was just reported; no reconnect may follow from it
            killed |-> {},
            started |-> <<>>]      \* g -> [need: the call started after a loss report, ncfg, nk: counters at its start]

Put(f, k, v) == [x \in (DOMAIN f) \cup {k} |-> IF x = k THEN v ELSE f[x]]

MonStep(m, e, ln) ==
  CASE e.ev = "Reset" -> [MonInit EXCEPT !.viol = m.viol]
    [] e.ev = "Config" ->
         [m EXCEPT !.ncfg = @ + 1,
                   !.viol = VAll(m.viol, e, ln,
            << <<"CloseFinal_ConfigAfterClose", m.closedFinal>>,
               <<"NoReconnectOnRecoverable", m.limitAt /\ ~m.lost>> >>)]
    [] e.ev = "FactoryNew" ->
         [m EXCEPT !.last = IF e.ok THEN e.sock ELSE @, !.made = IF e.ok THEN @ \cup {e.sock} ELSE @,
                   !.viol = VAll(m.viol, e, ln, << <<"CloseFinal_SocketAfterClose", m.closedFinal>> >>)]
    [] e.ev = "Connected" ->
         [m EXCEPT !.count = e.count, !.lost = FALSE, !.cfgAtConnect = m.ncfg,
                   !.viol = VAll(m.viol, e, ln,
            << <<"ConnectCount", e.count # m.count + 1>>,
               \* every new connection is built from a configuration evaluated for it
               <<"FreshConfig", m.ncfg = m.cfgAtConnect>> >>)]
    [] e.ev = "Kill" -> [m EXCEPT !.killed = @ \cup {e.sock}, !.limitAt = FALSE]
    [] e.ev = "Call" -> [m EXCEPT !.started = Put(m.started, e.g, [need |-> m.lost /\ Cardinality(m.killed) = m.lossKills, ncfg |-> m.ncfg, nk |-> Cardinality(m.killed)])]
    [] e.ev = "Ret" ->
         LET st == IF e.g \in DOMAIN m.started THEN m.started[e.g] ELSE [need |-> FALSE, ncfg |-> m.ncfg, nk |-> 0]
             \* a loss report counts only if no connection was killed while the call ran: otherwise the report may be
             \* about an older connection than the current one (the monitor cannot tell) and is ignored
             current == e.kind = "closed" /\ ~m.closedFinal /\ st.nk = Cardinality(m.killed)
         IN
         [m EXCEPT !.lost = IF current THEN TRUE ELSE @, !.lossKills = IF current THEN Cardinality(m.killed) ELSE @,
                   !.limitAt = IF e.kind = "limit" THEN TRUE ELSE IF e.kind = "closed" THEN FALSE ELSE @,
                   !.viol = VAll(m.viol, e, ln,
            << <<"CloseFinal_CallSucceeds", m.closedFinal /\ e.kind # "closed">>,
               \* a call that started after a loss was reported, saw no new loss, evaluated no configuration
               \* and still reports a closed connection: the client did not reconnect
               <<"ReconnectOnLoss", ~m.closedFinal /\ st.need /\ m.ncfg = st.ncfg /\ e.kind = "closed"
                                    /\ Cardinality(m.killed) = st.nk>> >>)]
    [] e.ev = "CloseRet" -> [m EXCEPT !.closedFinal = TRUE]
    [] e.ev = "Quiesce" ->
         LET open == {e.open[i] : i \in 1..Len(e.open)} IN
         [m EXCEPT !.viol = VAll(m.viol, e, ln,
            << <<"AtMostOne", Cardinality(open) > 1>>,
               <<"SupersededClosed", \E s \in open : s # m.last>>,
               <<"CloseFinal_SocketOpen", m.closedFinal /\ open # {}>> >>)]
    [] e.ev = "Panic" -> [m EXCEPT !.viol = V(m.viol, e, ln, "Panic", TRUE)]
    [] OTHER -> m
===========================================================================
