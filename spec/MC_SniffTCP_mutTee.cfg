SPECIFICATION Spec
CONSTANTS MaxL = 6  MaxT = 3  BufSz = 2  Cap = 5
  KeepProbe = TRUE  ProbeShort = TRUE  TeeOnErr = FALSE  PadShort = FALSE  PortFromHost = FALSE  Pooled = FALSE  InPlace = FALSE
INVARIANT NoViolation
CHECK_DEADLOCK FALSE
