SPECIFICATION Spec
CONSTANTS MaxConn = 2  Msgs = {1, 2}  MaxCnt = 2  ChanCap = 2  MaxInject = 4  RouteByID = TRUE  DeleteOnClose = TRUE  FreshIDs = TRUE  SendUnderLock = FALSE
INVARIANTS NoViolation NoSendOnClosedChannel
CHECK_DEADLOCK FALSE
