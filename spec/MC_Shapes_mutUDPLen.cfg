SPECIFICATION Spec
CONSTANTS FixUnprotect = TRUE  FixFragCount = TRUE  GeckoPadCheck = TRUE  TcpAddrCheck = TRUE
  UDPLenCheck = FALSE  PunchMin = 33  FeedIdxCheck = TRUE  Mode = "shapes"  Only = "udpmsg"  MaxSteps = 4
INVARIANT NoViolation
VIEW View
CHECK_DEADLOCK FALSE
