--------------------------- MODULE Sys_PortUnion ---------------------------
(* Model of extras/utils/portunion.go (ParsePortUnion, Normalize, Ports,     *)
(* Contains) and of extras/transport/udphop/addr.go (one address per port),  *)
(* transcribed branch by branch, over the port universe 0..MaxPort.          *)
(* Every expression of at most MaxItems items is an initial state; the Parse *)
(* step emits the event the harness records from the real functions.         *)
(* The Lemma step checks, for every set S of ports, that the interval-based  *)
(* set equality the monitor uses at real scale (Prop_C19!SetEq) coincides    *)
(* with equality of the explicit sets.                                       *)
EXTENDS Prop_C19, TLC, Json, FiniteSetsExt

CONSTANTS MaxPort, MaxItems,
          Lemma,       \* TRUE: also check SetEq against explicit sets
          Mut          \* "none" | "gap2" (merge across a gap of one port) | "noswap" (reversed range kept as is)
                       \* | "skip0" (Ports leaves out port 0)

VARIABLES expr, done, mon
vars == <<expr, done, mon>>

P == 0..MaxPort
ItemSet == {<<0, p, p>> : p \in P} \cup {<<1, a, b>> : a \in P, b \in P} \cup {<<2, 0, 0>>, <<3, 0, 0>>}
Exprs == UNION {[1..n -> ItemSet] : n \in 1..MaxItems}

\* ---- explicit sets (only here, where the universe is tiny) ----
Denote(items) == {p \in P : Cov(items, p)}
RunEnd(S, s)  == CHOOSE q \in S : q >= s /\ (s..q) \subseteq S /\ (q + 1) \notin S
Canon(S)      == LET starts == {p \in S : (p - 1) \notin S}
                     ss == SetToSortSeq(starts, <)
                 IN [i \in 1..Len(ss) |-> <<ss[i], RunEnd(S, ss[i])>>]

\* ---- portunion.go:21-61 ParsePortUnion (the string level is the harness' business) ----
ParseRanges(items) ==
  IF \E i \in 1..Len(items) : ~Valid(items[i]) THEN <<>>        \* nil
  ELSE [i \in 1..Len(items) |->
          IF items[i][2] > items[i][3] /\ Mut # "noswap" THEN <<items[i][3], items[i][2]>>
          ELSE <<items[i][2], items[i][3]>>]

\* ---- portunion.go:65-87 Normalize ----
Less(a, b) == IF a[1] = b[1] THEN a[2] < b[2] ELSE a[1] < b[1]
Gap == IF Mut = "gap2" THEN 2 ELSE 1
MergeStep(acc, cur) ==
  IF acc = <<>> THEN <<cur>>
  ELSE LET last == acc[Len(acc)] IN
       IF cur[1] <= last[2] + Gap
       THEN (IF cur[2] > last[2] THEN [acc EXCEPT ![Len(acc)] = <<last[1], cur[2]>>] ELSE acc)
       ELSE Append(acc, cur)
Normalize(u) == FoldLeft(MergeStep, <<>>, SortSeq(u, Less))

\* ---- portunion.go:90-98 Ports, :101-108 Contains ----
Ports(u) == LET all == FoldLeft(LAMBDA acc, r : acc \o [k \in 1..Max2(0, r[2] - r[1] + 1) |-> r[1] + k - 1], <<>>, u)
            IN IF Mut = "skip0" THEN SelectSeq(all, LAMBDA p : p # 0) ELSE all
UContains(u, p) == \E j \in 1..Len(u) : u[j][1] <= p /\ p <= u[j][2]

ParseEvent(items) ==
  LET rs    == ParseRanges(items)
      isnil == rs = <<>>
      res   == IF isnil THEN <<>> ELSE Normalize(rs)
      ps    == Ports(res)
      pset  == {ps[i] : i \in 1..Len(ps)}
      probes == UNION {{items[i][2] - 1, items[i][2], items[i][3], items[i][3] + 1, ILo(items[i]) + 1} : i \in 1..Len(items)} \cap P
      pseq  == SetToSortSeq(probes, <)
  IN [ev |-> "Parse", scn |-> 0, items |-> items, isnil |-> isnil, res |-> res,
      ports |-> Canon(pset), np |-> Len(ps),
      strict |-> \A i \in 1..(Len(ps) - 1) : ps[i] < ps[i + 1],
      \* addr.go:34-67: one UDPAddr per port, error iff the union is nil
      hop |-> Canon(pset), hopErr |-> isnil, hopIp |-> TRUE,
      cont |-> [i \in 1..Len(pseq) |-> <<pseq[i], IF UContains(res, pseq[i]) THEN 1 ELSE 0>>]]

Parse == /\ ~done
         /\ mon' = MonStep(mon, ParseEvent(expr), 0)
         /\ done' = TRUE
         /\ UNCHANGED expr

\* SetEq (interval reasoning) = equality of explicit sets, for every canonical interval list
LemmaStep == /\ Lemma /\ ~done
             /\ \E S \in SUBSET P :
                  LET R == Canon(S)
                      bad == \/ SetEq(expr, R) # (Denote(expr) = S)
                             \/ Sup(expr, R) # (S \subseteq Denote(expr))
                             \/ Sub(expr, R) # (Denote(expr) \subseteq S)
                             \/ ~Canonical(R)
                  IN mon' = [mon EXCEPT !.viol = V(mon.viol, [scn |-> 0], 0, "LemmaBroken", bad)]
             /\ UNCHANGED <<expr, done>>

Init == expr \in Exprs /\ done = FALSE /\ mon = MonInit
Next == Parse \/ LemmaStep
Spec == Init /\ [][Next]_vars

NoViolation == mon.viol = {}
PrintScn == done => PrintT(<<"SCN", ToJson(expr)>>)
=============================================================================
