SPECIFICATION Spec
CONSTANTS NU = 1  NG = 0  NC = 2  MaxOps = 5  Spurious = FALSE
  Amts <- A1  Ops <- OpsNone  KickSets <- KS1
  ClearAtomic = TRUE  LogAtomic = TRUE  KickConsume = TRUE  OfflineOnVeto = FALSE  CloseOnLateVeto = TRUE  AuthAtomic = TRUE  OnlineFloor = TRUE
INVARIANT NoViolation
VIEW View
CHECK_DEADLOCK FALSE
