---- MODULE Trace_TEMPLATE ----
(* Template of every trace specification; hv/core.py instantiates it per property        *)
(* monitor (Prop_Cnn or Prop_Cnn_x) as Trace_<monitor>.tla in the run's scratch directory. *)
(* One state per trace line; the monitor is total, so the search is linear.  All          *)
(* violations are accumulated in mon.viol and printed once the last line is consumed.     *)
EXTENDS Prop_TEMPLATE, TraceKit
VARIABLES l, mon, fin
TInit == l = 1 /\ mon = MonInit /\ fin = FALSE
TStep == l <= Len(Trace) /\ mon' = MonStep(mon, Trace[l], l) /\ l' = l + 1 /\ UNCHANGED fin
TFin  == l = Len(Trace) + 1 /\ ~fin /\ fin' = TRUE /\ PrintT(<<"VIOLSET", ToJson(mon.viol)>>) /\ UNCHANGED <<l, mon>>
TSpec == TInit /\ [][TStep \/ TFin]_<<l, mon, fin>>
Accepted == TLCGet("stats").diameter = Len(Trace) + 2
====
