------------------------------- MODULE Mon -------------------------------
(* Helpers shared by all property monitors (Prop_Cnn).                    *)
(* A monitor is a pure function  MonStep(m, e, ln)  over a record state m *)
(* with a field viol (set of violation records).  The same operator is    *)
(* driven by the system model (MC configs: INVARIANT m.viol = {}) and by  *)
(* the trace specification (events recorded from the real code).          *)
EXTENDS Integers, Sequences, FiniteSets, SequencesExt

\* V(m, e, ln, clause, bad): add a violation record when `bad` holds
V(viol, e, ln, clause, bad) ==
    \* at most 8 records per clause and 60 in all: one noisy clause must not hide the others
    IF bad /\ Cardinality(viol) < 60 /\ Cardinality({v \in viol : v.clause = clause}) < 8
    THEN viol \cup {[clause |-> clause, scn |-> e.scn, line |-> ln]}
    ELSE viol

\* several clauses at once: cs is a sequence of <<clause, bad>>
RECURSIVE VAll(_, _, _, _)
VAll(viol, e, ln, cs) ==
    IF cs = <<>> THEN viol
    ELSE VAll(V(viol, e, ln, cs[1][1], cs[1][2]), e, ln, Tail(cs))

SeqSum(s) == FoldLeft(LAMBDA a, b : a + b, 0, s)
Min2(a, b) == IF a < b THEN a ELSE b
Max2(a, b) == IF a > b THEN a ELSE b
==========================================================================
