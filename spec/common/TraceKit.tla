---------------------------- MODULE TraceKit ----------------------------
(* Shared plumbing for every trace specification.                         *)
(* The trace is an ndjson file (one event record per line) recorded from  *)
(* the real code; its path comes from the environment (VERIF_TRACE).      *)
EXTENDS Integers, Sequences, TLC, Json, IOUtils

Trace == ndJsonDeserialize(IOEnv.VERIF_TRACE)

\* cap on the number of accumulated violations (a badly broken tree would
\* otherwise build a huge set; the first ones are what matters)
ViolCap == 40
==========================================================================
