----------------------------- MODULE Prop_C02 -----------------------------
(* C02 - unauthenticated peers see only the masquerade web server.          *)
(*  HTTPResp(conn, op, method, host, path, credok, status, hyHdr, same)     *)
(*     method/host/path as the client sent them; credok: the configured     *)
(*     authenticator accepts the credentials carried by the request;        *)
(*     hyHdr: some response header name starts with "Hysteria-";            *)
(*     same: status, headers (minus Date) and body equal those of a stock   *)
(*     HTTP/3 server running the same masquerade handler on this request.   *)
(*  StreamOutcome(conn, op, cls, oracle)  what a raw 0x401 stream observed  *)
(*     ("silent", "reset:<code>", "closed:<code>", "bytes") vs the oracle   *)
(*  DgramRecv(conn, n)  the raw peer received a QUIC datagram of n bytes    *)
(*     from the server (a stock web server never sends one)                 *)
(*  AuthCall(conn, ok)  as in C01 (tells which connections are accepted)    *)
EXTENDS Mon

MonInit == [viol |-> {}, accepted |-> {}, sentUnauthed |-> {}, pending |-> {}]

IsAuthReq(e) == e.method = "POST" /\ e.host = "hysteria" /\ e.path = "/auth"

MonStep(m, e, ln) ==
  CASE e.ev = "Reset" -> [MonInit EXCEPT !.viol = m.viol]
    [] e.ev = "AuthCall" -> [m EXCEPT !.accepted = IF e.ok THEN m.accepted \cup {e.conn} ELSE m.accepted]
    [] e.ev = "HTTPReqSent" -> [m EXCEPT !.pending = @ \cup {<<e.conn, e.op>>}]
    \* appended by hv when the driver stalled for good (go test timed out): a request that was sent and never
    \* answered while the whole system stood still has not received the masquerade handler's response
    [] e.ev = "Aborted" -> [m EXCEPT !.viol = VAll(m.viol, e, ln, << <<"Masq_NoResponse", m.pending # {}>> >>)]
    [] e.ev = "HTTPResp" ->
         LET acceptedReq == IsAuthReq(e) /\ (e.credok \/ e.conn \in m.accepted) IN
         [m EXCEPT !.pending = @ \ {<<e.conn, e.op>>},
                   !.viol = VAll(m.viol, e, ln,
            << <<"Masq_Status233",      ~acceptedReq /\ e.status = 233>>,
               <<"Masq_HysteriaHeader", ~acceptedReq /\ e.hyHdr>>,
               <<"Masq_NotHandlerResponse", ~acceptedReq /\ ~e.same>> >>)]
    [] e.ev = "StreamSent" ->
         [m EXCEPT !.sentUnauthed = IF e.conn \notin m.accepted THEN m.sentUnauthed \cup {<<e.conn, e.op>>} ELSE m.sentUnauthed]
    [] e.ev = "StreamOutcome" ->
         LET un == <<e.conn, e.op>> \in m.sentUnauthed /\ e.conn \notin m.accepted IN
         [m EXCEPT !.viol = VAll(m.viol, e, ln,
            << <<"NoProtocolReply", un /\ e.cls = "bytes">>,
               <<"NoProtocolReply_DiffersFromWebServer", un /\ e.cls # e.oracle>> >>)]
    [] e.ev = "DgramRecv" ->
         [m EXCEPT !.viol = V(@, e, ln, "NoProtocolReply_Datagram", e.conn \notin m.accepted)]
    [] OTHER -> m
===========================================================================
