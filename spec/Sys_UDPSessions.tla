-------------------------- MODULE Sys_UDPSessions --------------------------
(* Model of core/server/udp.go at lock granularity.                         *)
(*                                                                          *)
(* Processes: Rx (udpSessionManager.Run: ReceiveMessage -> feed), one reply *)
(* loop per entry (receiveLoop), the idle sweeper (idleCleanupLoop), and    *)
(* the environment (client datagrams, remote replies, socket/dial/send      *)
(* faults, connection loss, time).  CloseWithErr is three steps:            *)
(*   cA [connLock]  closed? / closed := TRUE / close socket                 *)
(*   cB             event logger Close                                      *)
(*   cC [mutex]     delete(m, ID)   -- by ID, as the code does              *)
(* Time advances only when every process is blocked (as in the synctest     *)
(* bubble the real code is driven in); all races happen within an instant.  *)
(* Every action feeds the events the fakes would log into both property     *)
(* monitors (C07 isolation/expiry/leaks, C08 destination policy).           *)
EXTENDS Integers, Sequences, FiniteSets, TLC, Json

C07 == INSTANCE Prop_C07
C08 == INSTANCE Prop_C08

CONSTANTS IDs, MaxDg, MaxRep, MaxEnt, Idle, MaxT, MaxFault,
          Dsts, Allow,          \* destinations and the policy
          HookMap,              \* function Dsts -> Dsts (identity = not rewritten); hook consulted on the first datagram
          AclCap,               \* capacity of the per-session decision cache
          \* switches that remove one guard each (model mutants, TRUE = code as written)
          GuardClosedInInit,    \* initConn refuses to dial when the entry is already closed
          GuardCloseOnce,       \* CloseWithErr returns early when already closed
          TouchOnReply,         \* reply loop refreshes the last-activity time
          CheckEveryDgram,      \* policy checked for every datagram (not only while the cache has room)
          LockAcrossDial,       \* TRUE: connLock is held from the closed-check to the attachment of the socket (FALSE: released during the dial)
          FailPathCloses,       \* TRUE: a failed dial goes through CloseWithErr (sets closed); FALSE: calls ExitFunc directly
          FragHdr,              \* TRUE: a complete datagram may be the last fragment of a packet whose first fragment named another destination
          VetWritten,           \* TRUE: the destination that is vetted is the one the datagram is written to (mutant: the one the packet's first fragment named)
          VetRewritten,         \* TRUE: the dial is made with the address the hook returned (mutant: with the original one)
          StampOwnID,           \* reply loop stamps the entry's own ID
          GenHist,              \* record the environment's actions in hist (generator configs)
          SplitExit             \* TRUE: ExitFunc's event and map delete are separate steps (finer, bigger)

VARIABLES ents, map, socks, rx, rl, sw, now, ndg, nrep, nfault, down, mon7, mon8,
          hist      \* environment actions so far (scenario generation only; constant <<>> when GenHist = FALSE)

vars == <<ents, map, socks, rx, rl, sw, now, ndg, nrep, nfault, down, mon7, mon8, hist>>
H(op) == hist' = IF GenHist THEN Append(hist, op) ELSE hist

NoEnt == 0
Ev(m7, m8, e) == /\ mon7' = C07!MonStep(m7, e, 0)
                 /\ mon8' = C08!MonStep(m8, e, 0)
Feed1(e) == Ev(mon7, mon8, e)
Feed2(e1, e2) == /\ mon7' = C07!MonStep(C07!MonStep(mon7, e1, 0), e2, 0)
                 /\ mon8' = C08!MonStep(C08!MonStep(mon8, e1, 0), e2, 0)
NoEvent == UNCHANGED <<mon7, mon8>>

Base(name) == [ev |-> name, scn |-> 0, t |-> now]

\* ------------------------------------------------------------------ CloseWithErr
\* cA on entry e: returns <<ents', socks', event-or-"none", skipRest>>
CloseA(e) ==
  IF ents[e].closed /\ GuardCloseOnce THEN <<ents, socks, [ev |-> "none", scn |-> 0], TRUE>>
  ELSE LET k == ents[e].conn IN
       << [ents EXCEPT ![e].closed = TRUE],
          IF k # 0 THEN [socks EXCEPT ![k].open = FALSE] ELSE socks,
          IF k # 0 THEN Base("SockClose") @@ [sock |-> k] ELSE [ev |-> "none", scn |-> 0],
          FALSE >>

EvCloseEvent(e, nilerr) == Base("EvClose") @@ [sid |-> ents[e].id, nilerr |-> nilerr]
DeleteByID(e) == [map EXCEPT ![ents[e].id] = NoEnt]

\* ------------------------------------------------------------------ Rx
RxIdle == rx.pc = "idle"

\* environment: the client sends a datagram (complete, or a lone first fragment)
\* `first`: the destination named by the first fragment of the packet this datagram completes (= dst when the packet
\* is not fragmented or the peer repeats the same header in every fragment, as honest clients do)
Arrive(sid, dst, complete, first) ==
  /\ RxIdle /\ ~down /\ ndg < MaxDg
  /\ H([op |-> "dg", sid |-> sid, dst |-> dst, complete |-> complete, e |-> 0, src |-> 0, first |-> first])
  /\ ndg' = ndg + 1
  /\ rx' = [pc |-> "look", sid |-> sid, dst |-> dst, ent |-> NoEnt, complete |-> complete, first |-> first, tag |-> ndg + 1, nilerr |-> FALSE, todo |-> <<>>]
  /\ Feed1(Base("Dgram") @@ [sid |-> sid, dst |-> dst, tag |-> ndg + 1, complete |-> complete])
  /\ UNCHANGED <<ents, map, socks, rl, sw, now, nrep, nfault, down>>

RxLook ==                                  \* [RLock] lookup, [Lock] create + insert on a miss
  /\ rx.pc = "look"
  /\ UNCHANGED hist
  /\ IF map[rx.sid] # NoEnt
     THEN /\ rx' = [rx EXCEPT !.pc = "touch", !.ent = map[rx.sid]]
          /\ UNCHANGED <<ents, map, rl>>
     ELSE /\ Len(ents) < MaxEnt
          /\ ents' = Append(ents, [id |-> rx.sid, closed |-> FALSE, conn |-> 0, last |-> now, to |-> 0, orig |-> 0, acl |-> {}])
          /\ rl' = Append(rl, [pc |-> "none", tag |-> 0, src |-> 0])
          /\ map' = [map EXCEPT ![rx.sid] = Len(ents) + 1]
          /\ rx' = [rx EXCEPT !.pc = "touch", !.ent = Len(ents) + 1]
  /\ NoEvent /\ UNCHANGED <<socks, sw, now, ndg, nrep, nfault, down>>

RxTouch ==                                 \* Last.Set(now); Defragger
  /\ rx.pc = "touch"
  /\ UNCHANGED hist
  /\ ents' = [ents EXCEPT ![rx.ent].last = now]
  /\ rx' = [rx EXCEPT !.pc = IF ~rx.complete THEN "idle" ELSE IF ents[rx.ent].conn = 0 THEN "init" ELSE "check"]
  /\ NoEvent /\ UNCHANGED <<map, socks, rl, sw, now, ndg, nrep, nfault, down>>

\* initConn [connLock]: closed? -> error; hook; dial (policy applies to the first destination through the dial).
\* The dial itself may take long (resolver, hook): it ends in RxAttach.  While it runs the lock is held, so every
\* CloseWithErr on this entry waits (LockBusy); the mutant releases the lock and does not look at `closed` again.
LockBusy(e) == LockAcrossDial /\ rx.pc = "attach" /\ rx.ent = e

RxInit(fail) ==
  /\ rx.pc = "init"
  /\ IF fail /\ ~(ents[rx.ent].closed /\ GuardClosedInInit) THEN H([op |-> "dialerr", sid |-> rx.sid, dst |-> 0, complete |-> FALSE, e |-> 0, src |-> 0]) ELSE UNCHANGED hist
  /\ LET e == rx.ent
         to == HookMap[rx.dst]
         target == to
         allowed == IF VetRewritten THEN to \in Allow ELSE rx.dst \in Allow   \* the dial (and with it the policy) sees the rewritten address
     IN
     IF ents[e].closed /\ GuardClosedInInit
     THEN /\ rx' = [rx EXCEPT !.pc = "idle"]
          /\ NoEvent /\ UNCHANGED <<nfault>>
     ELSE IF fail \/ ~allowed
     THEN /\ (fail => nfault < MaxFault)
          /\ nfault' = IF fail THEN nfault + 1 ELSE nfault
          /\ rx' = [rx EXCEPT !.pc = IF FailPathCloses THEN "cA" ELSE "cB", !.nilerr = FALSE]
          /\ Feed2(Base("Hook") @@ [dst |-> rx.dst, to |-> to], Base("Dial") @@ [dst |-> target, sock |-> 0, ok |-> FALSE])
     ELSE /\ rx' = [rx EXCEPT !.pc = "attach"]
          /\ NoEvent /\ UNCHANGED nfault
  /\ UNCHANGED <<ents, socks, rl, map, sw, now, ndg, nrep, down>>

RxAttach ==                                \* the dial returned: e.conn = conn; go receiveLoop(); unlock
  /\ rx.pc = "attach" /\ Len(socks) < MaxEnt
  /\ LET e == rx.ent
         to == HookMap[rx.dst]
     IN /\ socks' = Append(socks, [ent |-> e, open |-> TRUE])
        /\ ents' = [ents EXCEPT ![e].conn = Len(socks) + 1,
                                ![e].to = IF to # rx.dst THEN to ELSE 0,
                                ![e].orig = IF to # rx.dst THEN rx.dst ELSE 0,
                                ![e].acl = IF to # rx.dst THEN {} ELSE {rx.dst}]
        /\ rl' = [rl EXCEPT ![e].pc = "read"]
        /\ rx' = [rx EXCEPT !.pc = "check"]
        /\ Feed2(Base("Hook") @@ [dst |-> rx.dst, to |-> to], Base("Dial") @@ [dst |-> to, sock |-> Len(socks) + 1, ok |-> TRUE])
  /\ UNCHANGED <<map, sw, now, ndg, nrep, nfault, down, hist>>

\* checkAddr + WriteTo
RxCheckWrite ==
  /\ rx.pc = "check"
  /\ UNCHANGED hist
  /\ LET e == rx.ent
         hooked == ents[e].to # 0
         vet == IF VetWritten THEN rx.dst ELSE rx.first
         cached == vet \in ents[e].acl
         full == Cardinality(ents[e].acl) >= AclCap
         \* verdict: cached verdicts are stored together with the key; here the cache holds (dst) and the verdict is Allow-membership
         verdict == IF hooked THEN TRUE
                    ELSE IF cached THEN vet \in Allow
                    ELSE IF ~CheckEveryDgram /\ full THEN TRUE        \* mutant: no check once the cache is full
                    ELSE vet \in Allow
         acl2 == IF hooked \/ cached THEN ents[e].acl
                 ELSE IF full THEN (ents[e].acl \ {CHOOSE x \in ents[e].acl : TRUE}) \cup {vet}
                 ELSE ents[e].acl \cup {vet}
         dst == IF hooked THEN ents[e].to ELSE rx.dst
     IN /\ ents' = [ents EXCEPT ![e].acl = acl2]
        /\ IF verdict
           THEN Feed1(Base("Write") @@ [sock |-> ents[e].conn, dst |-> dst, tag |-> rx.tag, ok |-> socks[ents[e].conn].open])
           ELSE NoEvent
  /\ rx' = [rx EXCEPT !.pc = "idle"]
  /\ UNCHANGED <<map, socks, rl, sw, now, ndg, nrep, nfault, down>>

\* CloseWithErr run by Rx (dial failure), and cleanup(false) after connection loss
RxCA ==
  /\ rx.pc = "cA"
  /\ UNCHANGED hist
  /\ LET r == CloseA(rx.ent) IN
       /\ ents' = r[1] /\ socks' = r[2]
       /\ Feed1(r[3])
       /\ rx' = [rx EXCEPT !.pc = IF r[4] THEN "next" ELSE "cB"]
  /\ UNCHANGED <<map, rl, sw, now, ndg, nrep, nfault, down>>
RxCB ==                                    \* event logger Close (its own step only when SplitExit)
  /\ rx.pc = "cB"
  /\ UNCHANGED hist
  /\ Feed1(EvCloseEvent(rx.ent, rx.nilerr))
  /\ IF SplitExit THEN rx' = [rx EXCEPT !.pc = "cC"] /\ UNCHANGED map
     ELSE rx' = [rx EXCEPT !.pc = "next"] /\ map' = DeleteByID(rx.ent)
  /\ UNCHANGED <<ents, socks, rl, sw, now, ndg, nrep, nfault, down>>
RxCC ==
  /\ rx.pc = "cC"
  /\ UNCHANGED hist
  /\ map' = DeleteByID(rx.ent)
  /\ rx' = [rx EXCEPT !.pc = "next"]
  /\ NoEvent /\ UNCHANGED <<ents, socks, rl, sw, now, ndg, nrep, nfault, down>>
RxNext ==                                  \* continue the cleanup list, or go back to ReceiveMessage / exit
  /\ rx.pc = "next"
  /\ UNCHANGED hist
  /\ IF rx.todo = <<>>
     THEN rx' = [rx EXCEPT !.pc = IF down THEN "dead" ELSE "idle"]
     ELSE rx' = [rx EXCEPT !.pc = "cA", !.ent = Head(rx.todo), !.todo = Tail(rx.todo), !.nilerr = TRUE]
  /\ NoEvent /\ UNCHANGED <<ents, map, socks, rl, sw, now, ndg, nrep, nfault, down>>

SetToSeq(S) == CHOOSE s \in [1..Cardinality(S) -> S] : \A i, j \in 1..Cardinality(S) : i # j => s[i] # s[j]

\* environment: the QUIC connection dies; ReceiveMessage returns an error; deferred cleanup(false)
ConnLoss ==
  /\ RxIdle /\ ~down
  /\ H([op |-> "loss", sid |-> 0, dst |-> 0, complete |-> FALSE, e |-> 0, src |-> 0])
  /\ down' = TRUE
  /\ rx' = [rx EXCEPT !.pc = "next", !.todo = SetToSeq({map[i] : i \in IDs} \ {NoEnt})]   \* [RLock] scan
  /\ Feed1(Base("IoErr"))
  /\ UNCHANGED <<ents, map, socks, rl, sw, now, ndg, nrep, nfault>>

\* ------------------------------------------------------------------ reply loops
RlRecv(e, src) ==                          \* a remote host answers on the session's socket
  /\ rl[e].pc = "read" /\ socks[ents[e].conn].open /\ nrep < MaxRep
  /\ H([op |-> "rep", sid |-> ents[e].id, dst |-> 0, complete |-> FALSE, e |-> e, src |-> src])
  /\ nrep' = nrep + 1
  /\ ents' = IF TouchOnReply THEN [ents EXCEPT ![e].last = now] ELSE ents
  /\ rl' = [rl EXCEPT ![e] = [pc |-> "send", tag |-> 100 + nrep + 1, src |-> src]]
  /\ Feed1(Base("SockRead") @@ [sock |-> ents[e].conn, src |-> src, tag |-> 100 + nrep + 1, ok |-> TRUE])
  /\ UNCHANGED <<map, socks, rx, sw, now, ndg, nfault, down>>

RlReadErr(e, injected) ==                  \* ReadFrom fails: socket closed by someone, or an injected error
  /\ rl[e].pc = "read"
  /\ IF injected THEN H([op |-> "readerr", sid |-> ents[e].id, dst |-> 0, complete |-> FALSE, e |-> e, src |-> 0]) ELSE UNCHANGED hist
  /\ IF injected THEN socks[ents[e].conn].open /\ nfault < MaxFault ELSE ~socks[ents[e].conn].open
  /\ nfault' = IF injected THEN nfault + 1 ELSE nfault
  /\ rl' = [rl EXCEPT ![e].pc = "cA"]
  /\ Feed1(Base("SockRead") @@ [sock |-> ents[e].conn, src |-> 0, tag |-> 0, ok |-> FALSE])
  /\ UNCHANGED <<ents, map, socks, rx, sw, now, ndg, nrep, down>>

RlSend(e, fail) ==
  /\ rl[e].pc = "send"
  /\ IF fail /\ ~down THEN H([op |-> "senderr", sid |-> ents[e].id, dst |-> 0, complete |-> FALSE, e |-> e, src |-> 0]) ELSE UNCHANGED hist
  /\ (fail => nfault < MaxFault \/ down)
  /\ nfault' = IF fail /\ ~down THEN nfault + 1 ELSE nfault
  /\ rl' = [rl EXCEPT ![e].pc = IF fail THEN "cA" ELSE "read"]
  /\ LET sid == IF StampOwnID THEN ents[e].id ELSE rx.sid      \* mutant: ID taken from the receive loop's current message
         from == IF ents[e].orig # 0 THEN ents[e].orig ELSE rl[e].src
     IN Feed1(Base("Send") @@ [sid |-> sid, from |-> from, tag |-> rl[e].tag, ok |-> ~fail])
  /\ UNCHANGED <<ents, map, socks, rx, sw, now, ndg, nrep, down>>

RlCA(e) ==
  /\ rl[e].pc = "cA" /\ ~LockBusy(e)
  /\ UNCHANGED hist
  /\ LET r == CloseA(e) IN
       /\ ents' = r[1] /\ socks' = r[2]
       /\ Feed1(r[3])
       /\ rl' = [rl EXCEPT ![e].pc = IF r[4] THEN "done" ELSE "cB"]
  /\ UNCHANGED <<map, rx, sw, now, ndg, nrep, nfault, down>>
RlCB(e) ==
  /\ rl[e].pc = "cB"
  /\ UNCHANGED hist
  /\ Feed1(EvCloseEvent(e, FALSE))
  /\ IF SplitExit THEN rl' = [rl EXCEPT ![e].pc = "cC"] /\ UNCHANGED map
     ELSE rl' = [rl EXCEPT ![e].pc = "done"] /\ map' = DeleteByID(e)
  /\ UNCHANGED <<ents, socks, rx, sw, now, ndg, nrep, nfault, down>>
RlCC(e) ==
  /\ rl[e].pc = "cC"
  /\ UNCHANGED hist
  /\ map' = DeleteByID(e)
  /\ rl' = [rl EXCEPT ![e].pc = "done"]
  /\ NoEvent /\ UNCHANGED <<ents, socks, rx, sw, now, ndg, nrep, nfault, down>>

\* ------------------------------------------------------------------ sweeper
SwScan ==                                  \* ticker fired: [RLock] collect idle entries
  /\ sw.pc = "idle" /\ sw.pending
  /\ UNCHANGED hist
  /\ LET idleE == {map[i] : i \in {j \in IDs : map[j] # NoEnt /\ now - ents[map[j]].last > Idle}} IN
       sw' = [pc |-> "next", pending |-> FALSE, todo |-> SetToSeq(idleE), ent |-> NoEnt]
  /\ NoEvent /\ UNCHANGED <<ents, map, socks, rx, rl, now, ndg, nrep, nfault, down>>
SwNext ==
  /\ sw.pc = "next"
  /\ UNCHANGED hist
  /\ IF sw.todo = <<>> THEN sw' = [sw EXCEPT !.pc = "idle"]
     ELSE sw' = [sw EXCEPT !.pc = "cA", !.ent = Head(sw.todo), !.todo = Tail(sw.todo)]
  /\ NoEvent /\ UNCHANGED <<ents, map, socks, rx, rl, now, ndg, nrep, nfault, down>>
SwCA ==
  /\ sw.pc = "cA" /\ ~LockBusy(sw.ent)
  /\ UNCHANGED hist
  /\ LET r == CloseA(sw.ent) IN
       /\ ents' = r[1] /\ socks' = r[2]
       /\ Feed1(r[3])
       /\ sw' = [sw EXCEPT !.pc = IF r[4] THEN "next" ELSE "cB"]
  /\ UNCHANGED <<map, rx, rl, now, ndg, nrep, nfault, down>>
SwCB ==
  /\ sw.pc = "cB"
  /\ UNCHANGED hist
  /\ Feed1(EvCloseEvent(sw.ent, TRUE))
  /\ IF SplitExit THEN sw' = [sw EXCEPT !.pc = "cC"] /\ UNCHANGED map
     ELSE sw' = [sw EXCEPT !.pc = "next"] /\ map' = DeleteByID(sw.ent)
  /\ UNCHANGED <<ents, socks, rx, rl, now, ndg, nrep, nfault, down>>
SwCC ==
  /\ sw.pc = "cC"
  /\ UNCHANGED hist
  /\ map' = DeleteByID(sw.ent)
  /\ sw' = [sw EXCEPT !.pc = "next"]
  /\ NoEvent /\ UNCHANGED <<ents, socks, rx, rl, now, ndg, nrep, nfault, down>>

\* ------------------------------------------------------------------ time and quiescence
RlBlocked(e) == rl[e].pc \in {"none", "done"} \/ (rl[e].pc = "read" /\ socks[ents[e].conn].open)
Quiescent == /\ rx.pc \in {"idle", "dead"}
             /\ sw.pc = "idle" /\ (~sw.pending \/ rx.pc = "dead")
             /\ \A e \in 1..Len(ents) : RlBlocked(e)

Tick ==
  /\ Quiescent /\ now < MaxT
  /\ H([op |-> "tick", sid |-> 0, dst |-> 0, complete |-> FALSE, e |-> 0, src |-> 0])
  /\ now' = now + 1
  /\ sw' = [sw EXCEPT !.pending = (rx.pc # "dead")]       \* the sweeper is stopped when Run returns
  /\ LET open == {k \in 1..Len(socks) : socks[k].open}
         e == Base("Quiesce") @@ [count |-> Cardinality({i \in IDs : map[i] # NoEnt}),
                                  open |-> IF open = {} THEN <<>> ELSE SetToSeq(open), gor |-> 0]
     IN Feed1(e)     \* the observation is made at the old instant, before time moves
  /\ UNCHANGED <<ents, map, socks, rx, rl, ndg, nrep, nfault, down>>

\* an observation at a quiescent instant that does not advance time (what the driver does after synctest.Wait)
Observe ==
  /\ Quiescent /\ now = MaxT /\ ~sw.pending
  /\ UNCHANGED hist
  /\ LET open == {k \in 1..Len(socks) : socks[k].open}
         e == Base("Quiesce") @@ [count |-> Cardinality({i \in IDs : map[i] # NoEnt}),
                                  open |-> IF open = {} THEN <<>> ELSE SetToSeq(open), gor |-> 0]
     IN Feed1(e)
  /\ UNCHANGED <<ents, map, socks, rx, rl, sw, now, ndg, nrep, nfault, down>>

Init ==
  /\ ents = <<>> /\ map = [i \in IDs |-> NoEnt] /\ socks = <<>> /\ rl = <<>>
  /\ rx = [pc |-> "idle", sid |-> 0, dst |-> 0, ent |-> NoEnt, complete |-> FALSE, first |-> 0, tag |-> 0, nilerr |-> FALSE, todo |-> <<>>]
  /\ sw = [pc |-> "idle", pending |-> FALSE, todo |-> <<>>, ent |-> NoEnt]
  /\ hist = <<>>
  /\ now = 0 /\ ndg = 0 /\ nrep = 0 /\ nfault = 0 /\ down = FALSE
  /\ mon7 = [C07!MonInit EXCEPT !.idle = Idle, !.sweep = 1]
  /\ mon8 = [C08!MonInit EXCEPT !.allow = Allow]

Next ==
  \/ \E sid \in IDs, dst \in Dsts, c \in BOOLEAN : \E f \in (IF FragHdr /\ c THEN Dsts ELSE {dst}) : Arrive(sid, dst, c, f)
  \/ RxLook \/ RxTouch \/ (\E f \in BOOLEAN : RxInit(f)) \/ RxAttach
  \/ RxCheckWrite \/ RxCA \/ RxCB \/ RxCC \/ RxNext \/ ConnLoss
  \/ \E e \in 1..Len(ents) :
        \/ \E src \in Dsts : RlRecv(e, src)
        \/ \E inj \in BOOLEAN : RlReadErr(e, inj)
        \/ \E f \in BOOLEAN : RlSend(e, f)
        \/ RlCA(e) \/ RlCB(e) \/ RlCC(e)
  \/ SwScan \/ SwNext \/ SwCA \/ SwCB \/ SwCC
  \/ Tick \/ Observe

Spec == Init /\ [][Next]_vars
FairSpec == Spec /\ WF_vars(Next)

\* ------------------------------------------------------------------ properties
NoViolation7 == mon7.viol = {}
NoViolation8 == mon8.viol = {}
\* structural invariants of the design (what makes delete-by-ID safe, and sockets unique)
DeleteOwn == /\ (rx.pc \in {"cB", "cC"} => map[ents[rx.ent].id] = rx.ent)
             /\ (sw.pc \in {"cB", "cC"} => map[ents[sw.ent].id] = sw.ent)
             /\ \A e \in 1..Len(ents) : rl[e].pc \in {"cB", "cC"} => map[ents[e].id] = e
SockOwner == \A k \in 1..Len(socks) : ents[socks[k].ent].conn = k
ClosedEntriesHaveClosedSockets ==
  \A e \in 1..Len(ents) : (ents[e].closed /\ ents[e].conn # 0) => ~socks[ents[e].conn].open
\* liveness: after connection loss everything is eventually gone
AllGone == /\ \A k \in 1..Len(socks) : ~socks[k].open
           /\ \A i \in IDs : map[i] = NoEnt
           /\ \A e \in 1..Len(ents) : rl[e].pc \in {"none", "done"}
EventuallyClean == down ~> AllGone

\* scenario printer (generator configs): always TRUE
PrintScn == (now = MaxT /\ Quiescent /\ ~sw.pending /\ (down \/ ndg = MaxDg)) => PrintT(<<"SCN", ToJson(hist)>>)

===========================================================================
