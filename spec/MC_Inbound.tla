---- MODULE MC_Inbound ----
EXTENDS Sys_Inbound
====
