SPECIFICATION Spec
CONSTANTS NU = 2  NG = 3  NC = 0  MaxOps = 5  Spurious = TRUE
  Amts <- A1  Ops <- OpsO  KickSets <- KS1
  ClearAtomic = TRUE  LogAtomic = TRUE  KickConsume = TRUE  OfflineOnVeto = TRUE  CloseOnLateVeto = TRUE  AuthAtomic = TRUE  OnlineFloor = TRUE
INVARIANT NoViolation
VIEW View
CHECK_DEADLOCK FALSE
