SPECIFICATION Spec
CONSTANTS NC = 2  NT = 2  MaxVeto = 1  LogBeforeWrite = TRUE  HonourVeto = TRUE  CloseConnOnVeto = TRUE  DrainOnEOF = TRUE  LateVetoCloses = TRUE  HookMax = 2  PutbackFirst = TRUE  GenHist = FALSE
INVARIANTS NoViolation NoViolationAtEnd
CHECK_DEADLOCK FALSE
