SPECIFICATION Spec
CONSTANTS MaxOps = 7  MaxFire = 4  MaxPkt = 3  MaxRd = 3  MaxWr = 2  HMin = 5000  HMax = 5001  Mut = "none"
  Items <- ItemsDef  PortU <- PortUDef
INVARIANT NoViolation
VIEW View
CHECK_DEADLOCK FALSE
