SPECIFICATION Spec
CONSTANTS MaxOps = 7  MaxFire = 4  MaxPkt = 2  MaxRd = 2  MaxWr = 2  HMin = 5000  HMax = 5001  Mut = "none"
  Items <- ItemsDef  PortU <- PortUDef
INVARIANT NoViolation
VIEW View
CHECK_DEADLOCK FALSE
