SPECIFICATION Spec
CONSTANTS Callers = {1, 2}  MaxGen = 4  MaxCalls = 6  MaxKill = 2  ReconnectWhenNil = TRUE  ClosedCheckLocked = TRUE
  DropOnlyOwn = TRUE  CloseDropped = TRUE  CheckClosedFlag = TRUE  LimitIsRecoverable = TRUE  GenHist = TRUE
INVARIANT PrintScn
CHECK_DEADLOCK FALSE
