----------------------------- MODULE Prop_C19 -----------------------------
(* C19 - Port hopping stays inside the configured port set and leaks no     *)
(* sockets.  Total monitor over (a) ParsePortUnion / Ports / Contains /     *)
(* ResolveUDPHopAddr results and (b) the events of a udpHopPacketConn whose *)
(* local sockets are fakes (Listen / SockClose / InnerWrite), its callers   *)
(* (Read/Write/Close call+return) and quiescent points of the driver.       *)
(* The monitor computes the denotation of a port expression itself, from    *)
(* the structured form of the expression (items as written).                *)
(* DRIFT_* clauses are not part of the property.                            *)
EXTENDS Mon

\* ---------------------------------------------------------------- expressions
\* item  <<k, a, b>>:  k=0 single port a (=b);  k=1 range "a-b" as written (a > b allowed: reversed);
\*                     k=2 syntactically invalid item (garbage);  k=3 invalid item that lists no port at all
\*                     under any reading (number > 65535, no digit)
Valid(it)   == it[1] \in {0, 1}
ILo(it)     == Min2(it[2], it[3])
IHi(it)     == Max2(it[2], it[3])
AllValid(items) == Len(items) >= 1 /\ \A i \in 1..Len(items) : Valid(items[i])
Strong(items)   == \A i \in 1..Len(items) : items[i][1] # 2      \* no ambiguous garbage
\* p is a port of the denotation (union of the valid items)
Cov(items, p) == \E i \in 1..Len(items) : Valid(items[i]) /\ ILo(items[i]) <= p /\ p <= IHi(items[i])

\* R: what the code returned, as the canonical interval list of the returned SET of ports
\* (sorted, disjoint, non-adjacent runs; built by the harness from the ports themselves).
\* Denote(items) \subseteq Set(R): a run of consecutive ports lies in a union of maximal runs iff it lies in one of them
Sub(items, R) == \A i \in 1..Len(items) : Valid(items[i]) =>
                   \E j \in 1..Len(R) : R[j][1] <= ILo(items[i]) /\ IHi(items[i]) <= R[j][2]
\* Set(R) \subseteq Denote(items): the least uncovered port of a run is its start or the successor of an item's end
Sup(items, R) == \A j \in 1..Len(R) :
                   /\ Cov(items, R[j][1])
                   /\ \A i \in 1..Len(items) : Valid(items[i]) =>
                        LET q == IHi(items[i]) + 1 IN (R[j][1] <= q /\ q <= R[j][2]) => Cov(items, q)
SetEq(items, R) == Sub(items, R) /\ Sup(items, R)

Canonical(R) == \A j \in 1..Len(R) : R[j][1] <= R[j][2] /\ (j > 1 => R[j][1] > R[j-1][2] + 1)

\* e: items, isnil, res, ports, np, strict, hop, hopErr, hopIp, cont
ParseClauses(e) ==
  LET ok == AllValid(e.items) IN
  << <<"SetExact",       ok /\ (e.isnil \/ ~SetEq(e.items, e.ports))>>,
     <<"ContainsExact",  ok /\ ~e.isnil /\ \E c \in 1..Len(e.cont) : (e.cont[c][2] = 1) # Cov(e.items, e.cont[c][1])>>,
     <<"HopAddrs",       ok /\ (e.hopErr \/ ~e.hopIp \/ ~SetEq(e.items, e.hop))>>,
     <<"NoForeignPort",  ~ok /\ Strong(e.items) /\ ((~e.isnil /\ ~Sup(e.items, e.ports)) \/ (~e.hopErr /\ ~Sup(e.items, e.hop)))>>,
     <<"DRIFT_InvalidAccepted", ~ok /\ (~e.isnil \/ ~e.hopErr)>>,
     <<"DRIFT_NotNormal", ~e.isnil /\ ~Canonical(e.res)>>,
     <<"DRIFT_Dup",       ~e.isnil /\ ~e.strict>> >>

\* ---------------------------------------------------------------- hopping connection
HopInit == [items |-> <<>>, ip |-> "", min |-> 0, max |-> 0,
            socks |-> <<>>,        \* sockets successfully created, in creation order (last = newest)
            open  |-> {},          \* created and not closed
            newRet |-> FALSE, lastT |-> 0,
            seen |-> {}, arr |-> {},          \* tags ever injected / deliverable and not yet returned by ReadFrom
            rEarly |-> {}, rLate |-> {},      \* ReadFrom calls in flight, made before / after Close returned
            wEarly |-> {}, wLate |-> {},
            closeCall |-> FALSE, closeRet |-> FALSE]

MonInit == [viol |-> {}, h |-> HopInit]

Newest(h) == IF h.socks = <<>> THEN 0 ELSE h.socks[Len(h.socks)]
Prev(h)   == IF Len(h.socks) < 2 THEN 0 ELSE h.socks[Len(h.socks) - 1]
NMin(h)   == IF h.min = 0 /\ h.max = 0 THEN 30000 ELSE h.min
NMax(h)   == IF h.min = 0 /\ h.max = 0 THEN 30000 ELSE h.max

\* keep one clause from filling the monitor's violation cap (Mon!V keeps 40 records)
Few(viol, clause, n) == Cardinality({v \in viol : v.clause = clause}) < n

HopStep(m, e, ln) ==
  LET h == m.h IN
  CASE e.ev = "New" ->
         [m EXCEPT !.h.newRet = TRUE, !.h.lastT = e.t,
            !.viol = VAll(m.viol, e, ln,
              << <<"DRIFT_IntervalConfig",
                    e.ok # (~e.lfail /\ ((h.min = 0 /\ h.max = 0) \/ (h.min >= 5000 /\ h.max >= h.min)))>> >>)]
    [] e.ev = "Listen" ->
         LET h1 == IF e.ok THEN [h EXCEPT !.socks = Append(h.socks, e.sock), !.open = h.open \cup {e.sock}] ELSE h
             d  == e.t - h.lastT
         IN [m EXCEPT !.h = IF h.newRet THEN [h1 EXCEPT !.lastT = e.t] ELSE h1,
               !.viol = VAll(m.viol, e, ln,
                 << <<"DRIFT_Interval", h.newRet /\ (d < NMin(h) \/ d > NMax(h))>> >>)]
    [] e.ev = "SockClose" -> [m EXCEPT !.h.open = h.open \ {e.sock}]
    [] e.ev = "InnerWrite" ->
         [m EXCEPT !.viol = VAll(m.viol, e, ln,
            << <<"InSet",            e.ip # h.ip \/ ~Cov(h.items, e.port)>>,
               \* InnerWrite is logged by the fake socket at the instant the datagram leaves (after a parked
               \* write has been released): it must leave from the newest local socket of that instant
               <<"NewestSocket",     e.sock # Newest(h)>>,
               <<"ClosedWriteFails", h.closeRet /\ h.wEarly = {}>> >>)]
    [] e.ev = "WriteCall" ->
         IF h.closeRet THEN [m EXCEPT !.h.wLate = h.wLate \cup {e.w}]
                       ELSE [m EXCEPT !.h.wEarly = h.wEarly \cup {e.w}]
    [] e.ev = "WriteRet" ->
         [m EXCEPT !.h.wEarly = h.wEarly \ {e.w}, !.h.wLate = h.wLate \ {e.w},
            !.viol = VAll(m.viol, e, ln, << <<"ClosedWriteFails", e.w \in h.wLate /\ e.ok>>,
                                            <<"DRIFT_WriteFails", ~e.ok /\ ~h.closeCall>> >>)]
    [] e.ev = "ReadCall" ->
         IF h.closeRet THEN [m EXCEPT !.h.rLate = h.rLate \cup {e.r}]
                       ELSE [m EXCEPT !.h.rEarly = h.rEarly \cup {e.r}]
    [] e.ev = "ReadRet" ->
         [m EXCEPT !.h.rEarly = h.rEarly \ {e.r}, !.h.rLate = h.rLate \ {e.r},
            !.h.arr = IF e.ok THEN h.arr \ {e.tag} ELSE h.arr,
            !.viol = VAll(m.viol, e, ln,
              << <<"ClosedReadFails",   e.r \in h.rLate /\ e.ok /\ Few(m.viol, "ClosedReadFails", 8)>>,
                 <<"DRIFT_ReadUnknown", e.ok /\ e.tag \notin h.seen>> >>)]
    [] e.ev = "Arrive" ->
         \* a packet reaches local socket e.sock; the property promises delivery when that socket is the
         \* newest or the previous one (second newest) and Close has not been called
         LET due == ~h.closeCall /\ e.sock # 0 /\ e.sock \in {Newest(h), Prev(h)} IN
         [m EXCEPT !.h.seen = h.seen \cup {e.tag}, !.h.arr = IF due THEN h.arr \cup {e.tag} ELSE h.arr]
    [] e.ev = "CloseCall" -> [m EXCEPT !.h.closeCall = TRUE]
    [] e.ev = "CloseRet"  -> [m EXCEPT !.h.closeRet = TRUE]
    [] e.ev = "Quiesce" ->
         [m EXCEPT !.viol = VAll(m.viol, e, ln,
              << <<"AtMostTwo", Cardinality(h.open) > 2>>,
                 <<"Delivers",  ~h.closeCall /\ h.arr # {} /\ h.rEarly # {}>>,
                 <<"ClosedAll", h.closeRet /\ h.open # {}>> >>)]
    [] e.ev = "End" ->
         [m EXCEPT !.viol = VAll(m.viol, e, ln,
              << <<"ClosedAll",     h.closeRet /\ h.open # {}>>,
                 <<"CloseUnblocks", h.closeRet /\ (h.rEarly \cup h.rLate) # {}>> >>)]
    [] OTHER -> m

MonStep(m, e, ln) ==
  CASE e.ev = "Reset" -> [MonInit EXCEPT !.viol = m.viol,
                             !.h = [HopInit EXCEPT !.items = e.items, !.ip = e.ip, !.min = e.min, !.max = e.max]]
    [] e.ev = "Parse" -> [m EXCEPT !.viol = VAll(m.viol, e, ln, ParseClauses(e))]
    [] e.ev = "Panic" -> [m EXCEPT !.viol = V(m.viol, e, ln, "Panic", TRUE)]
    [] OTHER          -> HopStep(m, e, ln)
===========================================================================
