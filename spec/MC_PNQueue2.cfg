SPECIFICATION Spec
CONSTANTS InitSize = 2  MaxPn = 5  MaxOps = 1000  GrowOrderOn = TRUE  ClearupOn = TRUE  PopOn = TRUE
INVARIANT NoViolation
VIEW View
CHECK_DEADLOCK FALSE
