SPECIFICATION Spec
CONSTANTS MaxRank = 4  ServerCapsRate = TRUE  ClientHonoursAuto = TRUE  ClientZeroIsCC = TRUE  ReportInstalled = TRUE
INVARIANT NoViolation
CHECK_DEADLOCK FALSE
