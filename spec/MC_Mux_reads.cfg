SPECIFICATION Spec
CONSTANTS NConn = 1  MaxListen = 1  MaxClose = 1  MaxReads = 4  Fixed = TRUE  ZeroFirst = TRUE  RouteByByte = TRUE
INVARIANT NoViolation
VIEW View
CHECK_DEADLOCK FALSE
