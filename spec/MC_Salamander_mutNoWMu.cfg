SPECIFICATION Spec
CONSTANTS NW = 2  NR = 1  MaxW = 2  MaxI = 0  MaxJ = 0  JunkLens <- JL1
  UseWMu = FALSE  UseRMu = TRUE  UseLk = TRUE  DeobfInLock = TRUE  JunkRetry = TRUE  UnlockOnRetry = TRUE  KeyOwned = TRUE
INVARIANT NoViolation

VIEW View
CHECK_DEADLOCK FALSE
