SPECIFICATION Spec
CONSTANTS FixUnprotect = TRUE  FixFragCount = TRUE  GeckoPadCheck = TRUE  TcpAddrCheck = TRUE
  UDPLenCheck = TRUE  PunchMin = 33  FeedIdxCheck = TRUE  Mode = "seq"  Only = ""  MaxSteps = 8
INVARIANT PrintSeq
CHECK_DEADLOCK FALSE
