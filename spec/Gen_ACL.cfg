SPECIFICATION Spec
CONSTANTS NRules = 3  K = 2  MaxQ = 12
  MutKeyNoPort = FALSE  MutKeyNoProto = FALSE  MutKeyNoV6 = FALSE  MutSuffixNoDot = FALSE  MutPortHi = FALSE
  RulePool <- Pool  QueryPool <- Queries
INVARIANT PrintScn
CHECK_DEADLOCK FALSE
