SPECIFICATION Spec
CONSTANTS FixUnprotect = TRUE  FixFragCount = TRUE  GeckoPadCheck = TRUE  TcpAddrCheck = FALSE
  UDPLenCheck = TRUE  PunchMin = 33  FeedIdxCheck = TRUE  Mode = "shapes"  Only = "tcpreq"  MaxSteps = 4
INVARIANT NoViolation
VIEW View
CHECK_DEADLOCK FALSE
