SPECIFICATION Spec
CONSTANTS NConn = 1  MaxListen = 2  MaxClose = 2  MaxReads = 0  Fixed = FALSE  ZeroFirst = TRUE  RouteByByte = TRUE
INVARIANT NoViolation
VIEW View
CHECK_DEADLOCK FALSE
