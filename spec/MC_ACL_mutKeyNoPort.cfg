SPECIFICATION Spec
CONSTANTS NRules = 2  K = 2  MaxQ = 3
  MutKeyNoPort = TRUE  MutKeyNoProto = FALSE  MutKeyNoV6 = FALSE  MutSuffixNoDot = FALSE  MutPortHi = FALSE
  RulePool <- PoolQ  QueryPool <- QueriesQ
INVARIANT NoViolation
VIEW View
CHECK_DEADLOCK FALSE
