---- MODULE MC_Shapes ----
EXTENDS Sys_Shapes
====
