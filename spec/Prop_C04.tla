----------------------------- MODULE Prop_C04 -----------------------------
(* C04 - TCP request/response framing is lossless, exact and bounded.      *)
(* Total monitor.  Every frame is re-parsed HERE (ParseFrame, from the     *)
(* frame layout of PROTOCOL.md and the varint format of RFC 9000 s.16);    *)
(* the readers' observable behaviour on a scripted tape (result, bytes     *)
(* consumed from the underlying reader, furthest offset requested, bytes   *)
(* allocated) is judged against that parse.                                *)
(*                                                                         *)
(* Events                                                                  *)
(*  Reset   lim = <<addr, msg, pad>> limits of the property (2048,2048,4096 in real traces, *)
(*          scaled in the model), consts = the code's own constants        *)
(*  Read    one call of ReadTCPRequest/ReadTCPResponse on a tape:          *)
(*          kind, tapeLen, small, bytes (whole tape if small), head (first 9 bytes), *)
(*          o1,o2,mid (harness' claim of the two field offsets, 8 bytes at o2; used for large tapes *)
(*          and verified here), ok, flag, res/resLen/resEq, consumed, reach, alloc, err, exp/expCons *)
(*  Written one call of WriteTCPRequest/WriteTCPResponse: the produced bytes in the same *)
(*          window form (after the frame-type varint `pre` of a request), the input (inLen, inp/inEq, flagIn) *)
(*  E2E     one client.TCP call against a real server with a recording outbound (see E2EClauses)  *)
EXTENDS Mon

Huge == 2147483647        \* stands for every value >= 2^31-1

MonInit == [viol |-> {}, lim |-> [a |-> 2048, m |-> 2048, p |-> 4096]]

\* ---------- QUIC varint (RFC 9000 s.16) ---------------------------------
Width(b) == CASE b \div 64 = 0 -> 1 [] b \div 64 = 1 -> 2 [] b \div 64 = 2 -> 4 [] OTHER -> 8

\* decode the varint at the start of s; ok = FALSE when s is too short
VarDec(s) ==
  IF Len(s) = 0 THEN [ok |-> FALSE, w |-> 0, v |-> 0]
  ELSE LET w == Width(s[1]) IN
       IF Len(s) < w THEN [ok |-> FALSE, w |-> w, v |-> 0]
       ELSE LET b(i) == IF i = 1 THEN s[1] % 64 ELSE s[i]
                v == CASE w = 1 -> b(1)
                       [] w = 2 -> b(1) * 256 + b(2)
                       [] w = 4 -> ((b(1) * 256 + b(2)) * 256 + b(3)) * 256 + b(4)
                       [] OTHER -> IF b(1) # 0 \/ b(2) # 0 \/ b(3) # 0 \/ b(4) # 0 \/ b(5) >= 128
                                   THEN Huge
                                   ELSE ((b(5) * 256 + b(6)) * 256 + b(7)) * 256 + b(8)
            IN [ok |-> TRUE, w |-> w, v |-> v]

\* ---------- frame parse --------------------------------------------------
Hd(e) == IF e.small THEN SubSeq(e.bytes, 1, Min2(9, Len(e.bytes))) ELSE e.head
Win(e, o) == IF e.small THEN SubSeq(e.bytes, o + 1, Min2(o + 8, Len(e.bytes))) ELSE e.mid

NoParse == [st |-> "trunc", flen |-> 0, hend |-> 0, decl |-> 0, fld |-> "", o1 |-> 0, l1 |-> 0, o2 |-> 0, stb |-> 0, hw |-> FALSE]

\* st: "valid" (complete frame within all limits, flen = its length),
\*     "reject" (first offending length field ends at hend and declares decl),
\*     "trunc" (the tape ends inside the frame: not covered by the property)
\* hw: the harness' window claim (o1/o2) disagrees with this parse (machinery failure)
ParseFrame(e, lim) ==
  LET s0   == IF e.kind = "resp" THEN 1 ELSE 0
      hd   == Hd(e)
      limA == IF e.kind = "resp" THEN lim.m ELSE lim.a
      v1   == VarDec(SubSeq(hd, s0 + 1, Len(hd)))
  IN IF Len(hd) < s0 + 1 \/ ~v1.ok THEN NoParse
     ELSE
     LET o1  == s0 + v1.w
         l1  == v1.v
         stb == IF s0 = 1 THEN hd[1] ELSE 0
         base == [NoParse EXCEPT !.o1 = o1, !.l1 = l1, !.stb = stb, !.hw = ~e.small /\ e.o1 # o1]
     IN IF (e.kind = "req" /\ l1 = 0) \/ l1 > limA
        THEN [base EXCEPT !.st = "reject", !.hend = o1, !.decl = l1, !.fld = "addr"]
        ELSE
        LET o2 == o1 + l1 IN
        IF e.tapeLen < o2 THEN base
        ELSE
        LET v2 == VarDec(Win(e, o2))
            b2 == [base EXCEPT !.o2 = o2, !.hw = ~e.small /\ (e.o1 # o1 \/ e.o2 # o2)]
        IN IF ~v2.ok THEN b2
           ELSE IF v2.v > lim.p
           THEN [b2 EXCEPT !.st = "reject", !.hend = o2 + v2.w, !.decl = v2.v, !.fld = "pad"]
           ELSE LET fl == o2 + v2.w + v2.v IN
                IF e.tapeLen < fl THEN b2 ELSE [b2 EXCEPT !.st = "valid", !.flen = fl]

\* ---------- reader -------------------------------------------------------
AllocCap == 1073741824
ScratchMax == 65536
ReadClauses(m, e) ==
  LET p      == ParseFrame(e, m.lim)
      same   == IF e.small THEN e.res = SubSeq(e.bytes, p.o1 + 1, p.o1 + p.l1)
                           ELSE e.resLen = p.l1 /\ e.resEq
      flagOk == e.kind = "req" \/ (e.flag <=> (p.stb = 0))     \* the writer emits 0 (ok) or 1 (error)
      avail  == e.tapeLen - p.hend
      readIt == e.consumed > p.hend /\ e.consumed - p.hend >= Min2(p.decl, avail)
      allocT == Min2(p.decl, AllocCap) + (IF p.fld = "pad" THEN 2 * p.l1 ELSE 0)
  IN << <<"DRIFT_HarnessWindow", p.hw>>,
        \* lossless: a complete frame within the limits is read back identical
        <<"RoundTrip",    p.st = "valid" /\ (~e.ok \/ ~same \/ (p.stb \in {0, 1} /\ ~flagOk))>>,
        \* exact: the reader takes exactly the frame from the underlying reader
        <<"Exact",        p.st = "valid" /\ e.ok /\ e.consumed # p.flen>>,
        \* bounded: over-limit / empty address is rejected ...
        <<"Rejected",     p.st = "reject" /\ e.ok>>,
        \* ... before the declared amount is read ...
        <<"BoundedRead",  p.st = "reject" /\ p.decl > 0 /\ readIt>>,
        \* ... or allocated (a panic/crash of make() is an attempt to allocate it).  Below ScratchMax an
        \* allocation of that size is not evidence that it was sized by the declaration (a fixed scratch
        \* buffer would look the same): DRIFT_Alloc there.
        <<"BoundedAlloc", p.st = "reject" /\ p.decl > 0 /\ ((e.alloc >= allocT /\ p.decl >= ScratchMax) \/ e.err = "panic")>>,
        <<"DRIFT_Alloc",  p.st = "reject" /\ p.decl > 0 /\ e.alloc >= allocT /\ p.decl < ScratchMax>>,
        \* stricter than the statement: how Sys_Wire (= today's code) behaves
        <<"DRIFT_Reach",      p.st = "valid" /\ e.ok /\ e.reach > p.flen>>,
        <<"DRIFT_RejectLate", p.st = "reject" /\ ~e.ok /\ e.consumed > p.hend /\ ~(p.decl > 0 /\ readIt)>>,
        <<"DRIFT_RejectKind", p.st = "reject" /\ ~e.ok /\ e.err # "proto" /\ e.err # "panic">>,
        <<"DRIFT_Status",     p.st = "valid" /\ e.ok /\ p.stb \notin {0, 1} /\ ~flagOk>>,
        <<"DRIFT_Truncated",  p.st = "trunc" /\ (e.ok \/ e.err = "panic")>>,
        <<"DRIFT_Model",      e.exp >= 0 /\ ((e.exp = 1) # e.ok \/ e.expCons # e.consumed)>> >>

\* ---------- writer -------------------------------------------------------
WriteClauses(m, e) ==
  LET p     == ParseFrame(e, m.lim)
      tyOk  == IF e.kind = "req" THEN LET t == VarDec(e.pre) IN t.ok /\ t.w = Len(e.pre) /\ t.v = 1025
                                 ELSE e.pre = <<>>
      same  == IF e.small THEN e.inp = SubSeq(e.bytes, p.o1 + 1, p.o1 + p.l1) ELSE e.inEq
      stOk  == e.kind = "req" \/ (e.flagIn <=> (p.stb = 0))
      inDom == e.inLen <= (IF e.kind = "req" THEN m.lim.a ELSE m.lim.m) /\ (e.kind = "resp" \/ e.inLen >= 1)
  IN << <<"DRIFT_HarnessWindow", p.hw>>,
        \* what the writer emits for an in-domain input is one complete, limit-respecting frame
        \* that carries exactly the input, and nothing after it
        <<"WriterFrame", inDom /\ (e.werr \/ ~tyOk \/ p.st # "valid" \/ p.flen # e.tapeLen
                                   \/ p.l1 # e.inLen \/ ~same \/ ~stOk)>>,
        <<"DRIFT_WriteOnce", inDom /\ e.nwrites # 1>> >>

\* ---------- end to end (client.TCP <-> server over a real QUIC stream) ------
\* e: addrLen, msgLen (-1: the target accepts), called/addrSame (what the outbound saw), dialOk, payloadSame (first bytes
\* behind the request frame reached the target), replySame (first bytes behind the response frame reached the client),
\* isDialErr/msgSame (the client's error carries the target's message)
E2EClauses(m, e) ==
  \* frames made by the harness' raw peer carry their padding length; the stock client's padding is always in range
  LET inDom == e.addrLen >= 1 /\ e.addrLen <= m.lim.a /\ (IF "padLen" \in DOMAIN e THEN e.padLen <= m.lim.p ELSE TRUE) IN
  << <<"E2EAddr",    inDom /\ ~(e.called /\ e.addrSame)>>,
     <<"E2EReject",  ~inDom /\ e.called>>,
     <<"E2EPayload", inDom /\ e.msgLen = -1 /\ e.called /\ e.addrSame /\ ~(e.dialOk /\ e.payloadSame /\ e.replySame)>>,
     <<"E2EMessage", inDom /\ e.msgLen >= 0 /\ e.msgLen <= m.lim.m /\ e.called /\ e.addrSame /\ ~(~e.dialOk /\ e.isDialErr /\ e.msgSame)>> >>

DriftClauses == {"DRIFT_HarnessWindow", "DRIFT_Reach", "DRIFT_RejectLate", "DRIFT_RejectKind", "DRIFT_Truncated",
                 "DRIFT_Model", "DRIFT_Alloc", "DRIFT_Status", "DRIFT_WriteOnce", "DRIFT_Consts"}

\* drift reports must not use up the room of the violation set (Mon!V keeps 40 records)
Judge(viol, e, ln, cs) ==
  LET room == Cardinality({v \in viol : v.clause \in DriftClauses}) < 8 IN
  VAll(viol, e, ln, SelectSeq(cs, LAMBDA c : room \/ c[1] \notin DriftClauses))

MonStep(m, e, ln) ==
  CASE e.ev = "Reset"   -> [MonInit EXCEPT !.viol = V(m.viol, e, ln, "DRIFT_Consts", e.real /\ e.consts # e.lim),
                                           !.lim = [a |-> e.lim[1], m |-> e.lim[2], p |-> e.lim[3]]]
    [] e.ev = "Read"    -> [m EXCEPT !.viol = Judge(m.viol, e, ln, ReadClauses(m, e))]
    [] e.ev = "Written" -> [m EXCEPT !.viol = Judge(m.viol, e, ln, WriteClauses(m, e))]
    [] e.ev = "E2E"     -> [m EXCEPT !.viol = Judge(m.viol, e, ln, E2EClauses(m, e))]
    [] OTHER            -> m
===========================================================================
