SPECIFICATION Spec
CONSTANTS NU = 2  NG = 3  NC = 0  MaxOps = 4  Spurious = FALSE
  Amts <- A2  Ops <- OpsA  KickSets <- KS
  ClearAtomic = TRUE  LogAtomic = TRUE  KickConsume = TRUE  OfflineOnVeto = TRUE  CloseOnLateVeto = TRUE  AuthAtomic = TRUE  OnlineFloor = TRUE
INVARIANT NoViolation
VIEW View
CHECK_DEADLOCK FALSE
