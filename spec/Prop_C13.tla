----------------------------- MODULE Prop_C13 -----------------------------
(* C13 - Salamander is transparent, spec-exact, and drops junk.            *)
(* Total monitor over the events observed at the caller's side of a        *)
(* Salamander-wrapped socket (WriteRet / ReadRet / New) and at the inner   *)
(* socket (WireOut = datagram handed to the inner WriteTo, Inject =        *)
(* datagram the inner ReadFrom will deliver).                              *)
(* BLAKE2b-256 is uninterpreted: every wire event carries the oracle value *)
(* ks = BLAKE2b-256(key || wire[1..8]) computed by python hashlib; the     *)
(* monitor checks the XOR structure (index mod 32) with Bitwise.           *)
(* Long byte strings arrive compacted by hv/props/c13.py: wire/pay/out are *)
(* the heads (salt + first <=64 payload bytes), wtail/ptail/otail the last *)
(* <=40 bytes (payload offset toff), wlen/plen/olen the true lengths and   *)
(* pyOk/pyEq the oracle's verdict on the full strings.                     *)
EXTENDS Mon, Bitwise

SaltLen == 8
KeyLen  == 32
MinPSK  == 4

MonInit == [viol |-> {},
            wr   |-> <<>>,     \* pid -> number of datagrams put on the inner socket for that write
            inj  |-> <<>>]     \* iid -> [wlen, plen, pay, ptail, surfaced]

Upd(f, k, v) == [x \in (DOMAIN f) \cup {k} |-> IF x = k THEN v ELSE f[x]]

\* body[i] = pay[i] XOR ks[(off+i-1) mod 32], for the whole of the two (equally long) pieces
XorOk(body, pay, off, ks) ==
  /\ Len(body) = Len(pay)
  /\ \A i \in 1..Len(pay) : body[i] = (pay[i] ^^ ks[((off + i - 1) % KeyLen) + 1])

\* e: wlen, plen, wire (head), pay (head), wtail, ptail, toff, ks, pyOk
WireFormatOk(e) ==
  /\ e.wlen = e.plen + SaltLen
  /\ Len(e.ks) = KeyLen
  /\ Len(e.wire) >= SaltLen
  /\ XorOk(SubSeq(e.wire, SaltLen + 1, Len(e.wire)), e.pay, 0, e.ks)
  /\ XorOk(e.wtail, e.ptail, e.toff, e.ks)
  /\ e.pyOk

WireOutStep(m, e, ln) ==
  LET c == IF e.pid \in DOMAIN m.wr THEN m.wr[e.pid] ELSE 0 IN
  [m EXCEPT !.wr   = Upd(m.wr, e.pid, c + 1),
            !.viol = VAll(m.viol, e, ln, << <<"WireFormat", ~WireFormatOk(e)>> >>)]

\* e: pid, plen, n, errNil
WriteRetStep(m, e, ln) ==
  LET c == IF e.pid \in DOMAIN m.wr THEN m.wr[e.pid] ELSE 0 IN
  [m EXCEPT !.viol = VAll(m.viol, e, ln,
      << <<"WriteCount", ~e.errNil \/ e.n # e.plen>>,
         <<"OneDatagram", c # 1>> >>)]

\* e: iid, kind ("valid" | "junk"), + the WireOut fields
InjectStep(m, e, ln) ==
  [m EXCEPT !.inj  = Upd(m.inj, e.iid, [wlen |-> e.wlen, plen |-> e.plen, pay |-> e.pay, ptail |-> e.ptail, surfaced |-> 0]),
            !.viol = VAll(m.viol, e, ln,
      << <<"DRIFT_EnvInject", (e.kind = "valid" /\ ~WireFormatOk(e)) \/ (e.kind = "junk" /\ e.wlen > SaltLen)
                                 \/ e.iid \in DOMAIN m.inj>> >>)]

\* e: iid, n, errNil, olen, out (head), otail, pyEq
ReadRetStep(m, e, ln) ==
  IF ~e.errNil THEN m                       \* the socket was closed / drained: nothing surfaced
  ELSE IF e.iid \notin DOMAIN m.inj THEN
     [m EXCEPT !.viol = V(m.viol, e, ln, "Transparent", TRUE)]        \* a packet nobody sent
  ELSE
     LET d == m.inj[e.iid]
         junk == d.wlen <= SaltLen
     IN [m EXCEPT
          \* the payload is not needed any more (a second surfacing is a violation whatever it carries)
          !.inj  = Upd(m.inj, e.iid, [d EXCEPT !.surfaced = d.surfaced + 1, !.pay = <<>>, !.ptail = <<>>]),
          !.viol = VAll(m.viol, e, ln,
            << \* junk surfaced (a zero-length datagram returned as n = 0 is the documented limit)
               <<"JunkDrop",    junk /\ (e.n > 0 \/ d.wlen > 0)>>,
               <<"Transparent", ~junk /\ ( e.n # d.wlen - SaltLen \/ e.olen # e.n
                                           \/ e.out # d.pay \/ e.otail # d.ptail \/ ~e.pyEq )>>,
               <<"Once",        ~junk /\ d.surfaced > 0>> >>)]

\* a ReadFrom call (or the readers' exit after Close) never returned although the inner socket never blocks:
\* a well-formed packet that was handed to the socket and has not surfaced will never arrive
Pending(m) == \E i \in DOMAIN m.inj : m.inj[i].wlen > SaltLen /\ m.inj[i].surfaced = 0
StalledStep(m, e, ln) ==
  [m EXCEPT !.viol = VAll(m.viol, e, ln, << <<"Delivery_Stalled", Pending(m)>>,
                                            <<"DRIFT_ReaderStuck", ~Pending(m)>> >>)]

\* end of a scenario: every well-formed injected packet has surfaced
EndStep(m, e, ln) ==
  [m EXCEPT !.viol = VAll(m.viol, e, ln,
      << <<"Arrives", Pending(m)>> >>)]

MonStep(m, e, ln) ==
  CASE e.ev = "Reset"    -> [MonInit EXCEPT !.viol = m.viol]
    [] e.ev = "New"      -> [m EXCEPT !.viol = VAll(m.viol, e, ln, << <<"KeyLen", e.ok # (e.klen >= MinPSK)>> >>)]
    [] e.ev = "WireOut"  -> WireOutStep(m, e, ln)
    [] e.ev = "WriteRet" -> WriteRetStep(m, e, ln)
    [] e.ev = "Inject"   -> InjectStep(m, e, ln)
    [] e.ev = "ReadRet"  -> ReadRetStep(m, e, ln)
    [] e.ev = "End"      -> EndStep(m, e, ln)
    [] e.ev = "ReadStalled" -> StalledStep(m, e, ln)
    [] e.ev = "Panic"    -> [m EXCEPT !.viol = V(m.viol, e, ln, "Panic", TRUE)]
    [] OTHER             -> m
===========================================================================
