SPECIFICATION Spec
CONSTANTS MaxAddr = 2048  MaxMsg = 2048  MaxPad = 4096  Present = 3  BufSz = 8192
  MutCheckAfter = FALSE  MutGreedy = FALSE  MutPadGE = FALSE
  Len1Set <- G1  Len2Set <- G2  TrailSet <- Tr  CutSet <- Cut
INVARIANT PrintScn
CHECK_DEADLOCK FALSE
