------------------------------ MODULE Sys_Gecko ------------------------------
(* Model of extras/obfs/gecko.go: the receiver's reassembly table           *)
(* (acceptChunk, dropEntryLocked, evictOldestLocked, gcExpired) transcribed  *)
(* branch by branch, driven by an adversarial datagram path (any order,      *)
(* duplicates, other messages and sources interleaved, a second message      *)
(* reusing a key with another chunk count, time passing), plus the sender's  *)
(* split/padding arithmetic on a boundary grid.  Scaled constants: caps      *)
(* CapSrc/CapAll, TTL = 4 time units, sweep every 2 units (at even times);   *)
(* datagrams arrive at odd times.                                            *)
EXTENDS Prop_C14, TLC, Json

CONSTANTS MsgSrc, MsgMid, MsgTot,      \* sequences: source, message ID and chunk count of message i
          CapSrc, CapAll,              \* scaled geckoMaxPerSource / geckoMaxReassembly
          MaxDeliv, MaxTick,
          GridP, GridMM,               \* sender grid: packet lengths, <<min, max>> pairs
          DecOnComplete,               \* FALSE: perSource not decremented when a message completes (mutant)
          DupCheck,                    \* FALSE: a duplicate chunk is stored and counted again (mutant)
          TotalCheck,                  \* FALSE: chunk-count mismatch not checked (mutant)
          CapStrict,                   \* FALSE: per-source cap compared with > instead of >= (mutant)
          GcOn,                        \* FALSE: the sweep never removes anything (mutant)
          IdEarly                      \* FALSE: the message ID is consumed only after the last chunk went out (mutant)

VARIABLES tab,      \* <<src, mid>> -> [total, slots, received, deadline]
          per,      \* src -> counter (the code's perSource map; absent = 0)
          now, nDeliv, nTick, mon, hist

vars == <<tab, per, now, nDeliv, nTick, mon, hist>>

TTL  == 4
Msgs == 1..Len(MsgSrc)
Srcs == {MsgSrc[i] : i \in Msgs}
ScaledCfg == [capSrc |-> CapSrc, capAll |-> CapAll, ttl |-> TTL, grace |-> TTL + 2]
PLen(i) == 10 * MsgTot[i] + i            \* length of message i (any injective choice)

Per(p, s) == IF s \in DOMAIN p THEN p[s] ELSE 0
Census(t, s) == Cardinality({k \in DOMAIN t : k[1] = s})
\* dropEntryLocked
Drop(t, p, k, dec) ==
  IF k \notin DOMAIN t THEN <<t, p>>
  ELSE LET c == Per(p, k[1]) - (IF dec THEN 1 ELSE 0)
       IN <<Del(t, k), IF c <= 0 THEN Del(p, k[1]) ELSE Upd(p, k[1], c)>>

WB(t, p, n) ==   \* white-box census fields of the events
  [tlen |-> Cardinality(DOMAIN t),
   maxps |-> IF DOMAIN t = {} THEN 0 ELSE CHOOSE x \in {Census(t, s) : s \in Srcs} : \A y \in {Census(t, s) : s \in Srcs} : x >= y,
   census |-> \A s \in Srcs : Per(p, s) = Census(t, s)]

\* ---------------- acceptChunk (gecko.go:199-249) ----------------
\* result: <<tab', per', emittedSlots>>  (emittedSlots = <<>> if nothing is returned)
Store(t, p, k, i, idx) ==
  LET e == t[k] IN
  IF idx >= Len(e.slots) \/ (DupCheck /\ e.slots[idx + 1] # <<0, 0>>) THEN <<t, p, <<>>>>
  ELSE LET e2 == [e EXCEPT !.slots[idx + 1] = <<i, idx>>, !.received = @ + 1] IN
       IF e2.received < e2.total THEN <<Upd(t, k, e2), p, <<>>>>
       ELSE LET d == Drop(Upd(t, k, e2), p, k, DecOnComplete) IN <<d[1], d[2], e2.slots>>

Oldest(t) == {k \in DOMAIN t : \A x \in DOMAIN t : t[k].deadline <= t[x].deadline}

Accept(i, idx, victim) ==
  LET k == <<MsgSrc[i], MsgMid[i]>> IN
  IF k \notin DOMAIN tab THEN
     IF (CapStrict /\ Per(per, k[1]) >= CapSrc) \/ (~CapStrict /\ Per(per, k[1]) > CapSrc) THEN <<tab, per, <<>>>>
     ELSE LET ev == IF Cardinality(DOMAIN tab) >= CapAll THEN Drop(tab, per, victim, TRUE) ELSE <<tab, per>>
              ne == [total |-> MsgTot[i], slots |-> [j \in 1..MsgTot[i] |-> <<0, 0>>], received |-> 0, deadline |-> now + TTL]
          IN Store(Upd(ev[1], k, ne), Upd(ev[2], k[1], Per(ev[2], k[1]) + 1), k, i, idx)
  ELSE IF TotalCheck /\ tab[k].total # MsgTot[i] THEN <<tab, per, <<>>>>
  ELSE Store(tab, per, k, i, idx)

Deliver(i, idx) ==
  /\ nDeliv < MaxDeliv
  /\ \E victim \in (IF Cardinality(DOMAIN tab) >= CapAll THEN Oldest(tab) ELSE {<<0, 0>>}) :
       LET r  == Accept(i, idx, victim)
           em == r[3] # <<>>
           eq == em /\ Len(r[3]) = MsgTot[i] /\ \A j \in 1..Len(r[3]) : r[3][j] = <<i, j - 1>>
           e  == [ev |-> "Feed", scn |-> 0, msg |-> i, idx |-> idx, kind |-> "chunk", src |-> MsgSrc[i], t |-> now,
                  emitted |-> em, outEq |-> eq, outLen |-> IF eq THEN PLen(i) ELSE 0, addrOk |-> TRUE] @@ WB(r[1], r[2], 0)
       IN /\ tab' = r[1] /\ per' = r[2]
          /\ mon' = MonStep(mon, e, 0)
  /\ nDeliv' = nDeliv + 1
  /\ hist' = Append(hist, <<"F", i, idx>>)
  /\ UNCHANGED <<now, nTick>>

\* ---------------- time: two units pass, the sweep (gcExpired) runs at the even instant in between ----------------
Tick ==
  /\ nTick < MaxTick
  /\ LET g   == now + 1
         exp == IF GcOn THEN {k \in DOMAIN tab : g > tab[k].deadline} ELSE {}
         t2  == Restrict(tab, DOMAIN tab \ exp)
         p2  == [s \in {s \in DOMAIN per : per[s] - Cardinality({k \in exp : k[1] = s}) > 0} |->
                    per[s] - Cardinality({k \in exp : k[1] = s})]
         ages == {(now + 2) - (t2[k].deadline - TTL) : k \in DOMAIN t2}
         e   == [ev |-> "Tick", scn |-> 0, t |-> now + 2,
                 oldAge |-> IF ages = {} THEN 0 ELSE CHOOSE a \in ages : \A b \in ages : a >= b] @@ WB(t2, p2, 0)
     IN /\ tab' = t2 /\ per' = p2
        /\ mon' = MonStep(mon, e, 0)
  /\ now' = now + 2 /\ nTick' = nTick + 1
  /\ hist' = Append(hist, <<"T", 0, 0>>)
  /\ UNCHANGED nDeliv

\* ---------------- sender arithmetic (gecko.go:112-151), stuttering unless it violates ----------------
WriteEvent(plen, chunks, mn, mx, hi) ==
  LET cs   == plen \div chunks
      clen == [i \in 1..chunks |-> IF i < chunks THEN cs ELSE plen - (chunks - 1) * cs]
      pad  == [i \in 1..chunks |-> LET base == Salt + Hdr + clen[i]
                                      lo == Max2(mn, base)
                                  IN IF lo > mx THEN 0 ELSE lo - base + (IF hi THEN mx - lo ELSE 0)]
  IN [ev |-> "Write", scn |-> 0, c |-> 1, plen |-> plen, long |-> TRUE, n |-> plen, errNil |-> TRUE, nd |-> chunks,
      sizes |-> [i \in 1..chunks |-> Salt + Hdr + pad[i] + clen[i]], clens |-> clen, pads |-> pad,
      idxs |-> [i \in 1..chunks |-> i - 1], tots |-> [i \in 1..chunks |-> chunks], mids |-> [i \in 1..chunks |-> 7],
      hdrOk |-> TRUE, concatOk |-> TRUE, min |-> mn, max |-> mx, fault |-> FALSE, conc |-> FALSE]

Grid == /\ nDeliv = 0 /\ nTick = 0
        /\ \E p \in GridP, c \in 2..8, mm \in GridMM, hi \in BOOLEAN :
             mon' = [MonStep(mon, WriteEvent(p, c, mm[1], mm[2], hi), 0) EXCEPT !.mids = mon.mids]
        /\ UNCHANGED <<tab, per, now, nDeliv, nTick, hist>>

\* message-ID allocation (gecko.go:115): a send aborted by an inner-socket error after `sent` chunks, then the next
\* message, then two overlapping sends.  ctr is the counter before the first send.
AbortThenNext(ctr, sent) ==
  LET id1 == IF IdEarly THEN (ctr + 1) % 256 ELSE ctr % 256
      c1  == IF IdEarly THEN ctr + 1 ELSE ctr                      \* the aborted send does not reach the late Add(1)
      id2 == IF IdEarly THEN (c1 + 1) % 256 ELSE c1 % 256
      w1  == WriteEvent(9, 3, 512, 1200, FALSE)
      a   == [w1 EXCEPT !.fault = TRUE, !.errNil = FALSE, !.n = 0, !.nd = sent,
                         !.sizes = SubSeq(@, 1, sent), !.clens = SubSeq(@, 1, sent), !.pads = SubSeq(@, 1, sent),
                         !.idxs = SubSeq(@, 1, sent), !.tots = SubSeq(@, 1, sent), !.mids = [i \in 1..sent |-> id1]]
      b   == [w1 EXCEPT !.mids = [i \in 1..3 |-> id2]]
  IN <<a, b>>
Overlap(ctr) ==     \* both sends read the counter before either advances it, unless the ID is reserved up front
  LET id1 == IF IdEarly THEN (ctr + 1) % 256 ELSE ctr % 256
      id2 == IF IdEarly THEN (ctr + 2) % 256 ELSE ctr % 256
      w1  == [WriteEvent(9, 2, 512, 1200, FALSE) EXCEPT !.conc = TRUE]
  IN <<[w1 EXCEPT !.mids = [i \in 1..2 |-> id1]], [w1 EXCEPT !.mids = [i \in 1..2 |-> id2]]>>
IdAlloc == /\ nDeliv = 0 /\ nTick = 0
           /\ \E ctr \in {0, 5, 254, 255}, sent \in 1..2, which \in BOOLEAN :
                LET ws == IF which THEN AbortThenNext(ctr, sent) ELSE Overlap(ctr) IN
                mon' = [MonStep(MonStep([mon EXCEPT !.mids = <<>>], ws[1], 0), ws[2], 0) EXCEPT !.mids = mon.mids]
           /\ UNCHANGED <<tab, per, now, nDeliv, nTick, hist>>

Init == /\ tab = <<>> /\ per = <<>> /\ now = 1 /\ nDeliv = 0 /\ nTick = 0 /\ hist = <<>>
        /\ mon = [MonInit EXCEPT !.cfg = ScaledCfg,
                                 !.msgs = [i \in Msgs |-> [src |-> MsgSrc[i], mid |-> MsgMid[i], total |-> MsgTot[i], plen |-> PLen(i),
                                                          last |-> [j \in 1..MsgTot[i] |-> -1]]]]

Next == \/ Grid \/ IdAlloc
        \/ \E i \in Msgs : \E idx \in 0..(MsgTot[i] - 1) : Deliver(i, idx)
        \/ Tick

Spec == Init /\ [][Next]_vars

\* DRIFT_EnvKeyClash only says that the environment left the property's domain; everything else must hold
NoViolation == \A v \in mon.viol : v.clause = "DRIFT_EnvKeyClash"
\* the implementation's own invariant: the counter is the census, and the caps hold
TableOk == /\ \A s \in Srcs : Per(per, s) = Census(tab, s) /\ Census(tab, s) <= CapSrc
           /\ Cardinality(DOMAIN tab) <= CapAll
PrintScn == (nDeliv = MaxDeliv /\ nTick = MaxTick) => PrintT(<<"SCN", ToJson([src |-> MsgSrc, mid |-> MsgMid, tot |-> MsgTot, steps |-> hist])>>)
View == <<tab, per, now, nDeliv, nTick, mon>>
=============================================================================
