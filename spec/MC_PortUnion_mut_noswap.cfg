SPECIFICATION Spec
CONSTANTS MaxPort = 4  MaxItems = 2  Lemma = FALSE  Mut = "noswap"
INVARIANT NoViolation
CHECK_DEADLOCK FALSE
