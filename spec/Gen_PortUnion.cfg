SPECIFICATION Spec
CONSTANTS MaxPort = 3  MaxItems = 3  Lemma = FALSE  Mut = "none"
INVARIANT PrintScn
CHECK_DEADLOCK FALSE
