SPECIFICATION Spec
CONSTANTS NConn = 1  MaxListen = 1  MaxClose = 1  MaxReads = 3  Fixed = TRUE  ZeroFirst = FALSE  RouteByByte = TRUE
INVARIANT NoViolation
VIEW View
CHECK_DEADLOCK FALSE
