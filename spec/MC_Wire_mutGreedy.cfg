SPECIFICATION Spec
CONSTANTS MaxAddr = 2  MaxMsg = 2  MaxPad = 2  Present = 3  BufSz = 2
  MutCheckAfter = FALSE  MutGreedy = TRUE  MutPadGE = FALSE
  Len1Set <- M1  Len2Set <- M2  TrailSet <- Tr1  CutSet <- Cut0
INVARIANT NoPropViolation
VIEW View
CHECK_DEADLOCK FALSE
