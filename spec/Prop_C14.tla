----------------------------- MODULE Prop_C14 -----------------------------
(* C14 - Gecko reassembles handshake packets exactly with bounded state.   *)
(* Total monitor over                                                      *)
(*   Write  one WriteTo through a Gecko-wrapped socket, with the datagrams *)
(*          it put on the wire (sizes, parsed frame headers)               *)
(*   Sent   declaration of a message (src, msgID, total, length) whose     *)
(*          frames will be fed to a receiver                               *)
(*   Feed   one datagram delivered to the receiver's inner socket and the  *)
(*          outcome of the ReadFrom call that consumed it                  *)
(*   Flood  a batch of first chunks of distinct new messages (summary)     *)
(*   Tick   passage of (virtual) time                                      *)
(* Feed/Flood/Tick carry the census of the reassembly table (white box).   *)
(* Times are milliseconds in traces; Sys_Gecko overrides cfg with scaled   *)
(* values.  Clauses named DRIFT_* are not part of the property.            *)
EXTENDS Mon

RealCfg == [capSrc |-> 8, capAll |-> 4096, ttl |-> 8000, grace |-> 12000]   \* grace = TTL + sweep period TTL/2
Salt == 8
Hdr  == 5

MonInit == [viol |-> {}, cfg |-> RealCfg,
            msgs |-> <<>>,        \* msg -> [src, mid, total, plen, last]  last[i+1] = time of the latest delivery of chunk i, -1 never
            pend |-> <<>>,        \* <<src, mid>> -> [msg, total, clean, tLo, tHi, got, clash]: reassembly entries that MAY exist
            mids |-> <<>>,        \* sending socket -> message IDs of its previous writes
            dirtyUntil |-> -1]    \* after a flood nothing is certain about the table until then

Upd(f, k, v) == [x \in (DOMAIN f) \cup {k} |-> IF x = k THEN v ELSE f[x]]
Del(f, k)    == [x \in (DOMAIN f) \ {k} |-> f[x]]

\* ---------------------------------------------------------------- sender
\* e: c, plen, long, n, errNil, nd, sizes, clens, pads, idxs, tots, mids, hdrOk, concatOk, min, max,
\*    fault (the harness made the inner socket refuse one datagram of this write: the write is expected to fail,
\*           nd counts the datagrams that did go out), conc (other writes on the socket were in progress)
WriteStep(m, e, ln) ==
  LET I == 1..e.nd
      shapeOk == Len(e.sizes) = e.nd /\ Len(e.clens) = e.nd /\ Len(e.pads) = e.nd
                 /\ Len(e.idxs) = e.nd /\ Len(e.tots) = e.nd /\ Len(e.mids) = e.nd
      mid == IF e.nd >= 1 /\ shapeOk THEN e.mids[1] ELSE -1
      prev == IF e.c \in DOMAIN m.mids THEN m.mids[e.c] ELSE <<>>                \* IDs used by this socket so far
      recent == SubSeq(prev, Max2(1, Len(prev) - 6), Len(prev))                  \* the previous 7 writes
      cs == e.plen \div Max2(e.nd, 1)
  IN IF ~e.long THEN
       [m EXCEPT !.viol = VAll(m.viol, e, ln,
          << <<"PassThrough", ~e.errNil \/ e.n # e.plen \/ e.nd # 1 \/ ~shapeOk \/ ~e.concatOk
                               \/ (shapeOk /\ e.nd = 1 /\ e.sizes[1] # Salt + e.plen)>> >>)]
     ELSE
       [m EXCEPT
         !.mids = IF mid >= 0 THEN Upd(m.mids, e.c, Append(prev, mid)) ELSE m.mids,
         !.viol = VAll(m.viol, e, ln,
          << <<"Lossless", ~e.fault /\ (~e.errNil \/ e.n # e.plen \/ ~shapeOk \/ ~e.hdrOk \/ ~e.concatOk
                            \/ e.nd < 2 \/ e.nd > 8
                            \/ (shapeOk /\ ( {e.idxs[i] : i \in I} # 0..(e.nd - 1)
                                             \/ \E i \in I : e.tots[i] # e.nd \/ e.mids[i] # mid
                                                           \/ e.sizes[i] # Salt + Hdr + e.pads[i] + e.clens[i]
                                             \/ SeqSum(e.clens) # e.plen )))>>,
             <<"SizeRange", shapeOk /\ \E i \in I : Salt + Hdr + e.clens[i] <= e.max
                                                     /\ (e.sizes[i] < e.min \/ e.sizes[i] > e.max)>>,
             <<"MsgIdFresh", mid >= 0 /\ \E j \in 1..Len(recent) : recent[j] = mid>>,
             <<"DRIFT_MsgIdSeq", ~e.conc /\ mid >= 0 /\ Len(prev) > 0 /\ mid # (prev[Len(prev)] + 1) % 256>>,
             <<"DRIFT_Pad", shapeOk /\ \E i \in I : Salt + Hdr + e.clens[i] > e.max /\ e.pads[i] # 0>>,
             <<"DRIFT_ChunkSizes", ~e.fault /\ shapeOk /\ e.nd >= 2 /\ \E i \in I :
                                     e.clens[i] # (IF e.idxs[i] = e.nd - 1 THEN e.plen - (e.nd - 1) * cs ELSE cs)>> >>)]

\* ---------------------------------------------------------------- receiver
Caps(m, e) == << <<"Caps",   e.tlen > m.cfg.capAll \/ e.maxps > m.cfg.capSrc>>,
                 <<"Census", ~e.census>> >>

Live(m, t) == {k \in DOMAIN m.pend : t - m.pend[k].tHi <= m.cfg.grace}

\* e: msg, idx, kind, src, t, emitted, outEq, outLen, addrOk, tlen, maxps, census
FeedChunk(m, e, ln) ==
  IF e.msg \notin DOMAIN m.msgs \/ e.idx < 0 \/ e.idx >= m.msgs[e.msg].total THEN
     [m EXCEPT !.viol = V(m.viol, e, ln, "DRIFT_EnvFeed", TRUE)]
  ELSE
  LET mm   == m.msgs[e.msg]
      k    == <<mm.src, mm.mid>>
      p0   == Restrict(m.pend, Live(m, e.t))
      has  == k \in DOMAIN p0
      maySrc == Cardinality({x \in DOMAIN p0 : x[1] = mm.src})
      mayAll == Cardinality(DOMAIN p0)
      cleanNew == maySrc < m.cfg.capSrc /\ mayAll < m.cfg.capAll /\ e.t > m.dirtyUntil
      new  == [msg |-> e.msg, total |-> mm.total, clean |-> cleanNew, tLo |-> e.t, tHi |-> e.t, got |-> {}, clash |-> FALSE]
      ent  == IF has THEN p0[k] ELSE new
      other == ent.msg # e.msg
      certain == ~other /\ ent.clean /\ e.t - ent.tLo < m.cfg.ttl       \* the entry is in the table for sure (or is created now)
      dup  == e.idx \in ent.got
      got2 == ent.got \cup {e.idx}
      complete == certain /\ ~dup /\ got2 = 0..(mm.total - 1)
      \* a creation while the table may be full can evict anything
      p1   == IF ~has /\ mayAll >= m.cfg.capAll THEN [x \in DOMAIN p0 |-> [p0[x] EXCEPT !.clean = FALSE]] ELSE p0
      ent2 == IF other   THEN [ent EXCEPT !.clean = FALSE, !.tHi = e.t, !.clash = @ \/ ent.total = mm.total]
              ELSE IF certain THEN [ent EXCEPT !.got = got2]
              ELSE [ent EXCEPT !.clean = FALSE, !.tHi = e.t, !.got = got2]
      pend2 == IF complete THEN Del(p1, k) ELSE Upd(p1, k, ent2)
      last2 == [mm.last EXCEPT ![e.idx + 1] = e.t]
      waived == has /\ (ent.clash \/ (other /\ ent.total = mm.total))   \* two messages with one key and one total: outside the property
  IN [m EXCEPT
       !.pend = pend2,
       !.msgs = Upd(m.msgs, e.msg, [mm EXCEPT !.last = last2]),
       !.viol = VAll(m.viol, e, ln, Caps(m, e) \o
         << <<"Deliver", complete /\ ~e.emitted>>,
            <<"Exact",   e.emitted /\ ~waived /\ ( ~e.outEq \/ ~e.addrOk \/ e.outLen # mm.plen
                                                    \/ \E i \in 1..mm.total : last2[i] < 0 )>>,
            <<"Forget",  e.emitted /\ ~waived /\ \E i \in 1..mm.total : last2[i] >= 0 /\ e.t - last2[i] > m.cfg.grace>>,
            <<"DRIFT_EnvKeyClash", other /\ ent.total = mm.total>>,
            <<"DRIFT_Reemit", e.emitted /\ ~complete /\ ~other /\ certain>> >>)]

FeedStep(m, e, ln) ==
  CASE e.kind = "chunk" -> FeedChunk(m, e, ln)
    [] e.kind = "short" -> [m EXCEPT !.viol = VAll(m.viol, e, ln, Caps(m, e) \o
                              << <<"PassThrough", ~e.emitted \/ ~e.outEq \/ ~e.addrOk>> >>)]
    [] OTHER            -> \* ill-formed frame: nothing may come out of it
                           [m EXCEPT !.viol = VAll(m.viol, e, ln, Caps(m, e) \o << <<"Exact", e.emitted>> >>)]

\* e: n, t, tlen, maxps, census, emitted (count)
FloodStep(m, e, ln) ==
  [m EXCEPT !.pend = [x \in DOMAIN m.pend |-> [m.pend[x] EXCEPT !.clean = FALSE, !.tHi = e.t]],
            !.dirtyUntil = e.t + m.cfg.grace,
            !.viol = VAll(m.viol, e, ln, Caps(m, e) \o << <<"Exact", e.emitted > 0>> >>)]

\* e: t, tlen, maxps, census, oldAge
TickStep(m, e, ln) ==
  [m EXCEPT !.pend = Restrict(m.pend, Live(m, e.t)),
            !.viol = VAll(m.viol, e, ln, Caps(m, e) \o << <<"Forget", e.oldAge > m.cfg.grace>> >>)]

MonStep(m, e, ln) ==
  CASE e.ev = "Reset" -> [MonInit EXCEPT !.viol = m.viol]
    [] e.ev = "Write" -> WriteStep(m, e, ln)
    [] e.ev = "Sent"  -> [m EXCEPT !.msgs = Upd(m.msgs, e.msg, [src |-> e.src, mid |-> e.mid, total |-> e.total, plen |-> e.plen,
                                                                 last |-> [i \in 1..e.total |-> -1]])]
    [] e.ev = "Feed"  -> FeedStep(m, e, ln)
    [] e.ev = "Flood" -> FloodStep(m, e, ln)
    [] e.ev = "Tick"  -> TickStep(m, e, ln)
    [] e.ev = "Panic" -> [m EXCEPT !.viol = V(m.viol, e, ln, "Panic", TRUE)]
    [] OTHER          -> m
===========================================================================
