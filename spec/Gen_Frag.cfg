SPECIFICATION Spec
CONSTANTS NMsg = 3  MaxCnt = 4  MaxDeliv = 10  FreshPktID = TRUE  FixCount = TRUE  DupCheck = TRUE
  GridD <- GD  GridH <- GH  GridL <- GL
INVARIANT PrintScn
CHECK_DEADLOCK FALSE
