------------------------------- MODULE Sys_Bbr -------------------------------
(* Model of the parts of core/internal/congestion/bbr/bbr_sender.go that decide  *)
(* the outputs named by C12, under Env_Quic (every event sequence QUIC can       *)
(* produce on a handful of packets):                                             *)
(*   - window arithmetic transcribed from calculateCongestionWindow,             *)
(*     calculateRecoveryWindow, updateRecoveryState, updateRoundTripCounter,     *)
(*     SetMaxDatagramSize/rescalePacketSizedWindows, GetCongestionWindow;        *)
(*   - bandwidthForPacer's floor;                                                *)
(*   - the sampler's per-packet map (present packet numbers; Emplace on send,    *)
(*     RemoveObsoletePackets after every event) - its ring is Sys_PNQueue.       *)
(* What the bandwidth sampler and the filters compute is abstracted into         *)
(* nondeterministic choices (target window, pacing rate, "full bandwidth         *)
(* reached", mode changes): the outputs must be sane for ANY estimate.           *)
(* Env_Quic: packet numbers increase (gaps allowed), acked/lost are packets in   *)
(* flight, packet-threshold loss detection (nothing older than largest_acked-2   *)
(* stays in flight), bytes-in-flight arguments are sums, the datagram size only  *)
(* grows.                                                                        *)
EXTENDS Prop_C12, TLC, Json, FiniteSets

CONSTANTS Mds0, MdsUp,            \* initial datagram size, sizes it may be raised to
          MinPkts, InitPkts, MaxPkts,   \* window limits in datagrams (code: 4, 32, 20000)
          MinBps, PrSet,          \* pacing floor (code: 65536) and abstract pacing-rate estimates
          MaxPn, MaxEv, SlotAdd,
          SmallOn,                \* TRUE: packets of 1 byte as well as full datagrams
          \* ---- model mutants ----
          ClampOn,      \* FALSE: calculateCongestionWindow without the final min/max       (bbr_sender.go:1006-1007)
          RecFloorOn,   \* FALSE: calculateRecoveryWindow without the minimum-window floor  (:1019, :1039)
          MinBpsOn,     \* FALSE: bandwidthForPacer without the minBps floor                (:665-670)
          PruneOn,      \* FALSE: no RemoveObsoletePackets                                  (:632)
          MdsClampOn,   \* FALSE: SetMaxDatagramSize keeps the old window                   (:499-507)
          PacerMdsOn    \* FALSE: SetMaxDatagramSize does not hand the new size to the pacer (:508)

VARIABLES lastPn, out, largest, mds,                                  \* Env_Quic
          mode, rec, cwnd, rwnd, full, initW, minW, maxW,             \* bbrSender
          lastSent, roundEnd, endRec, bif,
          pmds,                                                        \* Pacer.maxDatagramSize
          qp,                                                          \* sampler.connectionStateMap: present packet numbers
          nEv, mon, hist

vars == <<lastPn, out, largest, mds, mode, rec, cwnd, rwnd, full, initW, minW, maxW,
          lastSent, roundEnd, endRec, bif, pmds, qp, nEv, mon, hist>>

Cfg == [minPkts |-> MinPkts, maxPkts |-> MaxPkts, minBps |-> MinBps, thresh |-> 3, slotMul |-> 1, slotAdd |-> SlotAdd]

SetSum(S) == FoldLeft(LAMBDA a, x : a + x[2], 0, SetToSeq(S))
SortByPn(S) == SortSeq(SetToSeq(S), LAMBDA a, b : a[1] < b[1])
MaxOf(S) == CHOOSE x \in S : \A y \in S : y <= x
MinOf(S) == CHOOSE x \in S : \A y \in S : y >= x

\* ---------------- outputs (read after every call) ------------------------------
GetCwnd(md, cw, rw, rc) ==                                             \* bbr_sender.go:522-532
  IF md = "PROBE_RTT" THEN minW ELSE IF rc # "NOT" THEN Min2(cw, rw) ELSE cw
PacerBw(p) == IF MinBpsOn /\ p < MinBps THEN MinBps ELSE p             \* :663-672
Slots(q)   == IF q = {} THEN 0 ELSE MaxOf(q) - MinOf(q) + 1            \* queue: last - first + 1

\* ---------------- OnPacketSent ---------------------------------------------------
Send(gap, bytes, retrans, pr) ==
  /\ nEv < MaxEv
  /\ LET pn   == lastPn + gap
         infl == SetSum(out) + (IF retrans THEN bytes ELSE 0)     \* quic-go adds the packet before the call
         qp2  == IF retrans THEN qp \cup {pn} ELSE qp              \* sampler.OnPacketSent: Emplace
         e    == [ev |-> "Sent", scn |-> 0, t |-> 0, pn |-> pn, bytes |-> bytes, infl |-> infl, retrans |-> retrans,
                  cwnd |-> GetCwnd(mode, cwnd, rwnd, rec), bw |-> PacerBw(pr), slots |-> Slots(qp2)]
     IN /\ pn <= MaxPn
        /\ lastPn' = pn /\ lastSent' = pn /\ bif' = infl /\ qp' = qp2
        /\ out' = IF retrans THEN out \cup {<<pn, bytes>>} ELSE out
        /\ mon' = MonStep(mon, e, 0)
        /\ hist' = Append(hist, <<"send", gap, bytes, IF retrans THEN 1 ELSE 0>>)
  /\ nEv' = nEv + 1
  /\ UNCHANGED <<largest, mds, mode, rec, cwnd, rwnd, full, initW, minW, maxW, roundEnd, endRec, pmds>>

\* ---------------- OnCongestionEventEx ---------------------------------------------
\* lost sets QUIC can report together with the acked set A
LostChoices(A) ==
  LET R      == out \ A
      lg     == IF A = {} THEN largest ELSE Max2(largest, MaxOf({a[1] : a \in A}))
      forced == {p \in R : p[1] + 3 <= lg}                          \* packet threshold
      cand   == SortByPn({p \in R \ forced : p[1] < lg})            \* time threshold: a prefix of the older ones
  IN {forced \cup {cand[i] : i \in 1..k} : k \in 0..Len(cand)}

TwSet == {minW, minW + mds, maxW + mds}     \* target window incl. ack height: never below the minimum (:701)

\* The abstracted guards are offered as choices only where the code would evaluate them.
Cong(A, L) ==
  /\ nEv < MaxEv /\ A \cup L # {}
  /\ LET prior  == SetSum(out)
         aPns   == {a[1] : a \in A}
         hasL   == L # {}
         bif2   == prior - SetSum(A) - SetSum(L)
         lastA  == IF A = {} THEN -1 ELSE MaxOf(aPns)
         \* updateRoundTripCounter                                       :756-763
         rs     == A # {} /\ (roundEnd = -1 \/ lastA > roundEnd)
         rEnd1  == IF rs THEN lastSent ELSE roundEnd
         \* updateRecoveryState (uses isAtFullBandwidth as it was)       :902-935
         upd    == A # {} /\ full
         endR2  == IF upd /\ hasL THEN lastSent ELSE endRec
         rec1   == IF ~upd THEN rec
                   ELSE IF rec = "NOT" THEN (IF hasL THEN "CONS" ELSE "NOT")
                   ELSE LET r1 == IF rec = "CONS" /\ rs THEN "GROWTH" ELSE rec
                        IN IF ~hasL /\ lastA > endR2 THEN "NOT" ELSE r1
         rw1    == IF upd /\ rec = "NOT" /\ hasL THEN 0 ELSE rwnd
         rEnd2  == IF upd /\ rec = "NOT" /\ hasL THEN lastSent ELSE rEnd1
         \* sampler: only packets still in the map produce acked bytes    bandwidth_sampler.go:762-768
         bAck   == SetSum({a \in A : a[1] \in qp})
         bLost  == SetSum(L)
         \* RemoveObsoletePackets                                         :626-632
         least  == IF A # {} THEN lastA - 2 ELSE MaxOf({l[1] : l \in L}) + 1
         qp2    == IF PruneOn THEN {p \in qp : p >= least} ELSE qp
         ackedS == SortByPn(A)
         lostS  == SortByPn(L)
     IN
     \* checkIfFullBandwidthReached: only at a round start, only while not yet full   :602-604
     \E nowFull \in (IF rs /\ ~full THEN BOOLEAN ELSE {FALSE}) :
     LET full2 == full \/ nowFull
         md1   == IF mode = "STARTUP" /\ full2 THEN "DRAIN" ELSE mode            \* :833-843
     IN
     \E drainExit \in (IF md1 = "DRAIN" THEN BOOLEAN ELSE {FALSE}) :              \* :844-846
     LET md2 == IF drainExit THEN "PROBE_BW" ELSE md1 IN
     \* maybeEnterOrExitProbeRtt: min_rtt expired / PROBE_RTT served               :850-898
     \E rttMove \in BOOLEAN :
     LET md3 == IF ~rttMove THEN md2
                ELSE IF md2 # "PROBE_RTT" THEN "PROBE_RTT"
                ELSE IF full2 THEN "PROBE_BW" ELSE "STARTUP"
     IN
     \E tw \in (IF md3 = "PROBE_RTT" THEN {minW} ELSE TwSet) :
     \E fewAcked \in (IF ~full2 /\ cwnd >= tw /\ md3 # "PROBE_RTT" THEN BOOLEAN ELSE {FALSE}) :
     \E pr2 \in PrSet :
     LET \* calculateCongestionWindow                                     :978-1008
         cw1    == IF md3 = "PROBE_RTT" THEN cwnd
                   ELSE LET c == IF full2 THEN Min2(tw, cwnd + bAck)
                                 ELSE IF cwnd < tw \/ fewAcked THEN cwnd + bAck ELSE cwnd
                        IN IF ClampOn THEN Min2(Max2(c, minW), maxW) ELSE c
         \* calculateRecoveryWindow                                       :1011-1040
         rw2    == IF rec1 = "NOT" THEN rw1
                   ELSE IF rw1 = 0 THEN (IF RecFloorOn THEN Max2(minW, bif2 + bAck) ELSE bif2 + bAck)
                   ELSE LET a == IF rw1 >= bLost THEN rw1 - bLost ELSE mds
                            b == IF rec1 = "GROWTH" THEN a + bAck ELSE a
                            c == Max2(b, bif2 + bAck)
                        IN IF RecFloorOn THEN Max2(minW, c) ELSE c
         e      == [ev |-> "Cong", scn |-> 0, t |-> 0, prior |-> prior, acked |-> ackedS, lost |-> lostS,
                    cwnd |-> GetCwnd(md3, cw1, rw2, rec1), bw |-> PacerBw(pr2), slots |-> Slots(qp2)]
     IN /\ out' = (out \ A) \ L
        /\ largest' = IF A = {} THEN largest ELSE Max2(largest, lastA)
        /\ mode' = md3 /\ rec' = rec1 /\ cwnd' = cw1 /\ rwnd' = rw2 /\ full' = full2
        /\ roundEnd' = rEnd2 /\ endRec' = endR2 /\ bif' = bif2 /\ qp' = qp2
        /\ mon' = MonStep(mon, e, 0)
        /\ hist' = Append(hist, <<"cong", SortSeq(SetToSeq(aPns), LAMBDA x, y : x < y),
                                  SortSeq(SetToSeq({l[1] : l \in L}), LAMBDA x, y : x < y)>>)
  /\ nEv' = nEv + 1
  /\ UNCHANGED <<lastPn, mds, initW, minW, maxW, lastSent, pmds>>

\* ---------------- SetMaxDatagramSize ------------------------------------------------
Scale(w, old, new) == IF old = new THEN w ELSE (w * new) \div old      \* :408-413
SetMDS(v, pr) ==
  /\ nEv < MaxEv /\ v > mds
  /\ LET minW2  == MinPkts * v
         initW2 == Scale(initW, mds, v)
         maxW2  == Scale(maxW, mds, v)
         cw2    == IF ~MdsClampOn THEN cwnd
                   ELSE IF cwnd = minW THEN minW2
                   ELSE IF cwnd = initW THEN initW2
                   ELSE Min2(maxW2, Max2(cwnd, minW2))
         rw2    == IF ~MdsClampOn THEN rwnd ELSE Min2(maxW2, Max2(rwnd, minW2))
         e      == [ev |-> "SetMDS", scn |-> 0, mds |-> v,
                    cwnd |-> (IF mode = "PROBE_RTT" THEN minW2 ELSE IF rec # "NOT" THEN Min2(cw2, rw2) ELSE cw2),
                    bw |-> PacerBw(pr), slots |-> Slots(qp)]
     IN /\ pmds' = (IF PacerMdsOn THEN v ELSE mds)        \* b.pacer.SetMaxDatagramSize(s)
        /\ mds' = v /\ minW' = minW2 /\ initW' = initW2 /\ maxW' = maxW2 /\ cwnd' = cw2 /\ rwnd' = rw2
        /\ mon' = MonStep(mon, e, 0)
  /\ nEv' = nEv + 1
  /\ hist' = Append(hist, <<"mds", v>>)
  /\ UNCHANGED <<lastPn, out, largest, mode, rec, full, lastSent, roundEnd, endRec, bif, qp>>

\* ---------------- the send loop asks the pacer (pacing-limited sending) ------------------------
\* The token bucket itself is Sys_Brutal's (C11); here only what couples it to the sender: HasPacingBudget compares the
\* budget with the SENDER's datagram size (bbr_sender.go:439-441), TimeUntilSend / the announced time are computed by the
\* pacer for ITS datagram size (pacer.go:62-76).  budget = any value the bucket may hold right now.
Pace(budget) ==
  /\ nEv < MaxEv
  /\ LET has   == budget >= mds
         zero  == budget >= pmds              \* TimeUntilSend() = 0: "send immediately"
         e     == [ev |-> "Pace", scn |-> 0, t |-> 0, can |-> SetSum(out) < GetCwnd(mode, cwnd, rwnd, rec),
                   budget |-> has, dNs |-> IF has \/ zero THEN 0 ELSE 1,
                   okAt |-> has \/ (~zero /\ pmds >= mds)]       \* at the announced time the bucket holds pmds
     IN mon' = MonStep(mon, e, 0)
  /\ UNCHANGED <<lastPn, out, largest, mds, mode, rec, cwnd, rwnd, full, initW, minW, maxW,
                 lastSent, roundEnd, endRec, bif, pmds, qp, nEv, hist>>

Init == /\ lastPn = -1 /\ out = {} /\ largest = -1 /\ mds = Mds0
        /\ mode = "STARTUP" /\ rec = "NOT" /\ full = FALSE
        /\ initW = InitPkts * Mds0 /\ minW = MinPkts * Mds0 /\ maxW = MaxPkts * Mds0
        /\ cwnd = InitPkts * Mds0 /\ rwnd = MaxPkts * Mds0
        /\ lastSent = -1 /\ roundEnd = -1 /\ endRec = -1 /\ bif = 0 /\ pmds = Mds0
        /\ qp = {} /\ nEv = 0 /\ hist = <<>>
        /\ mon = [MonStart(Cfg, Mds0) EXCEPT !.measure = TRUE, !.warm = 1]     \* the deadlock clause is a verdict on this path

\* the pacing-rate estimate is an arbitrary value of PrSet at every read (calculatePacingRate abstracted)
Next == \/ \E gap \in {1, 2} : \E b \in (IF SmallOn THEN {1, mds} ELSE {mds}) : \E p \in PrSet : Send(gap, b, TRUE, p)
        \/ \E p \in PrSet : Send(1, 1, FALSE, p)
        \/ \E A \in SUBSET out : \E L \in LostChoices(A) : Cong(A, L)
        \/ \E v \in MdsUp : \E p \in PrSet : SetMDS(v, p)
        \/ \E b \in {0, Mds0, mds} : Pace(b)

Spec == Init /\ [][Next]_vars

NoViolation == mon.viol = {}
NoHardViolation == \A v \in mon.viol : v.clause \in DriftClauses
\* a behaviour ends at the event bound or when every packet number is used up and nothing is in flight
PrintScn == (nEv = MaxEv \/ (out = {} /\ lastPn = MaxPn)) => PrintT(<<"SCN", ToJson([steps |-> hist])>>)
View == <<lastPn, out, largest, mds, mode, rec, cwnd, rwnd, full, initW, minW, maxW,
          lastSent, roundEnd, endRec, bif, pmds, qp, mon>>
=============================================================================
