SPECIFICATION Spec
CONSTANTS InitSize = 2  MaxPn = 7  MaxOps = 1000  GrowOrderOn = TRUE  ClearupOn = TRUE  PopOn = TRUE
INVARIANT NoViolation
VIEW View
CHECK_DEADLOCK FALSE
