SPECIFICATION Spec
CONSTANTS MaxRank = 4  ServerCapsRate = TRUE  ClientHonoursAuto = TRUE  ClientZeroIsCC = TRUE  ReportInstalled = TRUE
INVARIANT PrintScn
CHECK_DEADLOCK FALSE
