----------------------------- MODULE Sys_UDPHop -----------------------------
(* Model of extras/transport/udphop/conn.go: udpHopPacketConn with its hop   *)
(* loop, receive loops, ReadFrom / WriteTo / Close callers and the fake      *)
(* ListenUDPFunc of the harness.  One action per critical section of the     *)
(* conn mutex (hop :172-225, WriteTo :245-254, Close :256-273) and per       *)
(* ReadFrom select (:227-243).  The environment is the harness driver:       *)
(*   quiet steps  - one operation alone, then a quiescent point;             *)
(*   instant steps - the hop timer fires and a set of callers run at the     *)
(*                   same virtual instant, in any order of their critical    *)
(*                   sections, then a quiescent point.                       *)
(* Every action emits the events the harness records and feeds them to the   *)
(* Prop_C19 monitor.                                                         *)
EXTENDS Prop_C19, TLC, Json, FiniteSetsExt

CONSTANTS MaxOps, MaxFire, MaxPkt, MaxRd, MaxWr,
          Items,       \* the port expression of the scenario (structured form)
          PortU,       \* port universe of the model
          HMin, HMax,  \* hop interval bounds (abstract ticks)
          Mut          \* "none" or one removed guard:
                       \*  "keepprev"  hop does not close the previous socket
                       \*  "failclosesprev" a failed listen closes and forgets the previous socket
                       \*  "closeskipsprev" Close leaves the previous socket open
                       \*  "writeprev" WriteTo uses the previous socket
                       \*  "anyport"   WriteTo may target any port
                       \*  "readclosed" ReadFrom after Close may still return a queued packet (the unrepaired code)
                       \*  "nounblock" Close does not wake blocked readers
                       \*  "latecheck" hop tests the closed flag after listening
                       \*  "wunlocked" WriteTo snapshots socket and target under the lock and sends after unlocking

VARIABLES s,           \* state of the connection, the fakes and the driver's counters
          phase, pending, hopOut, t, nops, nfire, mon, hist
vars == <<s, phase, pending, hopOut, t, nops, nfire, mon, hist>>

SrvIP == "S"

\* ---------------------------------------------------------------- events
EListen(k, ok, tt)  == [ev |-> "Listen", scn |-> 0, sock |-> k, ok |-> ok, t |-> tt]
ESockClose(k)       == [ev |-> "SockClose", scn |-> 0, sock |-> k]
EInnerWrite(k, p, tt) == [ev |-> "InnerWrite", scn |-> 0, sock |-> k, ip |-> SrvIP, port |-> p, t |-> tt]
EWriteCall(w)       == [ev |-> "WriteCall", scn |-> 0, w |-> w]
EWriteRet(w, ok)    == [ev |-> "WriteRet", scn |-> 0, w |-> w, ok |-> ok]
EReadCall(r)        == [ev |-> "ReadCall", scn |-> 0, r |-> r]
EReadRet(r, ok, g)  == [ev |-> "ReadRet", scn |-> 0, r |-> r, ok |-> ok, tag |-> g]
EArrive(k, g)       == [ev |-> "Arrive", scn |-> 0, sock |-> k, tag |-> g]
ECloseCall          == [ev |-> "CloseCall", scn |-> 0]
ECloseRet           == [ev |-> "CloseRet", scn |-> 0]
EQuiesce            == [ev |-> "Quiesce", scn |-> 0]
EEnd                == [ev |-> "End", scn |-> 0]
ESet                == [ev |-> "Set", scn |-> 0]
EReset              == [ev |-> "Reset", scn |-> 0, items |-> Items, ip |-> SrvIP, min |-> HMin, max |-> HMax]
ENew(ok, tt)        == [ev |-> "New", scn |-> 0, ok |-> ok, lfail |-> ~ok, t |-> tt]

Emit(m, es) == FoldLeft(LAMBDA mm, e : MonStep(mm, e, 0), m, es)
Ports == {p \in PortU : Cov(Items, p)}

\* ---------------------------------------------------------------- critical sections: <<events, state'>>
\* conn.go:172-225 hop()
HopCS(st, out, tt) ==
  IF st.closed THEN
     IF Mut = "latecheck" /\ out
     THEN << <<EListen(st.nsock + 1, TRUE, tt)>>, [st EXCEPT !.nsock = @ + 1, !.open = @ \cup {st.nsock + 1}] >>
     ELSE << <<>>, st >>
  ELSE IF ~out THEN
     IF Mut = "failclosesprev" /\ st.prev # 0
     THEN << <<EListen(0, FALSE, tt), ESockClose(st.prev)>>, [st EXCEPT !.open = @ \ {st.prev}, !.prev = 0] >>
     ELSE << <<EListen(0, FALSE, tt)>>, st >>
  ELSE LET n  == st.nsock + 1
           cl == st.prev # 0 /\ Mut # "keepprev"
       IN << <<EListen(n, TRUE, tt)>> \o (IF cl THEN <<ESockClose(st.prev)>> ELSE <<>>),
             [st EXCEPT !.nsock = n, !.open = (IF cl THEN @ \ {st.prev} ELSE @) \cup {n},
                        !.prev = st.cur, !.cur = n] >>

\* conn.go:245-254 WriteTo()
WriteCS(st, port, tt) ==
  LET w == st.nwr + 1
      k == IF Mut = "writeprev" /\ st.prev # 0 THEN st.prev ELSE st.cur
  IN IF st.closed
     THEN << <<EWriteCall(w), EWriteRet(w, FALSE)>>, [st EXCEPT !.nwr = w] >>
     ELSE << <<EWriteCall(w), EInnerWrite(k, port, tt), EWriteRet(w, TRUE)>>, [st EXCEPT !.nwr = w] >>

\* mutant "wunlocked": the two halves of a WriteTo that releases the lock before the socket write
WSnapCS(st) ==
  LET w == st.nwr + 1 IN
  IF st.closed THEN << <<EWriteCall(w), EWriteRet(w, FALSE)>>, [st EXCEPT !.nwr = w, !.wsnap = 0] >>
               ELSE << <<EWriteCall(w)>>, [st EXCEPT !.nwr = w, !.wsnap = st.cur] >>
WSendCS(st, port, tt) ==
  IF st.wsnap = 0 THEN << <<>>, st >>
  ELSE IF st.wsnap \in st.open
  THEN << <<EInnerWrite(st.wsnap, port, tt), EWriteRet(st.nwr, TRUE)>>, [st EXCEPT !.wsnap = 0] >>
  ELSE << <<EWriteRet(st.nwr, FALSE)>>, [st EXCEPT !.wsnap = 0] >>     \* the snapshotted socket has been closed

\* conn.go:256-273 Close()
CloseCS(st) ==
  IF st.closed THEN << <<ECloseCall, ECloseRet>>, st >>
  ELSE LET cp == st.prev # 0 /\ Mut # "closeskipsprev"
           rs == SetToSortSeq(st.blk, <)
           wake == IF Mut = "nounblock" THEN <<>> ELSE [i \in 1..Len(rs) |-> EReadRet(rs[i], FALSE, 0)]
       IN << <<ECloseCall>> \o (IF cp THEN <<ESockClose(st.prev)>> ELSE <<>>) \o <<ESockClose(st.cur)>>
                \o wake \o <<ECloseRet>>,
             [st EXCEPT !.closed = TRUE, !.open = (IF cp THEN @ \ {st.prev} ELSE @) \ {st.cur},
                        !.blk = IF Mut = "nounblock" THEN @ ELSE {}] >>

\* conn.go:227-243 ReadFrom(); stale = the select took the queue although closeChan is closed
ReadCS(st, stale) ==
  LET r == st.nrd + 1 IN
  IF st.closed /\ ~(stale /\ st.queue # <<>>)
  THEN << <<EReadCall(r), EReadRet(r, FALSE, 0)>>, [st EXCEPT !.nrd = r] >>
  ELSE IF st.queue # <<>>
  THEN << <<EReadCall(r), EReadRet(r, TRUE, Head(st.queue))>>, [st EXCEPT !.nrd = r, !.queue = Tail(@)] >>
  ELSE << <<EReadCall(r)>>, [st EXCEPT !.nrd = r, !.blk = @ \cup {r}] >>

\* a datagram reaches local socket k (driver's own census: k = newest - back); recvLoop (:123-147) of an
\* open socket moves it to the queue, a blocked reader takes it at once
ArriveCS(st, back) ==
  LET k == st.nsock - back
      g == st.ntag + 1
      st1 == [st EXCEPT !.ntag = g]
  IN IF k \notin st.open THEN << <<EArrive(k, g)>>, st1 >>
     ELSE IF st.blk # {} /\ ~st.closed
     THEN LET r == CHOOSE x \in st.blk : \A y \in st.blk : x <= y
          IN << <<EArrive(k, g), EReadRet(r, TRUE, g)>>, [st1 EXCEPT !.blk = @ \ {r}] >>
     ELSE << <<EArrive(k, g)>>, [st1 EXCEPT !.queue = Append(@, g)] >>

\* ---------------------------------------------------------------- environment
Apply(res, more, h) ==
  /\ s' = res[2]
  /\ mon' = Emit(mon, res[1] \o more)
  /\ hist' = Append(hist, h)

Quiet ==
  /\ phase = "idle" /\ nops < MaxOps
  /\ nops' = nops + 1
  /\ UNCHANGED <<phase, pending, hopOut, t, nfire>>
  /\ \/ \E back \in 0..2 : /\ s.ntag < MaxPkt /\ s.nsock - back >= 1
                           /\ Apply(ArriveCS(s, back), <<EQuiesce>>, <<"arrive", back>>)
     \/ /\ s.nrd < MaxRd
        /\ \E stale \in {FALSE, Mut = "readclosed"} : Apply(ReadCS(s, stale), <<EQuiesce>>, <<"read">>)
     \/ /\ s.nwr < MaxWr
        /\ \E p \in (IF Mut = "anyport" THEN PortU ELSE Ports) : Apply(WriteCS(s, p, t), <<EQuiesce>>, <<"write">>)
     \/ Apply(CloseCS(s), <<EQuiesce>>, <<"close">>)
     \/ Apply(<< <<ESet>>, s >>, <<EQuiesce>>, <<"set">>)

\* the hop timer fires (conn.go:149-163) while a set of callers start at the same instant
Fire ==
  /\ phase = "idle" /\ nfire < MaxFire /\ nops < MaxOps
  /\ nfire' = nfire + 1 /\ nops' = nops + 1
  /\ \E d \in HMin..HMax : t' = t + d
  /\ \E out \in BOOLEAN, S \in SUBSET {"write", "close", "read"} :
       /\ ("write" \in S => s.nwr < MaxWr) /\ ("read" \in S => s.nrd < MaxRd)
       /\ hopOut' = out
       /\ pending' = S \cup (IF s.closed THEN {} ELSE {"hop"})   \* hopLoop has left after Close
       /\ hist' = Append(hist, <<"fire", IF out THEN 1 ELSE 0, SelectSeq(<<"close", "read", "write">>, LAMBDA x : x \in S)>>)
  /\ phase' = "inst"
  /\ UNCHANGED <<s, mon>>

Inst ==
  /\ phase = "inst" /\ pending # {}
  /\ \E op \in pending :
       LET split == op = "write" /\ Mut = "wunlocked"
           rest  == (pending \ {op}) \cup (IF split THEN {"wsend"} ELSE {})
           fin   == IF rest = {} THEN <<EQuiesce>> ELSE <<>>
       IN /\ pending' = rest
          /\ phase' = IF rest = {} THEN "idle" ELSE "inst"
          /\ \/ op = "hop"   /\ s' = HopCS(s, hopOut, t)[2] /\ mon' = Emit(mon, HopCS(s, hopOut, t)[1] \o fin)
             \/ op = "close" /\ s' = CloseCS(s)[2] /\ mon' = Emit(mon, CloseCS(s)[1] \o fin)
             \/ op = "write" /\ ~split /\ \E p \in (IF Mut = "anyport" THEN PortU ELSE Ports) :
                                  s' = WriteCS(s, p, t)[2] /\ mon' = Emit(mon, WriteCS(s, p, t)[1] \o fin)
             \/ op = "write" /\ split /\ s' = WSnapCS(s)[2] /\ mon' = Emit(mon, WSnapCS(s)[1] \o fin)
             \/ op = "wsend" /\ \E p \in Ports :
                                  s' = WSendCS(s, p, t)[2] /\ mon' = Emit(mon, WSendCS(s, p, t)[1] \o fin)
             \/ op = "read"  /\ \E stale \in {FALSE, Mut = "readclosed"} :
                                  s' = ReadCS(s, stale)[2] /\ mon' = Emit(mon, ReadCS(s, stale)[1] \o fin)
  /\ UNCHANGED <<hopOut, t, nops, nfire, hist>>

\* the driver always closes at the end, lets two more intervals pass and takes the census
Finish ==
  /\ phase = "idle"
  /\ phase' = "done"
  /\ s' = CloseCS(s)[2]
  /\ mon' = Emit(mon, CloseCS(s)[1] \o <<EQuiesce, EEnd>>)
  /\ hist' = Append(hist, <<"finish">>)
  /\ UNCHANGED <<pending, hopOut, t, nops, nfire>>

S0 == [open |-> {1}, cur |-> 1, prev |-> 0, closed |-> FALSE, queue |-> <<>>, blk |-> {},
       nsock |-> 1, nwr |-> 0, nrd |-> 0, ntag |-> 0, wsnap |-> 0]

Init == /\ s = S0 /\ phase = "idle" /\ pending = {} /\ hopOut = FALSE /\ t = 0 /\ nops = 0 /\ nfire = 0
        /\ hist = <<>>
        /\ mon = Emit(MonInit, <<EReset, EListen(1, TRUE, 0), ENew(TRUE, 0)>>)

Next == Quiet \/ Fire \/ Inst \/ Finish
Spec == Init /\ [][Next]_vars

NoViolation == mon.viol = {}
PrintScn == (phase = "done") => PrintT(<<"SCN", ToJson(hist)>>)
View == <<s, phase, pending, hopOut, t, nops, nfire, mon>>
=============================================================================
