SPECIFICATION Spec
CONSTANTS NW = 2  NR = 2  MaxW = 4  MaxI = 6  MaxJ = 3  JunkLens <- JL
  UseWMu = TRUE  UseRMu = TRUE  UseLk = TRUE  DeobfInLock = TRUE  JunkRetry = TRUE  UnlockOnRetry = TRUE  KeyOwned = TRUE
INVARIANT PrintScn
CHECK_DEADLOCK FALSE
