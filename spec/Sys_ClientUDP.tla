---------------------------- MODULE Sys_ClientUDP ----------------------------
(* Model of core/client/udp.go: the client's UDP session manager.             *)
(*   NewUDP  [Lock]   closed? / id := nextID++ / conn with a bounded channel  *)
(*   feed    [RLock]  route by SessionID; unknown -> drop; channel full ->    *)
(*                    drop                                                    *)
(*   Receive          take from the channel, feed the session's Defragger     *)
(*   close   [Lock]   once: close the channel, delete from the map            *)
(*   run exit         closeCleanup: close every session, closed := TRUE       *)
(* Messages from the server: Msgs, each for a session id and in cnt fragments.*)
EXTENDS Integers, Sequences, FiniteSets, TLC

P == INSTANCE Prop_C05e

CONSTANTS MaxConn, Msgs, MaxCnt, ChanCap, MaxInject,
          RouteByID,      \* TRUE: feed looks the session up by the message's SessionID (mutant: delivers to the newest session)
          DeleteOnClose,  \* TRUE: close removes the session from the map (mutant: a later message is sent on the closed channel)
          SendUnderLock,  \* TRUE: feed holds the read lock from the lookup to the channel send (mutant: releases it in between)
          FreshIDs        \* TRUE: IDs are never reused (mutant: the lowest free ID is taken)

VARIABLES conns,     \* sequence of [id, open, q (channel), dpkt, dslots, eof]
          map,       \* set of indices into conns that are in the manager's map
          nextID, closed, msg, ninj, mon,
          inflight   \* mutant only: <<conn index, fragment>> looked up but not yet sent (<<>> = none)

vars == <<conns, map, nextID, closed, msg, ninj, mon, inflight>>
Feed(es) == LET RECURSIVE R(_, _) R(m, s) == IF s = <<>> THEN m ELSE R(P!MonStep(m, Head(s), 0), Tail(s)) IN mon' = R(mon, es)
E(name) == [ev |-> name, scn |-> 0]

NewUDP ==
  /\ UNCHANGED inflight
  /\ Len(conns) < MaxConn
  /\ IF closed THEN Feed(<< E("NewUDP") @@ [id |-> 0, ok |-> FALSE] >>) /\ UNCHANGED <<conns, map, nextID>>
     ELSE LET used == {conns[i].id : i \in map}
              id == IF FreshIDs THEN nextID ELSE CHOOSE k \in 1..(MaxConn + 1) : k \notin used /\ \A j \in 1..(k - 1) : j \in used
          IN /\ conns' = Append(conns, [id |-> id, open |-> TRUE, q |-> <<>>, dpkt |-> 0, dslots |-> <<>>, eof |-> FALSE])
             /\ map' = map \cup {Len(conns) + 1}
             /\ nextID' = nextID + 1
             /\ Feed(<< E("NewUDP") @@ [id |-> id, ok |-> TRUE] >>)
  /\ UNCHANGED <<closed, msg, ninj>>

\* the server sends fragment fid of message m (cnt fragments) to session sid
Inject(m, sid, fid) ==
  /\ ~closed /\ ninj < MaxInject /\ fid < msg[m].cnt /\ inflight = <<>>
  /\ ninj' = ninj + 1
  /\ LET f == [msg |-> m, fid |-> fid, cnt |-> msg[m].cnt]
         targets == IF RouteByID THEN {i \in map : conns[i].id = sid}
                    ELSE IF map = {} THEN {} ELSE {CHOOSE i \in map : \A j \in map : j <= i}
     IN IF targets = {} THEN UNCHANGED <<conns, inflight>>
        ELSE LET i == CHOOSE x \in targets : TRUE IN
             IF ~SendUnderLock THEN inflight' = <<i, f>> /\ UNCHANGED conns      \* lock released: the send happens later (FeedSend)
             ELSE /\ UNCHANGED inflight
                  /\ IF ~conns[i].open THEN UNCHANGED conns     \* send on closed channel: the real code would panic; see PanicOnClosed
                     ELSE IF Len(conns[i].q) >= ChanCap THEN UNCHANGED conns
                     ELSE conns' = [conns EXCEPT ![i].q = Append(@, f)]
  /\ Feed(<< E("Inject") @@ [sid |-> sid, msg |-> m, fid |-> fid, cnt |-> msg[m].cnt] >>)
  /\ UNCHANGED <<map, nextID, closed, msg>>

FeedSend ==                                 \* mutant only: the channel send after the lock was released
  /\ inflight # <<>>
  /\ LET i == inflight[1] IN
       IF conns[i].open /\ Len(conns[i].q) < ChanCap THEN conns' = [conns EXCEPT ![i].q = Append(@, inflight[2])] ELSE UNCHANGED conns
  /\ inflight' = <<>>
  /\ UNCHANGED <<map, nextID, closed, msg, ninj, mon>>

\* DeleteOnClose = FALSE: a closed session stays in the map and feed sends on its closed channel;
\* SendUnderLock = FALSE: the session was closed between the lookup and the send
PanicOnClosed == (\E i \in map : ~conns[i].open) \/ (inflight # <<>> /\ ~conns[inflight[1]].open)

Receive(i) ==
  /\ UNCHANGED inflight
  /\ i \in 1..Len(conns) /\ ~conns[i].eof
  /\ IF conns[i].q # <<>>
     THEN LET f == Head(conns[i].q)
              c == conns[i]
          IN IF f.cnt <= 1
             THEN /\ conns' = [conns EXCEPT ![i].q = Tail(@)]
                  /\ Feed(<< E("Recv") @@ [conn |-> c.id, pieces |-> << <<f.msg, 0>> >>, hdrOk |-> TRUE] >>)
             ELSE IF f.msg # c.dpkt \/ f.cnt # Len(c.dslots)
             THEN /\ conns' = [conns EXCEPT ![i].q = Tail(@), ![i].dpkt = f.msg,
                                           ![i].dslots = [k \in 1..f.cnt |-> IF k = f.fid + 1 THEN <<f.msg, f.fid>> ELSE <<0, 0>>]]
                  /\ UNCHANGED mon
             ELSE IF c.dslots[f.fid + 1] # <<0, 0>>
             THEN conns' = [conns EXCEPT ![i].q = Tail(@)] /\ UNCHANGED mon
             ELSE LET s2 == [c.dslots EXCEPT ![f.fid + 1] = <<f.msg, f.fid>>] IN
                  /\ conns' = [conns EXCEPT ![i].q = Tail(@), ![i].dslots = s2]
                  /\ IF \A k \in 1..Len(s2) : s2[k] # <<0, 0>>
                     THEN Feed(<< E("Recv") @@ [conn |-> c.id, pieces |-> s2, hdrOk |-> TRUE] >>)
                     ELSE UNCHANGED mon
     ELSE /\ ~conns[i].open                                     \* channel closed and drained: io.EOF
          /\ conns' = [conns EXCEPT ![i].eof = TRUE]
          /\ Feed(<< E("RecvEOF") @@ [conn |-> conns[i].id] >>)
  /\ UNCHANGED <<map, nextID, closed, msg, ninj>>

Close(i) ==
  /\ UNCHANGED inflight
  /\ i \in 1..Len(conns) /\ conns[i].open
  /\ conns' = [conns EXCEPT ![i].open = FALSE]
  /\ map' = IF DeleteOnClose THEN map \ {i} ELSE map
  /\ Feed(<< E("Close") @@ [conn |-> conns[i].id] >>)
  /\ UNCHANGED <<nextID, closed, msg, ninj>>

Loss ==
  /\ UNCHANGED inflight
  /\ ~closed /\ closed' = TRUE
  /\ conns' = [i \in 1..Len(conns) |-> [conns[i] EXCEPT !.open = FALSE]]
  /\ map' = {}
  /\ Feed(<< E("Loss") >>)
  /\ UNCHANGED <<nextID, msg, ninj>>

Init == /\ conns = <<>> /\ map = {} /\ nextID = 1 /\ closed = FALSE /\ ninj = 0
        /\ msg \in [Msgs -> [sid : 1..MaxConn, cnt : 1..MaxCnt]]
        /\ mon = P!MonInit /\ inflight = <<>>

Next == \/ NewUDP \/ Loss \/ FeedSend
        \/ \E m \in Msgs, fid \in 0..(MaxCnt - 1) : Inject(m, msg[m].sid, fid)
        \/ \E i \in 1..MaxConn : Receive(i) \/ Close(i)

Spec == Init /\ [][Next]_vars
NoViolation == mon.viol = {}
NoSendOnClosedChannel == ~PanicOnClosed
=============================================================================
