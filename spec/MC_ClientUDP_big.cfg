SPECIFICATION Spec
CONSTANTS MaxConn = 3  Msgs = {1, 2, 3}  MaxCnt = 2  ChanCap = 2  MaxInject = 5  RouteByID = TRUE  DeleteOnClose = TRUE  FreshIDs = TRUE  SendUnderLock = TRUE
INVARIANTS NoViolation NoSendOnClosedChannel
CHECK_DEADLOCK FALSE
