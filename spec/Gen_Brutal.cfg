SPECIFICATION Spec
CONSTANTS NPS = 4  MinDelay = 1  BurstMult = 4  BurstPkts = 2  MinSamples = 3  DefCwnd = 12  Mds0 = 3  Rtts <- RttQ
  BpsSet <- BpsPB  MdsUp <- MdsUp4  Steps <- StepsG  Batches <- BatAB  MaxTime = 400  MaxSends = 12  MaxAcks = 8  MaxOps = 16
  CeilOn = TRUE  CapOn = TRUE  ConsumeOn = TRUE  StampOn = TRUE  ClampN = 4  ClampD = 5  StaleOn = TRUE  FloorOn = TRUE
INVARIANT PrintScn
 
CHECK_DEADLOCK FALSE
