SPECIFICATION Spec
CONSTANTS InitSize = 1  MaxPn = 4  MaxOps = 1000  GrowOrderOn = FALSE  ClearupOn = TRUE  PopOn = TRUE
INVARIANT NoViolation
VIEW View
CHECK_DEADLOCK FALSE
