----------------------------- MODULE Prop_E2E -----------------------------
(* System-level monitor for the composition (Hysteria.tla): reconnecting    *)
(* client - auth gate - TCP relay / UDP sessions with outbound policy.      *)
(* It is not one of the listed properties; it is their conjunction seen     *)
(* from the two ends of the tunnel, and is checked by `bin/check C01         *)
(* --tier thorough` on full-stack executions.                               *)
(*  Reset(allow)                                                            *)
(*  Connected(gen)          the client application was told generation gen  *)
(*  AuthCall(gen, ok)       the server's authenticator judged generation gen*)
(*  CliSendTCP(gen, flow, tok)   client wrote token seq on TCP flow         *)
(*  TgtRecvTCP(gen, flow, tok)   the flow's target read token seq           *)
(*  TgtSendTCP / CliRecvTCP      the opposite direction                     *)
(*  CliSendUDP(gen, sess, dst, tag)  TgtRecvUDP(gen, sess, dst, tag)        *)
(*  TgtSendUDP(gen, sess, src, tag)  CliRecvUDP(gen, sess, src, tag)        *)
(*  Kill(gen)  Closed                                                       *)
(* gen/flow/sess of a target-side event are decoded from the target address *)
(* the client chose, so nothing is guessed.                                 *)
EXTENDS Mon

Put(f, k, v) == [x \in (DOMAIN f) \cup {k} |-> IF x = k THEN v ELSE f[x]]
Get(f, k, d) == IF k \in DOMAIN f THEN f[k] ELSE d

MonInit == [viol |-> {}, allow |-> {}, accepted |-> {}, known |-> {},
            upSent |-> <<>>, upGot |-> <<>>, dnSent |-> <<>>, dnGot |-> <<>>,   \* <<gen,flow>> -> count of tokens (TCP is ordered)
            udpUp |-> {}, udpDn |-> {}]                                         \* sets of <<gen, sess, addr, tag>>

MonStep(m, e, ln) ==
  CASE e.ev = "Reset" -> [MonInit EXCEPT !.viol = m.viol, !.allow = {e.allow[i] : i \in 1..Len(e.allow)}]
    [] e.ev = "Connected" -> [m EXCEPT !.known = @ \cup {e.gen}]
    [] e.ev = "AuthCall"  -> [m EXCEPT !.accepted = IF e.ok THEN @ \cup {e.gen} ELSE @]
    [] e.ev = "CliSendTCP" -> [m EXCEPT !.upSent = Put(@, <<e.gen, e.flow>>, Get(@, <<e.gen, e.flow>>, 0) + 1)]
    [] e.ev = "TgtSendTCP" -> [m EXCEPT !.dnSent = Put(@, <<e.gen, e.flow>>, Get(@, <<e.gen, e.flow>>, 0) + 1)]
    [] e.ev = "TgtRecvTCP" ->
         LET k == <<e.gen, e.flow>>  got == Get(m.upGot, k, 0) IN
         [m EXCEPT !.upGot = Put(@, k, got + 1),
                   !.viol = VAll(m.viol, e, ln,
            << <<"E2E_Unauthenticated", e.gen \notin m.accepted>>,
               <<"E2E_TCPNotWhatWasSent", e.tok # got + 1 \/ got + 1 > Get(m.upSent, k, 0)>> >>)]
    [] e.ev = "CliRecvTCP" ->
         LET k == <<e.gen, e.flow>>  got == Get(m.dnGot, k, 0) IN
         [m EXCEPT !.dnGot = Put(@, k, got + 1),
                   !.viol = VAll(m.viol, e, ln,
            << <<"E2E_TCPNotWhatWasSent", e.tok # got + 1 \/ got + 1 > Get(m.dnSent, k, 0)>> >>)]
    [] e.ev = "CliSendUDP" -> [m EXCEPT !.udpUp = @ \cup {<<e.gen, e.sess, e.dst, e.tag>>}]
    [] e.ev = "TgtSendUDP" -> [m EXCEPT !.udpDn = @ \cup {<<e.gen, e.sess, e.src, e.tag>>}]
    [] e.ev = "TgtRecvUDP" ->
         [m EXCEPT !.viol = VAll(m.viol, e, ln,
            << <<"E2E_Unauthenticated", e.gen \notin m.accepted>>,
               <<"E2E_PolicyBypassed",  e.dst \notin m.allow>>,
               <<"E2E_UDPNotWhatWasSent", <<e.gen, e.sess, e.dst, e.tag>> \notin m.udpUp>> >>)]
    [] e.ev = "CliRecvUDP" ->
         [m EXCEPT !.viol = VAll(m.viol, e, ln,
            << <<"E2E_UDPNotWhatWasSent", <<e.gen, e.sess, e.src, e.tag>> \notin m.udpDn>> >>)]
    [] e.ev = "Panic" -> [m EXCEPT !.viol = V(m.viol, e, ln, "Panic", TRUE)]
    [] OTHER -> m
===========================================================================
