---- MODULE MC_Punch ----
(* Exhaustive configurations of Sys_Punch (constants are set in the .cfg files). *)
EXTENDS Sys_Punch
====
