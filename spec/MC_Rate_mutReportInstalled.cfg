SPECIFICATION Spec
CONSTANTS MaxRank = 4  ServerCapsRate = TRUE  ClientHonoursAuto = TRUE  ClientZeroIsCC = TRUE  ReportInstalled = FALSE
INVARIANT NoViolation
CHECK_DEADLOCK FALSE
