SPECIFICATION Spec
CONSTANTS MsgSrc <- S6  MsgMid <- M6  MsgTot <- T6  CapSrc = 2  CapAll = 3  MaxDeliv = 5  MaxTick = 3
  GridP <- GP  GridMM <- GM
  DecOnComplete = TRUE  DupCheck = TRUE  TotalCheck = TRUE  CapStrict = TRUE  GcOn = TRUE  IdEarly = TRUE
INVARIANT NoViolation
INVARIANT TableOk
VIEW View
CHECK_DEADLOCK FALSE
