---- MODULE MC_Bbr ----
EXTENDS Sys_Bbr
MdsUp3 == {3}
PrQ    == {0}
PrB    == {0, 5}
====
