SPECIFICATION Spec
CONSTANTS NW = 1  NR = 1  MaxW = 0  MaxI = 2  MaxJ = 1  JunkLens <- JL1
  UseWMu = TRUE  UseRMu = TRUE  UseLk = TRUE  DeobfInLock = TRUE  JunkRetry = FALSE  UnlockOnRetry = TRUE  KeyOwned = TRUE
INVARIANT NoViolation

VIEW View
CHECK_DEADLOCK FALSE
