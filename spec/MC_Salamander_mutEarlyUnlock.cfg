SPECIFICATION Spec
CONSTANTS NW = 1  NR = 2  MaxW = 0  MaxI = 2  MaxJ = 0  JunkLens <- JL1
  UseWMu = TRUE  UseRMu = TRUE  UseLk = TRUE  DeobfInLock = FALSE  JunkRetry = TRUE  UnlockOnRetry = TRUE  KeyOwned = TRUE
INVARIANT NoViolation

VIEW View
CHECK_DEADLOCK FALSE
