SPECIFICATION Spec
CONSTANTS Proto = "socks"  NoneOK = FALSE  AuthFirst = TRUE  KeepBuffered = TRUE  Cut = FALSE
INVARIANT NoViolation
CHECK_DEADLOCK FALSE
