SPECIFICATION GenSpec
CONSTANTS MaxL = 7  MaxT = 3  BufSz = 2  Cap = 6
  KeepProbe = TRUE  ProbeShort = TRUE  TeeOnErr = TRUE  PadShort = FALSE  PortFromHost = FALSE  Pooled = FALSE  InPlace = FALSE
INVARIANT PrintScn
CHECK_DEADLOCK FALSE
