----------------------------- MODULE Sys_Inbound -----------------------------
(* Model of the two local inbound servers of the client application:          *)
(*  - app/internal/socks5/server.go (dispatch/negotiate/handleTCP/handleUDP   *)
(*    with the txthinking/socks5 readers: every field is an io.ReadFull of    *)
(*    exactly the bytes it needs), byte level;                                *)
(*  - app/internal/http/server.go (dispatch: per request Proxy-Authorization  *)
(*    check, CONNECT with the bufio tail replayed through cachedConn, plain   *)
(*    requests through the HyClient-backed transport), request level.         *)
(* The environment is one local client connection sending an arbitrary byte   *)
(* stream: every concatenation of well-formed and malformed negotiation       *)
(* pieces, cut off at every length (SOCKS5); every short sequence of requests *)
(* with no / wrong / right / unparsable credentials and a pipelined tail that *)
(* is partly in the server's bufio buffer and partly not (HTTP).              *)
(* Mutant switches: NoneOK (SOCKS5 accepts "no authentication" although an    *)
(* AuthFunc is configured), AuthFirst = FALSE (HTTP dials before checking),   *)
(* KeepBuffered = FALSE (HTTP drops the buffered tail), SharedBuf (one relay    *)
(* buffer for both directions of a tunnel).                                    *)
EXTENDS Prop_C18, TLC, Json

CONSTANTS Proto,         \* "socks" | "http"
          NoneOK, AuthFirst, KeepBuffered,
          SharedBuf,     \* TRUE (mutant): both relay directions of a tunnel copy through one buffer
          Cut            \* TRUE: also every proper prefix of every SOCKS5 stream

VARIABLES authSet, noUDP, stream, meta,   \* the scenario
          remote,                         \* what the upstream side sends while the first client bytes are being written
          pc, plan, k, mon

vars == <<authSet, noUDP, stream, meta, remote, pc, plan, k, mon>>

G == 103   \* 'g'   AuthFunc accepts user "g<digit>" with password "g"
B == 98    \* 'b'
GoodUser(u) == Len(u) = 2 /\ u[1] = G
GoodPass(p) == p = <<G>>
ReqOf(u) == IF Len(u) = 2 /\ u[2] \in 48..57 THEN u[2] - 48 ELSE 0

\* The relay (handleTCP / handleConnect): client -> upstream in one goroutine, upstream -> client in another.  The first
\* chunk d has been read from the client and its Write to the upstream is in flight when `remote` arrives from the
\* upstream; with one shared buffer (mutant) the bytes being written are overwritten by it.
Clobber(d) == IF SharedBuf /\ remote # <<>> THEN [i \in 1..Len(d) |-> IF i <= Len(remote) THEN remote[i] ELSE d[i]] ELSE d
DownEv == IF remote = <<>> THEN <<>>
          ELSE << [ev |-> "Down", scn |-> 0, conn |-> 1, sent |-> remote, got |-> remote, long |-> FALSE, prefixOk |-> TRUE] >>

\* ================================================================= SOCKS5
Greetings == { <<5,1,0>>, <<5,1,2>>, <<5,2,0,2>>, <<5,2,2,0>>, <<5,1,1>>, <<4,1,2>>, <<5,0>>, <<5,3,0,1>> }
UserPass  == { <<1,2,u,49,1,p>> : u \in {G,B}, p \in {G,B} } \cup { <<1,0>>, <<5,2,G,49,1,G>>, <<1,2,G,49,0>>, <<>> }
Requests  == { <<5,1,0,1,10,0,0,1,0,80>>, <<5,1,0,3,1,120,1,187>>, <<5,3,0,1,0,0,0,0,0,0>>, <<5,2,0,1,10,0,0,1,0,80>>,
               <<5,1,0,9,1,2>>, <<4,1,0,1,10,0,0,1,0,80>>, <<5,1,0,3,0,0,80>> }
Tails     == { <<>>, <<7>>, <<7,8,9>> }

Cuts(s) == IF Cut THEN {SubSeq(s, 1, n) : n \in 0..Len(s)} ELSE {s}
SocksScenarios ==
  UNION { { [bytes |-> p, presented |-> IF Len(u) = 6 /\ u[1] = 1 THEN << <<SubSeq(u,3,4), SubSeq(u,6,6)>> >> ELSE <<>>] :
              p \in Cuts(g \o u \o r \o t) } : g \in Greetings, u \in UserPass, r \in Requests, t \in Tails }

Avail(s, p, n) == p + n - 1 <= Len(s)
Fail(calls)    == [auth |-> calls, dial |-> "none", tailPos |-> 0]

\* request part, starting at p2 (socks5.NewRequestFrom + dispatch)
SocksRequest(s, p2, calls) ==
  IF ~Avail(s, p2, 4) \/ s[p2] # 5 THEN Fail(calls)
  ELSE LET cmd == s[p2+1]  atyp == s[p2+3] IN
       IF atyp \notin {1, 3, 4} THEN Fail(calls)
       ELSE IF atyp = 3 /\ (~Avail(s, p2+4, 1) \/ s[p2+4] = 0) THEN Fail(calls)
       ELSE LET alen == IF atyp = 1 THEN 4 ELSE IF atyp = 4 THEN 16 ELSE 1 + s[p2+4] IN
            IF ~Avail(s, p2+4, alen+2) THEN Fail(calls)
            ELSE [auth |-> calls,
                  dial |-> IF cmd = 1 THEN "tcp" ELSE IF cmd = 3 /\ ~noUDP THEN "udp" ELSE "none",
                  tailPos |-> p2 + 4 + alen + 2]

\* negotiate (server.go:68-119)
SocksParse(s) ==
  IF ~Avail(s, 1, 2) \/ s[1] # 5 \/ s[2] = 0 \/ ~Avail(s, 3, s[2]) THEN Fail(<<>>)
  ELSE LET nm == s[2]
           methods == {s[i] : i \in 3..(2+nm)}
           p1 == 3 + nm
           want == IF authSet THEN (IF NoneOK /\ 2 \notin methods THEN 0 ELSE 2) ELSE 0
       IN IF want \notin methods THEN Fail(<<>>)
          ELSE IF want = 0 THEN SocksRequest(s, p1, <<>>)
          ELSE IF ~Avail(s, p1, 2) \/ s[p1] # 1 \/ s[p1+1] = 0 \/ ~Avail(s, p1+2, s[p1+1]+1) THEN Fail(<<>>)
          ELSE LET ul == s[p1+1]  pl == s[p1+2+ul] IN
               IF pl = 0 \/ ~Avail(s, p1+3+ul, pl) THEN Fail(<<>>)
               ELSE LET user == SubSeq(s, p1+2, p1+1+ul)
                        pass == SubSeq(s, p1+3+ul, p1+2+ul+pl)
                        call == << [user |-> user, pass |-> pass, ok |-> GoodUser(user) /\ GoodPass(pass)] >>
                    IN IF ~call[1].ok THEN Fail(call) ELSE SocksRequest(s, p1+3+ul+pl, call)

\* the events of one SOCKS5 connection, in the order the server produces them
SocksPlan(sc) ==
  LET r == SocksParse(sc.bytes)
      tail == IF r.dial = "tcp" THEN SubSeq(sc.bytes, r.tailPos, Len(sc.bytes)) ELSE <<>>
  IN << [ev |-> "Conn", scn |-> 0, conn |-> 1, proto |-> "socks", authSet |-> authSet, presented |-> sc.presented,
         tail |-> tail, tailKnown |-> r.dial = "tcp", long |-> FALSE, tlen |-> Len(tail), expectDial |-> r.dial # "none"] >>
     \o [i \in 1..Len(r.auth) |-> [ev |-> "AuthFunc", scn |-> 0, conn |-> 1, req |-> ReqOf(r.auth[i].user),
                                   user |-> r.auth[i].user, pass |-> r.auth[i].pass, ok |-> r.auth[i].ok]]
     \o (IF r.dial = "tcp" THEN << [ev |-> "HyTCP", scn |-> 0, conn |-> 1, req |-> 1] >>
         ELSE IF r.dial = "udp" THEN << [ev |-> "HyUDP", scn |-> 0, conn |-> 1, req |-> 1] >> ELSE <<>>)
     \o (IF tail # <<>> THEN << [ev |-> "UpWrite", scn |-> 0, conn |-> 1, data |-> Clobber(tail), n |-> Len(tail), match |-> TRUE] >> ELSE <<>>)
     \o (IF r.dial = "tcp" THEN DownEv ELSE <<>>)
     \o << [ev |-> "ConnDone", scn |-> 0, conn |-> 1] >>

\* ================================================================= HTTP
\* a request: kind, cred ("none" | "good" | "bad" | "garbage"), keep (keep-alive asked for), buf / later: the
\* pipelined bytes behind a CONNECT header that arrive with the header / afterwards
HttpReqs == [kind : {"connect", "get"}, cred : {"none", "good", "bad", "garbage"}, keep : BOOLEAN,
             buf : {<<>>, <<7, 8>>}, later : {<<>>, <<9>>}]
HttpScenarios == { <<a>> : a \in HttpReqs } \cup { <<a, b>> : a \in {x \in HttpReqs : x.kind = "get" /\ x.buf = <<>> /\ x.later = <<>>}, b \in HttpReqs }

CredOf(rq, i) == IF rq.cred = "good" THEN << <<G, 48+i>>, <<G>> >> ELSE IF rq.cred = "bad" THEN << <<G, 48+i>>, <<B>> >> ELSE <<>>

\* server.go:49-116, one iteration of the request loop per element of rs; returns the event sequence
RECURSIVE HttpLoop(_, _)
HttpLoop(rs, i) ==
  IF i > Len(rs) THEN <<>>
  ELSE LET rq == rs[i]
           cr == CredOf(rq, i)
           authEv == IF authSet /\ cr # <<>>
                     THEN << [ev |-> "AuthFunc", scn |-> 0, conn |-> 1, req |-> i, user |-> cr[1], pass |-> cr[2], ok |-> rq.cred = "good"] >>
                     ELSE <<>>
           pass == ~authSet \/ rq.cred = "good"
           dialEv == << [ev |-> "HyTCP", scn |-> 0, conn |-> 1, req |-> i] >>
           up(d) == IF d = <<>> THEN <<>> ELSE << [ev |-> "UpWrite", scn |-> 0, conn |-> 1, data |-> d, n |-> Len(d), match |-> TRUE] >>
           body == IF rq.kind = "connect"
                   THEN dialEv \o (IF KeepBuffered THEN up(Clobber(rq.buf)) ELSE <<>>)
                               \o up(IF rq.buf = <<>> \/ ~KeepBuffered THEN Clobber(rq.later) ELSE rq.later) \o DownEv
                   ELSE dialEv \o (IF rq.keep THEN HttpLoop(rs, i + 1) ELSE <<>>)
       IN IF AuthFirst THEN authEv \o (IF pass THEN body ELSE <<>>)
          ELSE dialEv \o authEv \o (IF pass THEN Tail(body) ELSE <<>>)      \* mutant: dial, then check

HttpPlan(rs) ==
  LET first == rs[1]
      ok(rq) == ~authSet \/ rq.cred = "good"
      \* the bytes that have to reach the upstream: the tail of a CONNECT the server gets to and accepts
      tail == IF first.kind = "connect" THEN (IF ok(first) THEN first.buf \o first.later ELSE <<>>)
              ELSE IF Len(rs) = 2 /\ rs[2].kind = "connect" /\ ok(first) /\ first.keep /\ ok(rs[2])
                   THEN rs[2].buf \o rs[2].later ELSE <<>>
      presented == [i \in 1..Len(rs) |-> CredOf(rs[i], i)]
      evs == HttpLoop(rs, 1)
      dials == \E j \in 1..Len(evs) : evs[j].ev = "HyTCP"
  IN << [ev |-> "Conn", scn |-> 0, conn |-> 1, proto |-> "http", authSet |-> authSet,
         presented |-> SelectSeq(presented, LAMBDA x : x # <<>>),
         tail |-> tail, tailKnown |-> TRUE, long |-> FALSE, tlen |-> Len(tail), expectDial |-> dials] >>
     \o evs \o << [ev |-> "ConnDone", scn |-> 0, conn |-> 1] >>

\* ================================================================= behaviour
Init == /\ authSet \in BOOLEAN /\ noUDP \in BOOLEAN /\ remote \in {<<>>, <<33, 34, 35>>}
        /\ IF Proto = "socks" THEN \E sc \in SocksScenarios : stream = sc.bytes /\ meta = sc.presented
                              ELSE \E rs \in HttpScenarios : stream = rs /\ meta = <<>>
        /\ pc = "start" /\ plan = <<>> /\ k = 1 /\ mon = MonInit

Start == /\ pc = "start"
         /\ plan' = IF Proto = "socks" THEN SocksPlan([bytes |-> stream, presented |-> meta]) ELSE HttpPlan(stream)
         /\ pc' = "run"
         /\ UNCHANGED <<authSet, noUDP, stream, meta, remote, k, mon>>

Step == /\ pc = "run" /\ k <= Len(plan)
        /\ mon' = MonStep(mon, plan[k], 0)
        /\ k' = k + 1
        /\ UNCHANGED <<authSet, noUDP, stream, meta, remote, pc, plan>>

Next == Start \/ Step
Spec == Init /\ [][Next]_vars

NoViolation == mon.viol = {}
PrintScn == (pc = "run" /\ k = 2) =>
   PrintT(<<"SCN", ToJson([proto |-> Proto, authSet |-> authSet, noUDP |-> noUDP, stream |-> stream, remote |-> remote,
                           conn |-> plan[1]])>>)
=============================================================================
