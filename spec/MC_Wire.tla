---- MODULE MC_Wire ----
EXTENDS Sys_Wire
\* scaled limits: 2/2/2; 3 is "limit+1", 70 needs a 2-byte varint, 1000000 a 4-byte one, -1 is 2^62-1
L1 == {0, 1, 2, 3, 70, 1000000, -1}
L2 == {0, 1, 2, 3, 70, -1}
\* generator: the REAL limits, tiny frames plus over-limit declarations (tape replayed literally into the real readers)
G1 == {0, 1, 2, 3, 64, 2049, 1000000, -1}
G2 == {0, 1, 2, 3, 64, 4097, -1}
\* thorough: limits 3/2/3 (address and message limits differ)
B1 == {0, 1, 2, 3, 4, 70, 1000000, -1}
B2 == {0, 1, 2, 3, 4, 70, -1}
Tr3 == {0, 1, 2, 3}
\* model mutants: a smaller universe is enough to expose them
M1 == {0, 1, 2, 3, -1}
M2 == {0, 1, 2, 3, -1}
Tr1 == {0, 1}
Tr == {0, 1, 2}
Cut == {0, 1}
Cut0 == {0}
====
