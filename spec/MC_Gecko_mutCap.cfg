SPECIFICATION Spec
CONSTANTS MsgSrc <- S5  MsgMid <- M5  MsgTot <- T5  CapSrc = 2  CapAll = 3  MaxDeliv = 4  MaxTick = 1
  GridP <- GP1  GridMM <- GM1
  DecOnComplete = TRUE  DupCheck = TRUE  TotalCheck = TRUE  CapStrict = FALSE  GcOn = TRUE  IdEarly = TRUE
INVARIANT NoViolation

VIEW View
CHECK_DEADLOCK FALSE
