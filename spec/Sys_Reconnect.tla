---------------------------- MODULE Sys_Reconnect ----------------------------
(* Model of core/client/reconnect.go.  Callers run clientDo in three steps:   *)
(*   D1 [m]  closed? -> ClosedError; client = nil -> reconnect()              *)
(*   D2      f(client) without the lock (ok | ClosedError | stream limit)     *)
(*   D3 [m]  on ClosedError, if rc.client is still that client: drop it       *)
(*           (and close it - CloseDropped; FALSE is the tree as found)        *)
(* reconnect(): close a still-referenced client, evaluate the configuration,  *)
(* obtain a socket from the factory, handshake (fails when the server is      *)
(* down; connect() then cleans its socket up), count+1, connected callback.   *)
(* Environment: the current connection may die at any time; the configuration *)
(* function and the server may fail.                                          *)
EXTENDS Integers, Sequences, FiniteSets, TLC, Json

P == INSTANCE Prop_C16

CONSTANTS Callers, MaxGen, MaxCalls, MaxKill,
          DropOnlyOwn,       \* TRUE: clientDo forgets rc.client only if it is still the client the failed call used
          CloseDropped,      \* TRUE: clientDo closes the client it drops
          ClosedCheckLocked, \* TRUE: the permanent-close flag is read under the mutex (FALSE: read before taking it, not re-read)
          CheckClosedFlag,   \* TRUE: clientDo refuses after Close()
          ReconnectWhenNil,  \* FALSE (mutant): a dropped client is never replaced - calls keep failing
          LimitIsRecoverable,\* TRUE: a stream-limit error does not drop the client
          GenHist

VARIABLES client,     \* 0 = nil, else generation number of rc.client
          gens,       \* sequence of [sock, alive (connection usable), closedByUs]
          socks,      \* set of open factory sockets (ids = generation numbers)
          count, closed, pc, ncalls, nkill, cfgFail, srvDown, mon, hist

vars == <<client, gens, socks, count, closed, pc, ncalls, nkill, cfgFail, srvDown, mon, hist>>
Feed(es) == LET RECURSIVE R(_, _) R(m, s) == IF s = <<>> THEN m ELSE R(P!MonStep(m, Head(s), 0), Tail(s)) IN mon' = R(mon, es)
E(name) == [ev |-> name, scn |-> 0]
H(x) == hist' = IF GenHist THEN Append(hist, x) ELSE hist
Open == [ev |-> "Quiesce", scn |-> 0, open |-> IF socks = {} THEN <<>> ELSE
           CHOOSE s \in [1..Cardinality(socks) -> socks] : \A i, j \in 1..Cardinality(socks) : i # j => s[i] # s[j]]

\* reconnect(), as a function of the current state: returns <<client', gens', socks', count', events, ok>>
Reconnect ==
  LET socks1 == IF client # 0 THEN socks \ {client} ELSE socks                      \* rc.client.Close()
      ev1    == IF client # 0 /\ client \in socks THEN << E("SockClose") @@ [sock |-> client] >> ELSE <<>>
  IN IF cfgFail THEN << 0, gens, socks1, count, ev1 \o << E("Config") @@ [ok |-> FALSE] >>, FALSE >>
     ELSE LET g == Len(gens) + 1 IN
          IF srvDown
          THEN << 0, Append(gens, [alive |-> FALSE]), socks1, count,
                  ev1 \o << E("Config") @@ [ok |-> TRUE], E("FactoryNew") @@ [sock |-> g, ok |-> TRUE], E("SockClose") @@ [sock |-> g] >>, FALSE >>
          ELSE << g, Append(gens, [alive |-> TRUE]), socks1 \cup {g}, count + 1,
                  ev1 \o << E("Config") @@ [ok |-> TRUE], E("FactoryNew") @@ [sock |-> g, ok |-> TRUE], E("Connected") @@ [count |-> count + 1] >>, TRUE >>

Start(g) == /\ pc[g].st = "idle" /\ ncalls < MaxCalls
            /\ ncalls' = ncalls + 1
            /\ pc' = [pc EXCEPT ![g] = [st |-> IF ClosedCheckLocked THEN "d1" ELSE "d0", cl |-> 0]]
            /\ Feed(<< E("Call") @@ [g |-> g] >>) /\ H([op |-> "call", g |-> g])
            /\ UNCHANGED <<client, gens, socks, count, closed, nkill, cfgFail, srvDown>>

\* mutant only: the closed flag is read without the lock; a caller that passed the test then waits for the mutex
D0(g) == /\ pc[g].st = "d0"
         /\ IF closed
            THEN pc' = [pc EXCEPT ![g] = [st |-> "idle", cl |-> 0]] /\ Feed(<< E("Ret") @@ [g |-> g, kind |-> "closed"] >>)
            ELSE pc' = [pc EXCEPT ![g] = [st |-> "d1", cl |-> 0]] /\ UNCHANGED mon
         /\ UNCHANGED <<client, gens, socks, count, closed, ncalls, nkill, cfgFail, srvDown, hist>>

D1(g) == /\ pc[g].st = "d1"
         /\ IF closed /\ CheckClosedFlag /\ ClosedCheckLocked
            THEN /\ pc' = [pc EXCEPT ![g] = [st |-> "idle", cl |-> 0]]
                 /\ Feed(<< E("Ret") @@ [g |-> g, kind |-> "closed"] >>)
                 /\ UNCHANGED <<client, gens, socks, count>>
            ELSE IF client = 0 /\ ~ReconnectWhenNil /\ Len(gens) > 0
            THEN /\ pc' = [pc EXCEPT ![g] = [st |-> "idle", cl |-> 0]]
                 /\ Feed(<< E("Ret") @@ [g |-> g, kind |-> "closed"] >>)
                 /\ UNCHANGED <<client, gens, socks, count>>
            ELSE IF client = 0
            THEN /\ Len(gens) < MaxGen
                 /\ LET r == Reconnect IN
                      /\ client' = r[1] /\ gens' = r[2] /\ socks' = r[3] /\ count' = r[4]
                      /\ IF r[6] THEN pc' = [pc EXCEPT ![g] = [st |-> "d2", cl |-> r[1]]] /\ Feed(r[5])
                         ELSE pc' = [pc EXCEPT ![g] = [st |-> "idle", cl |-> 0]] /\ Feed(r[5] \o << E("Ret") @@ [g |-> g, kind |-> "cfgerr"] >>)
            ELSE /\ pc' = [pc EXCEPT ![g] = [st |-> "d2", cl |-> client]]
                 /\ UNCHANGED <<client, gens, socks, count, mon>>
         /\ UNCHANGED <<closed, ncalls, nkill, cfgFail, srvDown, hist>>

\* f(client) outside the lock
D2(g, limit) ==
  /\ pc[g].st = "d2"
  /\ LET c == pc[g].cl IN
     IF ~gens[c].alive
     THEN pc' = [pc EXCEPT ![g].st = "d3"] /\ UNCHANGED mon
     ELSE IF limit
     THEN IF LimitIsRecoverable
          THEN pc' = [pc EXCEPT ![g] = [st |-> "idle", cl |-> 0]] /\ Feed(<< E("Ret") @@ [g |-> g, kind |-> "limit"] >>)
          ELSE pc' = [pc EXCEPT ![g].st = "d3lim"] /\ UNCHANGED mon
     ELSE pc' = [pc EXCEPT ![g] = [st |-> "idle", cl |-> 0]] /\ Feed(<< E("Ret") @@ [g |-> g, kind |-> "ok"] >>)
  /\ UNCHANGED <<client, gens, socks, count, closed, ncalls, nkill, cfgFail, srvDown, hist>>

D3(g) == /\ pc[g].st \in {"d3", "d3lim"}
         /\ LET c == pc[g].cl
                drop == IF DropOnlyOwn THEN client = c ELSE TRUE   \* mutant: closes ITS client, forgets whatever is current
            IN /\ client' = IF drop THEN 0 ELSE client
               /\ socks' = IF drop /\ CloseDropped THEN socks \ {c} ELSE socks                    \* Close() of the call's own client
               /\ Feed((IF drop /\ CloseDropped /\ c \in socks THEN << E("SockClose") @@ [sock |-> c] >> ELSE <<>>)
                       \o << E("Ret") @@ [g |-> g, kind |-> IF pc[g].st = "d3" THEN "closed" ELSE "limit"] >>)
         /\ pc' = [pc EXCEPT ![g] = [st |-> "idle", cl |-> 0]]
         /\ UNCHANGED <<gens, count, closed, ncalls, nkill, cfgFail, srvDown, hist>>

Close == /\ ~closed /\ closed' = TRUE
         /\ socks' = IF client # 0 THEN socks \ {client} ELSE socks
         /\ gens' = IF client # 0 THEN [gens EXCEPT ![client].alive = FALSE] ELSE gens
         /\ Feed((IF client # 0 /\ client \in socks THEN << E("SockClose") @@ [sock |-> client] >> ELSE <<>>) \o << E("CloseRet") >>)
         /\ H([op |-> "close", g |-> 0])
         /\ UNCHANGED <<client, count, pc, ncalls, nkill, cfgFail, srvDown>>

Kill == /\ client # 0 /\ gens[client].alive /\ nkill < MaxKill
        /\ gens' = [gens EXCEPT ![client].alive = FALSE] /\ nkill' = nkill + 1
        /\ Feed(<< E("Kill") @@ [sock |-> client] >>) /\ H([op |-> "kill", g |-> 0])
        /\ UNCHANGED <<client, socks, count, closed, pc, ncalls, cfgFail, srvDown>>

Toggle(which) == /\ IF which = "cfg" THEN cfgFail' = ~cfgFail /\ UNCHANGED srvDown ELSE srvDown' = ~srvDown /\ UNCHANGED cfgFail
                 /\ H([op |-> which, g |-> 0])
                 /\ UNCHANGED <<client, gens, socks, count, closed, pc, ncalls, nkill, mon>>

Quiescent == \A g \in Callers : pc[g].st = "idle"
Observe == /\ Quiescent /\ Feed(<< Open >>) /\ H([op |-> "quiesce", g |-> 0])
           /\ UNCHANGED <<client, gens, socks, count, closed, pc, ncalls, nkill, cfgFail, srvDown>>

Init == /\ client = 0 /\ gens = <<>> /\ socks = {} /\ count = 0 /\ closed = FALSE
        /\ pc = [g \in Callers |-> [st |-> "idle", cl |-> 0]] /\ ncalls = 0 /\ nkill = 0
        /\ cfgFail = FALSE /\ srvDown = FALSE /\ mon = P!MonInit /\ hist = <<>>

Next == \/ \E g \in Callers : Start(g) \/ D0(g) \/ D1(g) \/ D3(g) \/ \E l \in BOOLEAN : D2(g, l)
        \/ Close \/ Kill \/ Observe
        \/ (Quiescent /\ \E w \in {"cfg", "srv"} : Toggle(w))

Spec == Init /\ [][Next]_vars
NoViolation == mon.viol = {}
PrintScn == (ncalls = MaxCalls /\ Quiescent) => PrintT(<<"SCN", ToJson(hist)>>)
=============================================================================
