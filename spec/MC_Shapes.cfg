SPECIFICATION Spec
CONSTANTS FixUnprotect = TRUE  FixFragCount = TRUE  GeckoPadCheck = TRUE  TcpAddrCheck = TRUE
  UDPLenCheck = TRUE  PunchMin = 33  FeedIdxCheck = TRUE  Mode = "all"  Only = ""  MaxSteps = 4
INVARIANT NoViolation
VIEW View
CHECK_DEADLOCK FALSE
