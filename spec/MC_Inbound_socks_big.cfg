SPECIFICATION Spec
CONSTANTS Proto = "socks"  NoneOK = FALSE  AuthFirst = TRUE  KeepBuffered = TRUE  SharedBuf = FALSE  Cut = TRUE
INVARIANT NoViolation
CHECK_DEADLOCK FALSE
