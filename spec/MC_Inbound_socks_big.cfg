SPECIFICATION Spec
CONSTANTS Proto = "socks"  NoneOK = FALSE  AuthFirst = TRUE  KeepBuffered = TRUE  Cut = TRUE
INVARIANT NoViolation
CHECK_DEADLOCK FALSE
