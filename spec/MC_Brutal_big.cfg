SPECIFICATION Spec
CONSTANTS NPS = 4  MinDelay = 1  BurstMult = 4  BurstPkts = 2  MinSamples = 3  DefCwnd = 12  Mds0 = 3  Rtts <- RttQ
  BpsSet <- BpsPB  MdsUp <- MdsUp4  Steps <- StepsP  Batches <- Bat1  MaxTime = 8  MaxSends = 4  MaxAcks = 1  MaxOps = 1000
  CeilOn = TRUE  CapOn = TRUE  ConsumeOn = TRUE  StampOn = TRUE  ClampN = 4  ClampD = 5  StaleOn = TRUE  FloorOn = TRUE
INVARIANT NoViolation
VIEW View
CHECK_DEADLOCK FALSE
