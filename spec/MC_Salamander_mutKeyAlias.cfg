SPECIFICATION Spec
CONSTANTS NW = 1  NR = 1  MaxW = 1  MaxI = 1  MaxJ = 0  JunkLens <- JL1
  UseWMu = TRUE  UseRMu = TRUE  UseLk = TRUE  DeobfInLock = TRUE  JunkRetry = TRUE  UnlockOnRetry = TRUE  KeyOwned = FALSE
INVARIANT NoViolation

VIEW View
CHECK_DEADLOCK FALSE
