----------------------------- MODULE Prop_C08 -----------------------------
(* C08 - every UDP datagram's destination passes the outbound policy.       *)
(* Same trace as C07 plus Hook(t,dst,to) events (request hook consulted for *)
(* the datagram being processed; to # dst means the hook rewrote it) and    *)
(* CheckUDP(t,dst,ok).  Destinations are small integers; Reset carries the  *)
(* policy as the sequence `allow` of permitted destinations.                *)
EXTENDS Mon

Put(f, k, v) == [x \in (DOMAIN f) \cup {k} |-> IF x = k THEN v ELSE f[x]]

MonInit == [viol |-> {}, allow |-> {},
            cur  |-> [sid |-> 0, dst |-> 0, tag |-> 0],
            hook |-> 0,           \* rewrite target announced by the hook for the current datagram (0 none)
            dg   |-> <<>>,        \* tag -> destinations named by the datagram's fragments (they need not agree; which
                                  \* of them the packet goes to is the implementation's choice - it must pass the policy)
            rp   |-> <<>>,        \* reply tag -> [sock, src]
            sk   |-> <<>>]        \* sock -> [sid, to (0: not hooked), orig]

MonStep(m, e, ln) ==
  CASE e.ev = "Reset" -> [MonInit EXCEPT !.viol = m.viol, !.allow = {e.allow[i] : i \in 1..Len(e.allow)}]
    [] e.ev = "Dgram" -> [m EXCEPT !.cur = [sid |-> e.sid, dst |-> e.dst, tag |-> e.tag], !.hook = 0,
                                   !.dg = Put(m.dg, e.tag, (IF e.tag \in DOMAIN m.dg THEN m.dg[e.tag] ELSE {}) \cup {e.dst})]
    [] e.ev = "Hook"  -> [m EXCEPT !.hook = IF e.to # e.dst THEN e.to ELSE 0]
    [] e.ev = "Dial"  -> IF e.ok THEN [m EXCEPT !.sk = Put(m.sk, e.sock, [sid |-> m.cur.sid, to |-> m.hook, orig |-> m.cur.dst])]
                         ELSE m
    [] e.ev = "Write" ->
         LET known == e.sock \in DOMAIN m.sk /\ e.tag \in DOMAIN m.dg
             hk    == known /\ m.sk[e.sock].to # 0
         IN [m EXCEPT !.viol = VAll(m.viol, e, ln,
              \* the policy covers whatever destination the datagram really goes to - also a destination the hook chose
              << <<"Policy_DeniedDestination", known /\ e.dst \notin m.allow>>,
                 <<"Policy_WrongDestination",  known /\ ~hk /\ e.dst \notin m.dg[e.tag]>>,
                 <<"Hook_NotRewritten",        hk /\ e.dst # m.sk[e.sock].to>> >>)]
    [] e.ev = "SockRead" -> IF e.ok THEN [m EXCEPT !.rp = Put(m.rp, e.tag, [sock |-> e.sock, src |-> e.src])] ELSE m
    [] e.ev = "Send" ->
         LET known == e.tag \in DOMAIN m.rp /\ m.rp[e.tag].sock \in DOMAIN m.sk
             s     == m.sk[m.rp[e.tag].sock]
         IN [m EXCEPT !.viol = VAll(m.viol, e, ln,
              << <<"Hook_ReplyNotFromOriginal", known /\ s.to # 0 /\ e.from # s.orig>>,
                 <<"Reply_WrongSource",         known /\ s.to = 0 /\ e.from # m.rp[e.tag].src>> >>)]
    [] OTHER -> m
===========================================================================
