SPECIFICATION Spec
CONSTANTS NRules = 2  K = 2  MaxQ = 3
  MutKeyNoPort = FALSE  MutKeyNoProto = FALSE  MutKeyNoV6 = TRUE  MutSuffixNoDot = FALSE  MutPortHi = FALSE
  RulePool <- PoolQ  QueryPool <- Queries
INVARIANT NoViolation
VIEW View
CHECK_DEADLOCK FALSE
