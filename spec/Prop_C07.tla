----------------------------- MODULE Prop_C07 -----------------------------
(* C07 - Server UDP sessions are isolated, expire when idle, never leak.    *)
(* Total monitor over what the fakes around a real udpSessionManager see.   *)
(* Everything the receive loop does between two Dgram events belongs to the *)
(* datagram of the first one (there is exactly one receive loop).           *)
(*                                                                          *)
(* Events (t = virtual time in ms; all from fakes, logged inside the call): *)
(*  Reset(idle, sweep)        Dgram(t,sid,dst,tag,complete)                 *)
(*  Dial(t,dst,sock,ok)       Write(t,sock,dst,tag,ok)                      *)
(*  SockRead(t,sock,src,tag,ok)  Send(t,sid,from,tag,ok)  SockClose(t,sock) *)
(*  EvClose(t,sid,nilerr)     IoErr(t)   Quiesce(t,count,open,gor)          *)
(*  Held(t,sid,gate)  Released(t,sid)   (gated replay only)                 *)
EXTENDS Mon

Put(f, k, v) == [x \in (DOMAIN f) \cup {k} |-> IF x = k THEN v ELSE f[x]]

MonInit == [viol |-> {},
            idle |-> 0, sweep |-> 0,
            cur  |-> [sid |-> 0, tag |-> 0],      \* datagram being processed by the receive loop
            dg   |-> <<>>,        \* tag -> sid           (client datagrams)
            rp   |-> <<>>,        \* tag -> sock          (remote replies)
            sk   |-> <<>>,        \* sock -> [sid, closes, closedQ (quiesced since close), dead (session reported closed)]
            cs   |-> <<>>,        \* sid -> current sock
            act  |-> <<>>,        \* sid -> [la, lb]  last activity time, and the last one strictly before it
            held |-> 0,           \* session whose goroutine the harness parks at a scheduler gate (0: none)
            down |-> FALSE]

Touch(m, sid, t) ==
  IF sid \notin DOMAIN m.act THEN Put(m.act, sid, [la |-> t, lb |-> -1])
  ELSE IF m.act[sid].la = t THEN m.act
  ELSE Put(m.act, sid, [la |-> t, lb |-> m.act[sid].la])

\* latest activity of sid strictly before time t (-1: none)
Before(m, sid, t) ==
  IF sid \notin DOMAIN m.act THEN -1
  ELSE IF m.act[sid].la < t THEN m.act[sid].la ELSE m.act[sid].lb

MonStep(m, e, ln) ==
  CASE e.ev = "Reset" -> [MonInit EXCEPT !.viol = m.viol, !.idle = e.idle, !.sweep = e.sweep]
    [] e.ev = "Dgram" ->
         [m EXCEPT !.cur = [sid |-> e.sid, tag |-> e.tag],
                   !.dg  = Put(m.dg, e.tag, e.sid),
                   !.act = Touch(m, e.sid, e.t)]
    [] e.ev = "Dial" ->
         IF e.ok THEN [m EXCEPT !.sk = Put(m.sk, e.sock, [sid |-> m.cur.sid, closes |-> 0, closedQ |-> FALSE, dead |-> FALSE]),
                                !.cs = Put(m.cs, m.cur.sid, e.sock),
                                !.viol = VAll(m.viol, e, ln, << <<"NoLeak_DialAfterDown", m.down>> >>)]
         ELSE m
    [] e.ev = "Write" ->
         LET known == e.sock \in DOMAIN m.sk /\ e.tag \in DOMAIN m.dg IN
         [m EXCEPT !.viol = VAll(m.viol, e, ln,
            << <<"Isolation_Out", ~known \/ (known /\ m.sk[e.sock].sid # m.dg[e.tag])>>,
               <<"Isolation_Current", known /\ m.sk[e.sock].sid = m.dg[e.tag] /\ m.cs[m.dg[e.tag]] # e.sock>>,
               <<"Fresh_StaleWrite", known /\ m.sk[e.sock].closes > 0 /\ m.sk[e.sock].closedQ>> >>)]
    [] e.ev = "SockRead" ->
         IF e.ok /\ e.sock \in DOMAIN m.sk
         THEN [m EXCEPT !.rp = Put(m.rp, e.tag, e.sock), !.act = Touch(m, m.sk[e.sock].sid, e.t)]
         ELSE m
    [] e.ev = "Send" ->
         [m EXCEPT !.viol = VAll(m.viol, e, ln,
            << <<"Isolation_In", e.tag \notin DOMAIN m.rp \/ (e.tag \in DOMAIN m.rp /\ m.sk[m.rp[e.tag]].sid # e.sid)>> >>)]
    [] e.ev = "SockClose" ->
         IF e.sock \in DOMAIN m.sk
         THEN [m EXCEPT !.sk = Put(m.sk, e.sock, [m.sk[e.sock] EXCEPT !.closes = @ + 1]),
                        !.viol = VAll(m.viol, e, ln, << <<"ClosedOnce", m.sk[e.sock].closes >= 1>> >>)]
         ELSE m
    [] e.ev = "EvClose" ->
         LET k == IF e.sid \in DOMAIN m.cs THEN m.cs[e.sid] ELSE 0 IN
         [m EXCEPT !.sk = IF k # 0 THEN Put(m.sk, k, [m.sk[k] EXCEPT !.dead = TRUE]) ELSE m.sk,
                   !.viol = VAll(m.viol, e, ln,
            << <<"Kept_ClosedWhileActive",
                   \* a timeout close (nil error) while the connection is up needs a silent period longer than
                   \* the idle timeout; activity at the very instant of the close does not count (unordered)
                   e.nilerr /\ ~m.down /\ e.sid \in DOMAIN m.act /\ e.sid # m.held
                   /\ LET b == Before(m, e.sid, e.t) IN (b < 0 \/ e.t - b < m.idle)>> >>)]
    [] e.ev = "IoErr" -> [m EXCEPT !.down = TRUE]
    \* gated replay: while the harness holds a goroutine of session sid between two steps and lets virtual time pass,
    \* "time advances only at quiescence" does not hold for that session; its clock restarts at the release
    [] e.ev = "Held"     -> [m EXCEPT !.held = e.sid]
    [] e.ev = "Released" -> [m EXCEPT !.held = 0, !.act = Touch(m, e.sid, e.t)]
    [] e.ev = "Quiesce" ->
         LET openS == {e.open[i] : i \in 1..Len(e.open)}
             liveSids == {s \in DOMAIN m.act : e.t - m.act[s].la <= m.idle + m.sweep}
         IN [m EXCEPT
              !.sk = [k \in DOMAIN m.sk |-> IF m.sk[k].closes > 0 THEN [m.sk[k] EXCEPT !.closedQ = TRUE] ELSE m.sk[k]],
              !.viol = VAll(m.viol, e, ln,
               << <<"IdleExpiry_Socket", \E k \in openS : k \in DOMAIN m.sk /\ e.t - m.act[m.sk[k].sid].la > m.idle + m.sweep>>,
                  <<"IdleExpiry_Count", e.count > Cardinality(liveSids)>>,
                  <<"ClosedOnce_Census", \E k \in DOMAIN m.sk : (k \in openS) # (m.sk[k].closes = 0)>>,
                  <<"NoLeak_SocketOutlivesSession", \E k \in openS : k \in DOMAIN m.sk /\ m.sk[k].dead>>,
                  <<"NoLeak_AfterConnLoss", m.down /\ (openS # {} \/ e.count # 0 \/ e.gor > 0)>> >>)]
    [] e.ev = "Panic" -> [m EXCEPT !.viol = V(m.viol, e, ln, "Panic", TRUE)]
    [] OTHER -> m
===========================================================================
