SPECIFICATION Spec
CONSTANTS NW = 2  NR = 2  MaxW = 3  MaxI = 4  MaxJ = 2  JunkLens <- JL
  UseWMu = TRUE  UseRMu = TRUE  UseLk = TRUE  DeobfInLock = TRUE  JunkRetry = TRUE  UnlockOnRetry = TRUE  KeyOwned = TRUE
INVARIANT NoViolation
INVARIANT MutexOk
VIEW View
CHECK_DEADLOCK FALSE
