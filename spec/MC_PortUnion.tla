---- MODULE MC_PortUnion ----
(* Exhaustive configurations of Sys_PortUnion (constants are set in the .cfg files). *)
EXTENDS Sys_PortUnion
====
