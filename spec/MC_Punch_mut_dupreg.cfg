SPECIFICATION Spec
CONSTANTS NId = 2  NMeta = 2  MaxPkt = 3  MaxCalls = 3  NResp = 2  Respond = TRUE  Mut = "dupreg"
INVARIANT NoHardViolation
VIEW View
CHECK_DEADLOCK FALSE
