SPECIFICATION Spec
CONSTANTS NU = 2  NG = 0  NC = 3  MaxOps = 11  Spurious = FALSE
  Amts <- A1  Ops <- OpsNone  KickSets <- KS1
  ClearAtomic = TRUE  LogAtomic = TRUE  KickConsume = TRUE  OfflineOnVeto = TRUE  CloseOnLateVeto = TRUE  AuthAtomic = TRUE  OnlineFloor = TRUE
INVARIANT NoViolation
VIEW View
CHECK_DEADLOCK FALSE
