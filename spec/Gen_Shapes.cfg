SPECIFICATION GenSpec
CONSTANTS FixUnprotect = TRUE  FixFragCount = TRUE  GeckoPadCheck = TRUE  TcpAddrCheck = TRUE
  UDPLenCheck = TRUE  PunchMin = 33  FeedIdxCheck = TRUE  Mode = "shapes"  Only = ""  MaxSteps = 4
INVARIANT PrintShape
CHECK_DEADLOCK FALSE
