SPECIFICATION Spec
CONSTANTS IDs = {1}  MaxDg = 5  MaxRep = 1  MaxEnt = 2  Idle = 1  MaxT = 0  MaxFault = 0
  Dsts = {1, 2, 3}  Allow = {1, 2}  HookMap <- HookRw  AclCap = 2
  GuardClosedInInit = TRUE  GuardCloseOnce = TRUE  TouchOnReply = TRUE  CheckEveryDgram = TRUE  StampOwnID = TRUE  LockAcrossDial = TRUE  FailPathCloses = TRUE  FragHdr = TRUE  VetWritten = TRUE  VetRewritten = TRUE  SplitExit = FALSE  GenHist = FALSE
INVARIANTS NoViolation7 NoViolation8 DeleteOwn SockOwner ClosedEntriesHaveClosedSockets
CHECK_DEADLOCK FALSE
