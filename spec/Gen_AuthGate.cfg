SPECIFICATION Spec
CONSTANTS Conns = {1, 2}  MaxOps = 5  DisableUDP = FALSE
  FlagPerConn = TRUE  FlagNeedsVerdict = TRUE  HijackChecksFlag = TRUE  SMOnlyOnOk = TRUE  MasqOnReject = TRUE  GenHist = TRUE
INVARIANT PrintScn
CHECK_DEADLOCK FALSE
