---- MODULE MC_Stats ----
EXTENDS Sys_Stats
A2   == {<<1, 2>>, <<2, 0>>}
A1   == {<<1, 2>>}
KS   == {<<1>>, <<2>>, <<1, 2>>}
KS1  == {<<1>>}
OpsA == {"log", "traffic", "kick"}
OpsO == {"online", "getonline"}
OpsAll == {"log", "traffic", "kick", "online", "getonline"}
OpsNone == {}
====
