SPECIFICATION Spec
CONSTANTS NRules = 3  K = 1  MaxQ = 3
  MutKeyNoPort = FALSE  MutKeyNoProto = FALSE  MutKeyNoV6 = FALSE  MutSuffixNoDot = FALSE  MutPortHi = FALSE
  RulePool <- Pool  QueryPool <- QueriesQ
INVARIANT NoViolation
VIEW View
CHECK_DEADLOCK FALSE
