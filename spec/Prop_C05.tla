----------------------------- MODULE Prop_C05 -----------------------------
(* C05 - UDP fragmentation is all-or-nothing and size-bounded.             *)
(* Total monitor over the observable events of the fragmenter and the      *)
(* reassembler.  Clauses whose name starts with DRIFT_ are not part of the *)
(* property: they say that the code no longer behaves like Sys_Frag.       *)
EXTENDS Mon

MaxFrags == 255

MonInit == [viol  |-> {},
            msgs  |-> <<>>,            \* msg index -> [pkt, cnt]   (declared by Sent events)
            cur   |-> [pkt |-> 0, cnt |-> 0, seen |-> {}, complete |-> FALSE]]

CeilDiv(a, b) == (a + b - 1) \div b

\* ---------- fragmenter -------------------------------------------------
\* e: dlen, hdr, limit, n, sizes, dlens, hdrSame, concatOk
FragClauses(e) ==
  LET size   == e.hdr + e.dlen
      budget == e.limit - e.hdr
      need   == IF size <= e.limit THEN 1
                ELSE IF budget <= 0 THEN 0
                ELSE CeilDiv(e.dlen, budget)
      sendable == need >= 1 /\ need <= MaxFrags
      idx    == 1..e.n
  IN << <<"SizeBound",  e.n > 0 /\ \E i \in idx : e.sizes[i] > e.limit>>,
        <<"CountBound", e.n > MaxFrags>>,
        <<"Lossless",   e.n > 0 /\ ( ~e.concatOk \/ ~e.hdrSame
                                     \/ Len(e.sizes) # e.n \/ Len(e.dlens) # e.n
                                     \/ SeqSum(e.dlens) # e.dlen
                                     \/ \E i \in idx : e.sizes[i] # e.hdr + e.dlens[i] )>>,
        <<"Whole",      size <= e.limit /\ e.n > 1>>,
        <<"DRIFT_Discard", e.n = 0 /\ sendable>>,
        <<"DRIFT_Count",   e.n > 0 /\ e.n # need>> >>

\* ---------- reassembler ------------------------------------------------
\* e: msg, pkt, fid, cnt, emitted, pieces (seq of <<msg,fid>>), hdrOk
IsWhole(m, e) ==
  /\ Len(e.pieces) >= 1
  /\ LET mm == e.pieces[1][1] IN
       /\ mm \in DOMAIN m.msgs
       /\ Len(e.pieces) = Max2(1, m.msgs[mm].cnt)
       /\ \A i \in 1..Len(e.pieces) : e.pieces[i][1] = mm /\ e.pieces[i][2] = i - 1
  /\ e.hdrOk

FeedStep(m, e, ln) ==
  IF e.cnt <= 1 THEN
     [m EXCEPT !.viol = VAll(m.viol, e, ln,
          << <<"Unfragmented", ~e.emitted \/ e.pieces # << <<e.msg, 0>> >> \/ ~e.hdrOk>> >>)]
  ELSE IF e.fid >= e.cnt THEN
     [m EXCEPT !.viol = VAll(m.viol, e, ln, << <<"NoChimera", e.emitted>> >>)]
  ELSE
     LET fresh  == e.pkt # m.cur.pkt \/ e.cnt # m.cur.cnt
         seen2  == IF fresh THEN {e.fid} ELSE m.cur.seen \cup {e.fid}
         was    == IF fresh THEN FALSE ELSE m.cur.complete
         full   == seen2 = 0..(e.cnt - 1)
         expect == full /\ ~was
     IN [m EXCEPT
          !.cur  = [pkt |-> e.pkt, cnt |-> e.cnt, seen |-> seen2, complete |-> was \/ full],
          !.viol = VAll(m.viol, e, ln,
            << <<"NoChimera", e.emitted /\ ~IsWhole(m, e)>>,
               <<"AnyOrder",  expect /\ (~e.emitted \/ ~IsWhole(m, e) \/ e.pieces[1][1] # e.msg)>>,
               <<"Once",      e.emitted /\ was>>,
               <<"DRIFT_Extra", e.emitted /\ ~expect /\ ~was>> >>)]

MonStep(m, e, ln) ==
  CASE e.ev = "Reset"    -> [MonInit EXCEPT !.viol = m.viol]
    [] e.ev = "FragCall" -> [m EXCEPT !.viol = VAll(m.viol, e, ln, FragClauses(e))]
    [] e.ev = "Sent"     -> [m EXCEPT !.msgs = [i \in (DOMAIN m.msgs) \cup {e.msg} |->
                                   IF i = e.msg THEN [pkt |-> e.pkt, cnt |-> e.cnt] ELSE m.msgs[i]]]
    [] e.ev = "Feed"     -> FeedStep(m, e, ln)
    [] e.ev = "Panic"    -> [m EXCEPT !.viol = V(m.viol, e, ln, "Panic", TRUE)]
    [] OTHER             -> m
===========================================================================
