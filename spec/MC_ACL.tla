---- MODULE MC_ACL ----
EXTENDS Sys_ACL
\* characters: a b c . * and upper case A B
a == 97  b == 98  c == 99  dot == 46  star == 42  AA == 65  BB == 66
H1 == <<9, 9, 9, 9>>
H6 == <<32, 1, 0, 0, 0, 0, 0, 0, 0, 0, 0, 0, 0, 0, 0, 9>>
V6a == <<32, 1, 13, 184, 0, 0, 0, 0, 0, 0, 0, 0, 0, 0, 0, 1>>
V6b == <<32, 1, 13, 185, 0, 0, 0, 0, 0, 0, 0, 0, 0, 0, 0, 1>>
R(kind, pat, ip, bits, proto, lo, hi, out, hij) ==
  [kind |-> kind, pat |-> pat, ip |-> ip, bits |-> bits, proto |-> proto, lo |-> lo, hi |-> hi, out |-> out, hij |-> hij]
Pool == <<
  R("exact",  <<AA, dot, b, dot>>, <<>>, 0, 0, 0, 0, 1, <<>>),          \* "A.b."  -> a.b
  R("suffix", <<b>>,               <<>>, 0, 1, 0, 0, 2, <<>>),          \* suffix:b, tcp
  R("wild",   <<star, dot, b>>,    <<>>, 0, 0, 2, 3, 3, H1),            \* *.b  ports 2-3, hijack
  R("wild",   <<a, star, b>>,      <<>>, 0, 2, 0, 0, 1, <<>>),          \* a*b  udp
  R("ip",     <<>>, <<1, 1, 1, 1>>,   0, 0, 0, 0, 2, <<>>),
  R("cidr",   <<>>, <<1, 1, 1, 0>>,  31, 1, 3, 3, 3, H6),               \* 1.1.1.0/31 tcp/3
  R("cidr",   <<>>, V6a,             32, 0, 0, 0, 1, <<>>),             \* 2001:db8::/32
  R("ip",     <<>>, V6b,              0, 2, 2, 4, 2, <<>>),
  R("all",    <<>>, <<>>,             0, 2, 0, 0, 3, <<>>),             \* all udp
  R("suffix", <<BB, dot>>,         <<>>, 0, 0, 3, 4, 1, H1)             \* suffix:B.  ports 3-4
>>
Qy(host, v4, v6, proto, port) == [host |-> host, v4 |-> v4, v6 |-> v6, proto |-> proto, port |-> port]
\* queries chosen so that dropping any key field, or the dot boundary, or a port bound makes two of them collide / flip
Queries == {
  Qy(<<a, dot, b>>,        <<>>, <<>>, 1, 2), Qy(<<a, dot, b>>, <<>>, <<>>, 1, 4), Qy(<<a, dot, b>>, <<>>, <<>>, 2, 2),
  Qy(<<AA, dot, BB, dot>>, <<>>, <<>>, 1, 3),
  Qy(<<a, b>>,             <<>>, <<>>, 1, 3), Qy(<<a, b>>, <<>>, <<>>, 2, 3),
  Qy(<<c, dot, b>>,        <<1, 1, 1, 1>>, <<>>, 1, 3), Qy(<<c, dot, b>>, <<1, 1, 1, 0>>, <<>>, 1, 3), Qy(<<c, dot, b>>, <<1, 1, 1, 2>>, <<>>, 1, 3),
  Qy(<<c>>,                <<>>, V6a, 1, 1), Qy(<<c>>, <<>>, V6b, 1, 1), Qy(<<c>>, <<>>, V6b, 2, 4), Qy(<<c>>, <<>>, <<>>, 1, 1)
}
\* quick: 7 of the 10 rules
PoolQ == <<Pool[1], Pool[2], Pool[3], Pool[4], Pool[6], Pool[7], Pool[9]>>
\* the quick subset (still separates every model mutant)
QueriesQ == {
  Qy(<<a, dot, b>>, <<>>, <<>>, 1, 2), Qy(<<a, dot, b>>, <<>>, <<>>, 1, 4), Qy(<<a, dot, b>>, <<>>, <<>>, 2, 2),
  Qy(<<AA, dot, BB, dot>>, <<>>, <<>>, 1, 3), Qy(<<a, b>>, <<>>, <<>>, 1, 3),
  Qy(<<c>>, <<>>, V6a, 1, 1), Qy(<<c>>, <<>>, <<>>, 1, 1)
}
====
