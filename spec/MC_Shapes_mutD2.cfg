SPECIFICATION Spec
CONSTANTS FixUnprotect = FALSE  FixFragCount = TRUE  GeckoPadCheck = TRUE  TcpAddrCheck = TRUE
  UDPLenCheck = TRUE  PunchMin = 33  FeedIdxCheck = TRUE  Mode = "shapes"  Only = "quic"  MaxSteps = 4
INVARIANT NoViolation
VIEW View
CHECK_DEADLOCK FALSE
