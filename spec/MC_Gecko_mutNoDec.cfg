SPECIFICATION Spec
CONSTANTS MsgSrc <- S3  MsgMid <- M3  MsgTot <- T3  CapSrc = 2  CapAll = 3  MaxDeliv = 6  MaxTick = 1
  GridP <- GP1  GridMM <- GM1
  DecOnComplete = FALSE  DupCheck = TRUE  TotalCheck = TRUE  CapStrict = TRUE  GcOn = TRUE  IdEarly = TRUE
INVARIANT NoViolation

VIEW View
CHECK_DEADLOCK FALSE
