---- MODULE MC_Gecko ----
EXTENDS Sys_Gecko
\* messages: 1,2,3 from source 1 (IDs 1,2,3), 4 from source 2, 5 reuses key (1,1) with another chunk count, 6 from source 3
S5 == <<1, 1, 1, 2, 1>>
M5 == <<1, 2, 3, 1, 1>>
T5 == <<2, 2, 3, 2, 3>>
S6 == <<1, 1, 1, 2, 1, 3>>
M6 == <<1, 2, 3, 1, 1, 1>>
T6 == <<2, 2, 3, 2, 3, 2>>
\* small sets for the mutant configurations
S3 == <<1, 1, 1>>
M3 == <<1, 2, 1>>
T3 == <<2, 2, 3>>
GP == {1, 2, 3, 7, 8, 9, 15, 16, 17, 100, 1187, 1188, 1200, 1499, 1500}
GM == {<<512, 1200>>, <<400, 900>>, <<100, 100>>, <<1, 20>>, <<1200, 1200>>, <<2048, 2048>>, <<13, 14>>}
GP1 == {9}
GM1 == {<<512, 1200>>}
====
