SPECIFICATION Spec
CONSTANTS NPS = 4  MinDelay = 1  BurstMult = 4  BurstPkts = 2  MinSamples = 3  DefCwnd = 12  Mds0 = 3  Rtts <- RttQ
  BpsSet <- BpsA  MdsUp <- NoMds  Steps <- StepsA  Batches <- BatA  MaxTime = 36  MaxSends = 0  MaxAcks = 3  MaxOps = 1000
  CeilOn = TRUE  CapOn = TRUE  ConsumeOn = TRUE  StampOn = TRUE  ClampN = 4  ClampD = 5  StaleOn = FALSE  FloorOn = TRUE
INVARIANT NoHardViolation
VIEW View
CHECK_DEADLOCK FALSE
