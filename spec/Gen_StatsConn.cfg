SPECIFICATION Spec
CONSTANTS NU = 2  NG = 0  NC = 4  MaxOps = 10  Spurious = FALSE
  Amts <- A1  Ops <- OpsNone  KickSets <- KS1
  ClearAtomic = TRUE  LogAtomic = TRUE  KickConsume = TRUE  OfflineOnVeto = TRUE  CloseOnLateVeto = TRUE  AuthAtomic = TRUE  OnlineFloor = TRUE
INVARIANT PrintScn
CHECK_DEADLOCK FALSE
