---- MODULE MC_UDPHop ----
(* Exhaustive configurations of Sys_UDPHop. *)
EXTENDS Sys_UDPHop
\* port expression "1-2,4" over the universe 0..5
ItemsDef == << <<1, 1, 2>>, <<0, 4, 4>> >>
PortUDef == 0..5
====
