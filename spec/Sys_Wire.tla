------------------------------ MODULE Sys_Wire ------------------------------
(* Model of core/internal/protocol/proxy.go ReadTCPRequest / ReadTCPResponse *)
(* as a state machine over a chunked input tape.  The readers are            *)
(* transcribed branch by branch (proxy.go:39-67, 93-129): varints are read   *)
(* one byte per Read call (quicvarint.NewReader wraps a plain io.Reader),    *)
(* the address/message with io.ReadFull (want = what is still missing), the  *)
(* padding with io.CopyN(io.Discard) (want = min(missing, BufSz)).  The      *)
(* environment (the underlying reader) serves 1..min(want, bytes left) bytes *)
(* per Read call; the tape carries trailing payload after the frame.         *)
EXTENDS Prop_C04, TLC, Json

CONSTANTS MaxAddr, MaxMsg, MaxPad,   \* limits (scaled in MC, real in Gen)
          Len1Set, Len2Set,          \* declared lengths to try (-1 stands for 2^62-1)
          Present,                   \* at most this many bytes follow an over-limit length field
          TrailSet, CutSet,          \* trailing payload bytes; bytes cut off the end of the tape
          BufSz,                     \* io.Discard's buffer (8192 in the code)
          MutCheckAfter,             \* mutant: address limit checked after make()+ReadFull
          MutGreedy,                 \* mutant: padding discarded with fixed-size reads (not limited to what is missing)
          MutPadGE                   \* mutant: padding limit compared with >=

VARIABLES kind, tape, ph, pos, vbuf, need, abuf, stb, v1, alloc, reach, reported, mon, hist
vars == <<kind, tape, ph, pos, vbuf, need, abuf, stb, v1, alloc, reach, reported, mon, hist>>

\* ---------------- peer-side encoder (any width that fits) ------------------
Fits(w, v) == IF v = -1 THEN w = 8
              ELSE CASE w = 1 -> v <= 63 [] w = 2 -> v <= 16383 [] w = 4 -> v <= 1073741823 [] OTHER -> TRUE
Enc(w, v) ==
  IF v = -1 THEN <<255, 255, 255, 255, 255, 255, 255, 255>>
  ELSE CASE w = 1 -> <<v>>
         [] w = 2 -> <<64 + v \div 256, v % 256>>
         [] w = 4 -> <<128 + v \div 16777216, (v \div 65536) % 256, (v \div 256) % 256, v % 256>>
         [] OTHER -> <<192, 0, 0, 0, (v \div 16777216) % 256, (v \div 65536) % 256, (v \div 256) % 256, v % 256>>
Widths == {1, 2, 4, 8}
Val(l) == IF l = -1 THEN Huge ELSE l
Fill(n, b) == [i \in 1..n |-> b]

\* bytes that follow a length field: all of them when the length is within the limit,
\* at most Present of them otherwise
Body(l, lim, b) == Fill(IF Val(l) <= lim THEN Val(l) ELSE Min2(Val(l), Present), b)
Contents(k, l1) ==   \* address/message bytes (small ones over a two-letter alphabet)
  LET lim == IF k = "req" THEN MaxAddr ELSE MaxMsg IN
  IF Val(l1) <= Min2(lim + 1, 4) THEN [1..l1 -> {97, 98}] ELSE {Body(l1, lim, 97)}

Tapes(k) ==
  UNION { { (IF k = "req" THEN <<>> ELSE <<s>>) \o Enc(w1, l1) \o c \o Enc(w2, l2) \o Body(l2, MaxPad, 112) \o Fill(t, 33) :
              s \in {0, 1}, w1 \in {w \in Widths : Fits(w, l1)}, c \in Contents(k, l1),
              w2 \in {w \in Widths : Fits(w, l2)}, t \in TrailSet }
          : l1 \in Len1Set, l2 \in Len2Set }

\* ---------------- the reader -----------------------------------------------
LimA == IF kind = "req" THEN MaxAddr ELSE MaxMsg
Rem  == Len(tape) - pos
Bump(r, upto) == IF upto > r THEN upto ELSE r

Fail(p) == /\ ph' = p
           /\ UNCHANGED <<kind, tape, pos, vbuf, need, abuf, stb, v1, alloc, reach, reported, mon>>

\* quicvarint byteReader.ReadByte / io.ReadFull(status): Read(p[0:1])
ByteStep ==
  /\ ph \in {"S", "V1", "V2"}
  /\ IF Rem = 0 THEN Fail("ErrEOF") /\ hist' = Append(hist, 0)
     ELSE
     LET b == tape[pos + 1] IN
     /\ pos' = pos + 1 /\ reach' = Bump(reach, pos + 1) /\ hist' = Append(hist, 1)
     /\ UNCHANGED <<kind, tape, reported, mon, abuf>>
     /\ IF ph = "S" THEN stb' = b /\ ph' = "V1" /\ UNCHANGED <<vbuf, need, v1, alloc>>
        ELSE
        LET vb == Append(vbuf, b) IN
        IF Len(vb) < Width(vb[1]) THEN vbuf' = vb /\ UNCHANGED <<ph, need, stb, v1, alloc>>
        ELSE
        LET v == VarDec(vb).v IN
        /\ vbuf' = <<>> /\ UNCHANGED stb
        /\ IF ph = "V1" THEN
             LET bad == (kind = "req" /\ v = 0) \/ v > LimA IN
             /\ v1' = v
             /\ IF (bad /\ ~MutCheckAfter) \/ (kind = "req" /\ v = 0) THEN ph' = "ErrProto" /\ UNCHANGED <<need, alloc>>
                ELSE IF v = 0 THEN ph' = "V2" /\ UNCHANGED <<need, alloc>>
                ELSE ph' = "A" /\ need' = v /\ alloc' = v          \* make([]byte, addrLen)
           ELSE
             LET bad == IF MutPadGE THEN v >= MaxPad ELSE v > MaxPad IN
             /\ UNCHANGED <<v1, alloc>>
             /\ IF bad THEN ph' = "ErrProto" /\ UNCHANGED need
                ELSE IF v = 0 THEN ph' = "Done" /\ UNCHANGED need
                ELSE ph' = "P" /\ need' = v

\* io.ReadFull(r, addrBuf) and io.CopyN(io.Discard, r, paddingLen): Read(p) with len(p) = want
BulkStep ==
  /\ ph \in {"A", "P"}
  /\ LET want == IF ph = "A" THEN need ELSE IF MutGreedy THEN BufSz ELSE Min2(need, BufSz) IN
     IF Rem = 0 THEN Fail("ErrEOF") /\ hist' = Append(hist, 0)
     ELSE \E k \in 1..Min2(want, Rem) :
       /\ pos' = pos + k /\ need' = need - k /\ hist' = Append(hist, k)
       /\ reach' = IF want >= 1000000000 THEN Huge ELSE Bump(reach, pos + want)
       /\ abuf' = IF ph = "A" THEN abuf \o SubSeq(tape, pos + 1, pos + k) ELSE abuf
       /\ ph' = IF need - k > 0 THEN ph
                ELSE IF ph = "P" THEN "Done"
                ELSE IF MutCheckAfter /\ v1 > LimA THEN "ErrProto" ELSE "V2"
       /\ UNCHANGED <<kind, tape, vbuf, stb, v1, alloc, reported, mon>>

\* the call returns: the event the harness would log, judged by the monitor
\* (once with the whole tape, once in the window form used for large tapes)
Event(small) ==
  LET okk == ph = "Done"
      e0  == [ev |-> "Read", scn |-> 0, kind |-> kind, tapeLen |-> Len(tape), small |-> TRUE, bytes |-> tape,
              head |-> <<>>, o1 |-> 0, o2 |-> 0, mid |-> <<>>,
              ok |-> okk, flag |-> okk /\ kind = "resp" /\ stb = 0, res |-> IF okk THEN abuf ELSE <<>>,
              resLen |-> IF okk THEN Len(abuf) ELSE 0, resEq |-> FALSE,
              consumed |-> pos, reach |-> reach, alloc |-> alloc,
              err |-> CASE ph = "Done" -> "none" [] ph = "ErrProto" -> "proto" [] OTHER -> "eof",
              exp |-> -1, expCons |-> 0]
      p   == ParseFrame(e0, mon.lim)
  IN IF small THEN e0
     ELSE [e0 EXCEPT !.small = FALSE, !.bytes = <<>>, !.res = <<>>,
                     !.head = SubSeq(tape, 1, Min2(9, Len(tape))), !.o1 = p.o1, !.o2 = p.o2,
                     !.mid = SubSeq(tape, p.o2 + 1, Min2(p.o2 + 8, Len(tape))),
                     !.resEq = okk /\ abuf = SubSeq(tape, p.o1 + 1, p.o1 + p.l1)]

Finish ==
  /\ ph \in {"Done", "ErrProto", "ErrEOF"} /\ ~reported
  /\ reported' = TRUE
  /\ mon' = MonStep(MonStep(mon, Event(TRUE), 0), Event(FALSE), 0)
  /\ UNCHANGED <<kind, tape, ph, pos, vbuf, need, abuf, stb, v1, alloc, reach, hist>>

Init == /\ kind \in {"req", "resp"}
        /\ \E c \in CutSet : \E t \in Tapes(kind) : tape = SubSeq(t, 1, Len(t) - Min2(c, Len(t)))
        /\ ph = (IF kind = "req" THEN "V1" ELSE "S")
        /\ pos = 0 /\ vbuf = <<>> /\ need = 0 /\ abuf = <<>> /\ stb = 0 /\ v1 = 0 /\ alloc = 0 /\ reach = 0
        /\ reported = FALSE /\ hist = <<>>
        /\ mon = MonStep(MonInit, [ev |-> "Reset", scn |-> 0, real |-> FALSE,
                                   lim |-> <<MaxAddr, MaxMsg, MaxPad>>, consts |-> <<MaxAddr, MaxMsg, MaxPad>>], 0)

Next == ByteStep \/ BulkStep \/ Finish
Spec == Init /\ [][Next]_vars

NoViolation == mon.viol = {}
\* the property alone (what the model mutants must break): DRIFT_ clauses ignored
NoPropViolation == \A v \in mon.viol : v.clause \in DriftClauses
PrintScn == reported => PrintT(<<"SCN", ToJson([kind |-> kind, tape |-> tape, chunks |-> hist,
                                                  ok |-> ph = "Done", consumed |-> pos])>>)
View == <<kind, tape, ph, pos, vbuf, need, abuf, stb, v1, alloc, reach, reported, mon>>
=============================================================================
