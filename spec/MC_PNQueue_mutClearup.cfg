SPECIFICATION Spec
CONSTANTS InitSize = 1  MaxPn = 4  MaxOps = 1000  GrowOrderOn = TRUE  ClearupOn = FALSE  PopOn = TRUE
INVARIANT NoHardViolation
VIEW View
CHECK_DEADLOCK FALSE
