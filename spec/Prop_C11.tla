----------------------------- MODULE Prop_C11 -----------------------------
(* C11 - Brutal sends at the configured rate: bounded above, never stalled. *)
(*                                                                          *)
(* Total monitor over the calls a QUIC send loop makes on a BrutalSender    *)
(* (HasPacingBudget / TimeUntilSend / OnPacketSent / OnCongestionEventEx /  *)
(* GetCongestionWindow / CanSend / SetMaxDatagramSize) on a virtual clock.  *)
(*                                                                          *)
(* Clauses (VIOLATION = the statement in properties.jsonl is broken):       *)
(*   RateBound      a token-bucket observer with rate bps/0.8 and a bounded *)
(*                  depth never goes negative on a paced send               *)
(*                  (<=> bytes released in ANY interval <= burst + rate/0.8 *)
(*                  x interval).  The statement only says "a bounded burst";*)
(*                  the observer allows twice the pacer's nominal burst     *)
(*                  max(4 ms x rate/0.8, 10 datagrams).  Sends that bypass  *)
(*                  pacing (probes) or exceed one datagram are not counted  *)
(*                  as released, but empty the observer as they must empty  *)
(*                  the pacer (accrual restarts at the time of that send).  *)
(*   AckRateRange   0.8 <= factor <= 1 after every ack/loss batch           *)
(*   AckRateValue   factor = 1 when disabled or < 50 samples, else          *)
(*                  max(0.8, acked/(acked+lost)) over the last five         *)
(*                  one-second slots ("roughly 5 s": the window may or may  *)
(*                  not include the slot exactly 5 s old)                   *)
(*   WindowFloor    GetCongestionWindow >= one datagram                     *)
(*   CanSendFloor   CanSend(inflight < one datagram) is true                *)
(*   WakeSufficient after HasPacingBudget(now)=false and TimeUntilSend()=T, *)
(*                  with nothing else happening, HasPacingBudget(t) is true *)
(*                  for every t >= max(now,T) the loop wakes up at          *)
(*   Panic                                                                  *)
(* DRIFT_* clauses: the code no longer behaves like Sys_Brutal / the        *)
(* harness produced a stimulus outside Env_QuicSendLoop.  Never a verdict.  *)
(*                                                                          *)
(* Times are pairs <<sec, tick>> (tick < cfg.nps; nps = 10^9 in real        *)
(* traces, 8 in the exhaustive model).  Anything wider than 31 bits is a    *)
(* little-endian sequence of base-2^15 limbs (operators Wxxx).              *)
EXTENDS Mon

\* a DRIFT clause is recorded once per run of the monitor: drift must never crowd real violations out of the
\* (capped) violation set
Once(m, c, bad) == bad /\ ~\E v \in m.viol : v.clause = c

\* ---------------------------------------------------------------- wide naturals
Base == 32768
RECURSIVE WNorm(_, _)
WNorm(s, c) == IF s = <<>> THEN (IF c = 0 THEN <<>> ELSE <<c % Base>> \o WNorm(<<>>, c \div Base))
               ELSE LET v == s[1] + c IN <<v % Base>> \o WNorm(Tail(s), v \div Base)
W(n)        == WNorm(<<n>>, 0)                         \* 0 <= n < 2^31
Limb(a, i)  == IF i <= Len(a) THEN a[i] ELSE 0
WAdd(a, b)  == WNorm([i \in 1..Max2(Len(a), Len(b)) |-> Limb(a, i) + Limb(b, i)], 0)
WMulS(a, k) == WNorm([i \in 1..Len(a) |-> a[i] * k], 0)      \* 0 <= k < 2^15
WShift(a, n) == [i \in 1..n |-> 0] \o a
WMul(a, b)  == FoldLeft(LAMBDA acc, i : WAdd(acc, WShift(WMulS(a, b[i]), i - 1)), <<>>, [i \in 1..Len(b) |-> i])
WLeq(a, b)  == LET n == Max2(Len(a), Len(b))
                   D == {i \in 1..n : Limb(a, i) # Limb(b, i)}
               IN  D = {} \/ LET i == CHOOSE x \in D : \A y \in D : y <= x IN Limb(a, i) < Limb(b, i)
WMin(a, b)  == IF WLeq(a, b) THEN a ELSE b
WMax(a, b)  == IF WLeq(a, b) THEN b ELSE a
RECURSIVE WSubR(_, _, _)
WSubR(a, b, br) == IF a = <<>> THEN <<>>
                   ELSE LET v == a[1] - Limb(b, 1) - br
                            tb == IF b = <<>> THEN <<>> ELSE Tail(b)
                        IN IF v < 0 THEN <<v + Base>> \o WSubR(Tail(a), tb, 1) ELSE <<v>> \o WSubR(Tail(a), tb, 0)
WSub(a, b)  == WSubR(a, b, 0)                          \* requires b <= a

\* ---------------------------------------------------------------- configuration
\* The property's own constants (real units).  The exhaustive model starts the monitor
\* with a scaled copy (MonStart(cfg, ...)); traces always start from these.
RealCfg == [nps        |-> 1000000000,   \* ticks per second
            burstTicks |-> 4000000,      \* nominal burst: 4 ms worth of rate/0.8 ...
            burstPkts  |-> 10,           \* ... or 10 datagrams, whichever is larger
            minSamples |-> 50,
            win        |-> 5,            \* seconds
            slackMul   |-> 1]            \* tolerated burst = (1 + slackMul) x nominal burst
ClampNum == 4
ClampDen == 5
RateOne  == 65536                        \* the factor is observed as floor(factor * 2^16)
RateMin  == (ClampNum * 65536) \div ClampDen      \* 52428

TLeq(a, b) == a[1] < b[1] \/ (a[1] = b[1] /\ a[2] <= b[2])
\* b - a in ticks (wide), requires TLeq(a, b)
TDiff(cfg, a, b) == LET ds == b[1] - a[1]
                        dn == b[2] - a[2]
                        p  == WMul(W(ds), W(cfg.nps))
                    IN IF dn >= 0 THEN WAdd(p, W(dn)) ELSE WSub(p, W(-dn))

\* nominal burst in observer units (1 unit = 1/(4 nps) byte): max(burstTicks * 5 bps, burstPkts * mds * 4 nps)
Burst(cfg, bps5, u4, mds) == WMax(WMul(bps5, W(cfg.burstTicks)), WMul(u4, W(cfg.burstPkts * mds)))

MonStart(cfg, bpsW, mds, nocomp) ==
  LET bps5 == WMulS(bpsW, 5)
      u4   == WMulS(W(cfg.nps), 4)
      b1   == Burst(cfg, bps5, u4, mds)
  IN [viol   |-> {},
      cfg    |-> cfg,
      bps5   |-> bps5,              \* 5 x bps  (rate/0.8 = 5 bps / 4, per second)
      u4     |-> u4,                \* observer units per byte
      mds    |-> mds,
      nocomp |-> nocomp,
      b1     |-> b1,                \* nominal burst for the current datagram size
      slack  |-> WMulS(b1, cfg.slackMul),   \* extra depth tolerated by the verdict observer
      lev    |-> WAdd(b1, WMulS(b1, cfg.slackMul)),      \* verdict observer, depth b1 + slack  (RateBound)
      levN   |-> b1,                                      \* nominal observer, depth b1          (DRIFT_RateNominal)
      tl     |-> <<0, 0>>,          \* time of the last observer update
      now    |-> <<0, 0>>,          \* latest time seen (environment: monotone)
      grant  |-> FALSE,             \* the last HasPacingBudget said yes and nothing was sent since
      wake   |-> <<>>,              \* <<T>> after a TimeUntilSend following a refusal
      slots  |-> <<>>,              \* recent batches <<sec, acked, lost>> (only those within win+1 s)
      envbad |-> FALSE]             \* the stimulus left Env_QuicSendLoop: no verdict from this scenario

MonInit == MonStart(RealCfg, W(0), 1, FALSE)
DriftClauses == {"DRIFT_EnvTime", "DRIFT_EnvPaced", "DRIFT_EnvCounts", "DRIFT_EnvMDS", "DRIFT_RateNominal", "DRIFT_AckWindow"}

\* ---------------------------------------------------------------- clauses
Tick(m, t) == [m EXCEPT !.now = IF TLeq(m.now, t) THEN t ELSE m.now]
EnvTime(m, t) == ~TLeq(m.now, t)

HasBudgetStep(m, e, ln) ==
  LET bad == m.wake # <<>> /\ TLeq(m.wake[1], e.t) /\ ~e.ok IN
  [Tick(m, e.t) EXCEPT
     !.grant  = e.ok,
     !.wake   = <<>>,
     !.envbad = m.envbad \/ EnvTime(m, e.t),
     !.viol   = VAll(m.viol, e, ln, << <<"WakeSufficient", ~m.envbad /\ ~EnvTime(m, e.t) /\ bad>>,
                                       <<"DRIFT_EnvTime", Once(m, "DRIFT_EnvTime", EnvTime(m, e.t))>> >>)]

\* TimeUntilSend() = T: the loop may wake up at any t >= T and must then find budget
UntilStep(m, e, ln) ==
  [m EXCEPT !.wake = <<(IF e.zero THEN <<0, 0>> ELSE e.at)>>]

\* OnPacketSent(t, size).  The observer is the pacer's own bucket run at the highest rate the property allows
\* (twice: with the tolerated depth for the verdict, with the nominal depth for drift):
\*   - a PACED send (sent on a HasPacingBudget grant) releases need = min(size, one datagram) bytes: the
\*     observer must hold that much (RateBound otherwise) and pays for it;
\*   - whatever a send takes beyond that - a packet that bypasses pacing (PTO / tail-loss probe, ACK-only
\*     packet: need = 0) or the part of an oversize packet (path-MTU probe) above one datagram - is not
\*     "released by pacing", but it overdraws the bucket exactly as in the pacer: the level drops by it,
\*     floored at zero, and accrual restarts from the time of that send.
\* Invariant on a correct pacer: observer level >= pacer budget (same operations, rate >= bandwidth,
\* depth >= maxBurst), so a grant always finds need bytes in the observer.
Bucket(lev, first, depth, acc, cost, extra) ==      \* <<short, level after the send>>
  LET lev1  == IF first THEN depth ELSE WMin(depth, WAdd(lev, acc))
      short == ~WLeq(cost, lev1)
      a     == IF short THEN <<>> ELSE WSub(lev1, cost)
  IN <<short, IF WLeq(extra, a) THEN WSub(a, extra) ELSE <<>> >>

SendStep(m, e, ln) ==
  LET envT   == EnvTime(m, e.t)
      envP   == e.size <= 0 \/ (e.paced /\ ~m.grant)
      m1     == [Tick(m, e.t) EXCEPT !.grant = FALSE, !.wake = <<>>, !.envbad = m.envbad \/ envT \/ envP]
  IN IF envT \/ envP THEN
        [m1 EXCEPT !.viol = VAll(m.viol, e, ln, << <<"DRIFT_EnvTime", Once(m, "DRIFT_EnvTime", envT)>>, <<"DRIFT_EnvPaced", Once(m, "DRIFT_EnvPaced", envP)>> >>)]
     ELSE
        LET first == m.tl = <<0, 0>>                                   \* first send: the bucket starts full
            acc   == IF first THEN <<>> ELSE WMul(m.bps5, TDiff(m.cfg, m.tl, e.t))
            need  == IF e.paced THEN Min2(e.size, m.mds) ELSE 0
            cost  == WMul(m.u4, W(need))
            extra == WMul(m.u4, W(e.size - need))
            loose == Bucket(m.lev, first, WAdd(m.slack, m.b1), acc, cost, extra)
            nom   == Bucket(m.levN, first, m.b1, acc, cost, extra)
        IN [m1 EXCEPT !.lev = loose[2], !.levN = nom[2], !.tl = e.t,
                      !.viol = VAll(m.viol, e, ln,
                         << <<"RateBound", ~m.envbad /\ loose[1]>>,
                            <<"DRIFT_RateNominal", Once(m, "DRIFT_RateNominal", ~loose[1] /\ nom[1])>> >>)]

\* expected factor (as floor(f * 2^16)) for the batches with sec >= cur - k
Floor16(a, n) ==      \* floor(a * 2^16 / n) for 0 <= a <= n < 2^30 by long division
  IF a = n THEN RateOne
  ELSE LET st == FoldLeft(LAMBDA s, i : LET r2 == 2 * s[2] IN
                              IF r2 >= n THEN <<2 * s[1] + 1, r2 - n>> ELSE <<2 * s[1], r2>>,
                          <<0, a>>, [i \in 1..16 |-> i])
       IN st[1]
Expected(m, slots, cur, k) ==
  LET idx == {i \in 1..Len(slots) : slots[i][1] >= cur - k}
      A   == FoldLeft(LAMBDA s, i : IF i \in idx THEN s + slots[i][2] ELSE s, 0, [i \in 1..Len(slots) |-> i])
      L   == FoldLeft(LAMBDA s, i : IF i \in idx THEN s + slots[i][3] ELSE s, 0, [i \in 1..Len(slots) |-> i])
      N   == A + L
  IN IF m.nocomp \/ N < m.cfg.minSamples THEN RateOne
     ELSE IF ClampDen * A < ClampNum * N THEN RateMin
     ELSE Floor16(A, N)

AckStep(m, e, ln) ==
  LET cur    == e.t[1]
      envT   == EnvTime(m, e.t)
      tot0   == FoldLeft(LAMBDA s, x : s + x[2] + x[3], 0, m.slots)
      envC   == e.a < 0 \/ e.l < 0 \/ e.a + e.l = 0 \/ e.a + e.l > 1000000 \/ tot0 > 500000000
      \* merge into the per-second list, drop what is older than win+1 seconds
      old    == SelectSeq(m.slots, LAMBDA s : s[1] >= cur - m.cfg.win - 1)
      slots2 == IF Len(old) > 0 /\ old[Len(old)][1] = cur
                THEN [old EXCEPT ![Len(old)] = <<cur, old[Len(old)][2] + e.a, old[Len(old)][3] + e.l>>]
                ELSE Append(old, <<cur, e.a, e.l>>)
      expIn  == Expected(m, slots2, cur, m.cfg.win - 1)     \* slots cur-4 .. cur   (what the code does)
      expEx  == Expected(m, slots2, cur, m.cfg.win)         \* slots cur-5 .. cur
      envbad == m.envbad \/ envT \/ envC
  IN [Tick(m, e.t) EXCEPT
        !.slots = IF envC THEN m.slots ELSE slots2, !.wake = <<>>, !.envbad = envbad,
        !.viol = VAll(m.viol, e, ln,
          << <<"AckRateRange", ~e.ge08 \/ ~e.le1 \/ e.rate16 < RateMin \/ e.rate16 > RateOne>>,
             <<"AckRateValue", ~envbad /\ e.rate16 # expIn /\ e.rate16 # expEx>>,
             <<"DRIFT_AckWindow", Once(m, "DRIFT_AckWindow", ~envbad /\ e.rate16 # expIn /\ e.rate16 = expEx)>>,
             <<"DRIFT_EnvTime", Once(m, "DRIFT_EnvTime", envT)>>, <<"DRIFT_EnvCounts", Once(m, "DRIFT_EnvCounts", envC)>> >>)]

\* the datagram size may move either way under Brutal (QUIC may start below Brutal's own initial size)
SetMDSStep(m, e, ln) ==
  IF e.mds < 1 THEN [m EXCEPT !.envbad = TRUE, !.viol = V(m.viol, e, ln, "DRIFT_EnvMDS", Once(m, "DRIFT_EnvMDS", TRUE))]
  ELSE [m EXCEPT !.mds = e.mds, !.wake = <<>>, !.grant = FALSE, !.b1 = Burst(m.cfg, m.bps5, m.u4, e.mds)]

MonStep(m, e, ln) ==
  CASE e.ev = "Reset"     -> [MonStart(RealCfg, e.bps, e.mds, e.nocomp) EXCEPT !.viol = m.viol]
    [] e.ev = "HasBudget" -> HasBudgetStep(m, e, ln)
    [] e.ev = "Until"     -> UntilStep(m, e, ln)
    [] e.ev = "Send"      -> SendStep(m, e, ln)
    [] e.ev = "Ack"       -> AckStep(m, e, ln)
    [] e.ev = "SetMDS"    -> SetMDSStep(m, e, ln)
    [] e.ev = "Cwnd"      -> [m EXCEPT !.viol = V(m.viol, e, ln, "WindowFloor", e.v < m.mds)]
    [] e.ev = "CanSend"   -> [m EXCEPT !.viol = V(m.viol, e, ln, "CanSendFloor", e.inflight < m.mds /\ ~e.ok)]
    [] e.ev = "Panic"     -> [m EXCEPT !.viol = V(m.viol, e, ln, "Panic", TRUE)]
    [] OTHER              -> m
===========================================================================
