SPECIFICATION Spec
CONSTANTS MaxPort = 6  MaxItems = 3  Lemma = FALSE  Mut = "none"
INVARIANT NoViolation
CHECK_DEADLOCK FALSE
