SPECIFICATION Spec
CONSTANTS FixUnprotect = TRUE  FixFragCount = TRUE  GeckoPadCheck = FALSE  TcpAddrCheck = TRUE
  UDPLenCheck = TRUE  PunchMin = 33  FeedIdxCheck = TRUE  Mode = "shapes"  Only = "gecko"  MaxSteps = 4
INVARIANT NoViolation
VIEW View
CHECK_DEADLOCK FALSE
