SPECIFICATION Spec
CONSTANTS MaxPort = 4  MaxItems = 2  Lemma = FALSE  Mut = "skip0"
INVARIANT NoViolation
CHECK_DEADLOCK FALSE
