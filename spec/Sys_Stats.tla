------------------------------ MODULE Sys_Stats ------------------------------
(* Model of extras/trafficlogger/http.go (one RWMutex; every operation one     *)
(* critical section) called by concurrent processes, and of the server side    *)
(* that feeds it (core/server/server.go: online +1 once per accepted auth,      *)
(* -1 once when that connection's handler returns, a refused report closes the  *)
(* connection).                                                                 *)
(*                                                                             *)
(* API part: processes 1..NG; each operation is  Call -> Lin (the critical      *)
(* section, transcribed from http.go) -> Ret.  Call and Ret feed the monitor    *)
(* exactly like the Go harness does around the real calls.                      *)
(* Connection part: connections 1..NC with the life cycle                       *)
(*   new -auth ok-> up -(client close | refused report)-> closing -handler      *)
(*   returns-> gone.                                                            *)
(* Mutant switches (non-vacuity): ClearAtomic, LogAtomic, KickConsume,          *)
(* OfflineOnVeto, CloseOnLateVeto, AuthAtomic, OnlineFloor.                     *)
EXTENDS Prop_C15, TLC, Json

CONSTANTS NU,            \* users 1..NU
          NG,            \* API processes
          NC,            \* connections (full-stack part)
          MaxOps,        \* total number of operations / connection steps
          Amts,          \* set of <<tx, rx>> a log may carry
          Ops,           \* enabled API operations
          KickSets,      \* user sequences a kick may carry
          Spurious,      \* TRUE: online(u, FALSE) may be called with nobody online
          ClearAtomic,   \* FALSE: snapshot and reset in two critical sections
          LogAtomic,     \* FALSE: counter read and written in two critical sections
          KickConsume,   \* FALSE: a kick entry is not deleted when it refuses a report
          OfflineOnVeto, \* FALSE: no offline report when the connection was closed by a refused report
          AuthAtomic,    \* FALSE: check-then-act on the connection's authenticated flag is not atomic: two auth
                         \* requests of one connection in flight together both report online
          CloseOnLateVeto, \* FALSE: a report refused after its stream's relay was already torn down (the other
                         \* direction ended first, with an error) does not close the connection
          OnlineFloor    \* FALSE: entry kept (and decremented) at <= 0

VARIABLES stats, kick, online,       \* the stats object
          pc, cur, res, tmp,         \* processes: pc[g] in {"idle","called","mid","done"}
          cst, cu,                   \* connections: state and user
          nops, gid, mon, hist

vars == <<stats, kick, online, pc, cur, res, tmp, cst, cu, nops, gid, mon, hist>>

Users == 1..NU
Procs == 1..NG
Conns == 1..NC

NoOp  == [op |-> "none", u |-> 0, tx |-> 0, rx |-> 0, flag |-> FALSE, users |-> <<>>]
NoRes == [ok |-> TRUE, snap |-> <<>>]

StatsSnap(s) == SetToSeq({<<u, s[u][1], s[u][2]>> : u \in {x \in Users : s[x] # Z2}})
OnlineSnap(o) == SetToSeq({<<u, o[u], 0>> : u \in {x \in Users : o[x] # 0}})

CallEv(g, o) == [ev |-> "Call", scn |-> 0, g |-> g, op |-> o.op, u |-> o.u, tx |-> o.tx, rx |-> o.rx,
                 flag |-> o.flag, users |-> o.users]
RetEv(g, o, r) == [ev |-> "Ret", scn |-> 0, g |-> g, op |-> o.op, ok |-> r.ok, snap |-> r.snap]

\* ---------------------------------------------------------------- the critical sections (http.go)
\* LogTraffic (http.go:52-71)
LogEffect(u, a) ==
  IF u \in kick
  THEN /\ kick' = IF KickConsume THEN kick \ {u} ELSE kick
       /\ UNCHANGED stats
  ELSE /\ stats' = [stats EXCEPT ![u] = Add2(@, a)]
       /\ UNCHANGED kick

\* LogOnlineState (http.go:74-86)
OnlineEffect(u, on) ==
  online' = IF on THEN [online EXCEPT ![u] = @ + 1]
            ELSE IF online[u] - 1 <= 0 /\ OnlineFloor THEN [online EXCEPT ![u] = 0]
            ELSE [online EXCEPT ![u] = @ - 1]

\* ---------------------------------------------------------------- API processes
Menu ==
  (IF "log" \in Ops THEN {[NoOp EXCEPT !.op = "log", !.u = u, !.tx = a[1], !.rx = a[2]] : u \in Users, a \in Amts} ELSE {})
  \cup (IF "traffic" \in Ops THEN {[NoOp EXCEPT !.op = "traffic", !.flag = b] : b \in BOOLEAN} ELSE {})
  \cup (IF "kick" \in Ops THEN {[NoOp EXCEPT !.op = "kick", !.users = k] : k \in KickSets} ELSE {})
  \cup (IF "online" \in Ops THEN {[NoOp EXCEPT !.op = "online", !.u = u, !.flag = b] : u \in Users, b \in BOOLEAN} ELSE {})
  \cup (IF "getonline" \in Ops THEN {[NoOp EXCEPT !.op = "getonline"]} ELSE {})

\* what the drivers respect: no second kick of a user while one is pending; offline only for somebody online
Allowed(o) ==
  /\ o.op = "kick" => \A i \in 1..Len(o.users) : mon.ks[o.users[i]] = 0
  /\ (o.op = "online" /\ ~o.flag /\ ~Spurious) => mon.on[o.u] > 0 /\ online[o.u] > 0

Call(g) ==
  /\ pc[g] = "idle" /\ nops < MaxOps
  /\ \E o \in Menu :
       /\ Allowed(o)
       /\ cur' = [cur EXCEPT ![g] = o]
       /\ mon' = MonStep(mon, CallEv(g, o), 0)
       /\ hist' = Append(hist, o)
  /\ pc' = [pc EXCEPT ![g] = "called"]
  /\ nops' = nops + 1
  /\ UNCHANGED <<stats, kick, online, res, tmp, cst, cu, gid>>

Lin(g) ==
  /\ pc[g] = "called"
  /\ LET o == cur[g] IN
     CASE o.op = "log" ->
            IF LogAtomic \/ o.u \in kick THEN
               /\ LogEffect(o.u, <<o.tx, o.rx>>)
               /\ res' = [res EXCEPT ![g] = [ok |-> o.u \notin kick, snap |-> <<>>]]
               /\ pc' = [pc EXCEPT ![g] = "done"]
               /\ UNCHANGED <<online, tmp>>
            ELSE   \* mutant: read the counter, write it later
               /\ tmp' = [tmp EXCEPT ![g] = stats[o.u]]
               /\ pc' = [pc EXCEPT ![g] = "mid"]
               /\ UNCHANGED <<stats, kick, online, res>>
       [] o.op = "traffic" ->
            /\ res' = [res EXCEPT ![g] = [ok |-> TRUE, snap |-> StatsSnap(stats)]]
            /\ IF o.flag /\ ClearAtomic
               THEN stats' = [u \in Users |-> Z2] /\ pc' = [pc EXCEPT ![g] = "done"]
               ELSE IF o.flag THEN UNCHANGED stats /\ pc' = [pc EXCEPT ![g] = "mid"]
               ELSE UNCHANGED stats /\ pc' = [pc EXCEPT ![g] = "done"]
            /\ UNCHANGED <<kick, online, tmp>>
       [] o.op = "kick" ->
            /\ kick' = kick \cup {o.users[i] : i \in 1..Len(o.users)}
            /\ res' = [res EXCEPT ![g] = NoRes]
            /\ pc' = [pc EXCEPT ![g] = "done"]
            /\ UNCHANGED <<stats, online, tmp>>
       [] o.op = "online" ->
            /\ OnlineEffect(o.u, o.flag)
            /\ res' = [res EXCEPT ![g] = NoRes]
            /\ pc' = [pc EXCEPT ![g] = "done"]
            /\ UNCHANGED <<stats, kick, tmp>>
       [] o.op = "getonline" ->
            /\ res' = [res EXCEPT ![g] = [ok |-> TRUE, snap |-> OnlineSnap(online)]]
            /\ pc' = [pc EXCEPT ![g] = "done"]
            /\ UNCHANGED <<stats, kick, online, tmp>>
  /\ UNCHANGED <<cur, cst, cu, nops, gid, mon, hist>>

\* second critical section of the two mutants
Lin2(g) ==
  /\ pc[g] = "mid"
  /\ LET o == cur[g] IN
     IF o.op = "log"
     THEN /\ stats' = [stats EXCEPT ![o.u] = Add2(tmp[g], <<o.tx, o.rx>>)]
          /\ res' = [res EXCEPT ![g] = NoRes]
     ELSE /\ stats' = [u \in Users |-> Z2]
          /\ UNCHANGED res
  /\ pc' = [pc EXCEPT ![g] = "done"]
  /\ UNCHANGED <<kick, online, cur, tmp, cst, cu, nops, gid, mon, hist>>

Ret(g) ==
  /\ pc[g] = "done"
  /\ mon' = MonStep(mon, RetEv(g, cur[g], res[g]), 0)
  /\ pc' = [pc EXCEPT ![g] = "idle"]
  /\ UNCHANGED <<stats, kick, online, cur, res, tmp, cst, cu, nops, gid, hist>>

\* ---------------------------------------------------------------- connections (server.go)
\* The stats object's calls made by the server are complete Call/Ret pairs (the server's goroutine is
\* the caller); each server action below is one such call, emitted to the monitor as two events.
Pair(m, g, o, r) == MonStep(MonStep(m, CallEv(g, o), 0), RetEv(g, o, r), 0)
Ev(name, c) == [ev |-> name, scn |-> 0, conn |-> c]

\* auth request on a fresh connection (server.go:158-228): online +1 exactly when accepted
Auth(c, u, ok) ==
  /\ cst[c] = "new" /\ nops < MaxOps
  /\ cu' = [cu EXCEPT ![c] = u]
  /\ \E conc \in BOOLEAN :   \* conc: several auth requests of this connection are in flight inside Authenticate together;
                              \* the handler's auth mutex covers check, Authenticate and flag: only one of them logs online
     LET n  == IF ok /\ conc /\ ~AuthAtomic THEN 2 ELSE 1
         on == [NoOp EXCEPT !.op = "online", !.u = u, !.flag = TRUE]
         m1 == Pair(mon, gid, on, NoRes)
         m2 == IF n = 2 THEN Pair(m1, gid + 1, on, NoRes) ELSE m1
     IN /\ IF ok THEN /\ online' = [online EXCEPT ![u] = @ + n]
                      /\ cst' = [cst EXCEPT ![c] = "up"]
                      /\ mon' = MonStep(m2, [ev |-> "Connect", scn |-> 0, conn |-> c, u |-> u, ok |-> TRUE], 0)
                 ELSE /\ UNCHANGED online
                      /\ cst' = [cst EXCEPT ![c] = "gone"]
                      /\ mon' = MonStep(mon, [ev |-> "Connect", scn |-> 0, conn |-> c, u |-> u, ok |-> FALSE], 0)
        /\ hist' = Append(hist, [NoOp EXCEPT !.op = IF ok THEN "connect" ELSE "authfail", !.u = u, !.tx = c, !.flag = conc])
  /\ nops' = nops + 1 /\ gid' = gid + 2
  /\ UNCHANGED <<stats, kick, pc, cur, res, tmp>>

\* one exchange through the proxy: a traffic report (copy.go / server.go:375-394); refused => connection closed
Traffic(c) ==
  /\ cst[c] = "up" /\ nops < MaxOps
  /\ \E late \in BOOLEAN :     \* late: the report arrives while the stream is being torn down (copy.go watcher)
     LET u == cu[c]
         refused == u \in kick
         closes == refused /\ (~late \/ CloseOnLateVeto)
         o == [NoOp EXCEPT !.op = "log", !.u = u, !.tx = 1, !.rx = 0]
         m1 == MonStep(mon, Ev("ProbeStart", c), 0)
         m2 == Pair(m1, gid, o, [ok |-> ~refused, snap |-> <<>>])
     IN /\ LogEffect(u, <<1, 0>>)
        /\ cst' = [cst EXCEPT ![c] = IF closes THEN "vetoed" ELSE "up"]
        /\ mon' = MonStep(m2, [ev |-> "Probe", scn |-> 0, conn |-> c, alive |-> ~closes], 0)
        /\ hist' = Append(hist, [NoOp EXCEPT !.op = "probe", !.tx = c, !.flag = late])
  /\ nops' = nops + 1 /\ gid' = gid + 1
  /\ UNCHANGED <<online, pc, cur, res, tmp, cu>>

ClientClose(c) ==
  /\ cst[c] = "up" /\ nops < MaxOps
  /\ cst' = [cst EXCEPT ![c] = "closed"]
  /\ mon' = MonStep(mon, Ev("Disconnect", c), 0)
  /\ hist' = Append(hist, [NoOp EXCEPT !.op = "disconnect", !.tx = c])
  /\ nops' = nops + 1
  /\ UNCHANGED <<stats, kick, online, pc, cur, res, tmp, cu, gid>>

\* handleClient returns (server.go:119-136): offline once, whatever ended the connection
HandlerReturn(c) ==
  /\ cst[c] \in {"closed", "vetoed"}
  /\ cst' = [cst EXCEPT ![c] = "gone"]
  /\ IF cst[c] = "vetoed" /\ ~OfflineOnVeto
     THEN UNCHANGED <<online, mon>>
     ELSE /\ OnlineEffect(cu[c], FALSE)
          /\ mon' = Pair(mon, gid, [NoOp EXCEPT !.op = "online", !.u = cu[c], !.flag = FALSE], NoRes)
  /\ gid' = gid + 1
  /\ UNCHANGED <<stats, kick, pc, cur, res, tmp, cu, nops, hist>>

\* the operator kicks a user (full-stack scenarios: a complete call)
KickUser(u) ==
  /\ NC > 0 /\ nops < MaxOps /\ mon.ks[u] = 0
  /\ kick' = kick \cup {u}
  /\ mon' = Pair(mon, gid, [NoOp EXCEPT !.op = "kick", !.users = <<u>>], NoRes)
  /\ hist' = Append(hist, [NoOp EXCEPT !.op = "kick", !.users = <<u>>])
  /\ nops' = nops + 1 /\ gid' = gid + 1
  /\ UNCHANGED <<stats, online, pc, cur, res, tmp, cst, cu>>

\* GET /online at quiescence (no handler still to return, no API call in flight)
Quiet == (\A c \in Conns : cst[c] \notin {"closed", "vetoed"}) /\ (\A g \in Procs : pc[g] = "idle")
Census ==
  /\ NC > 0 /\ Quiet
  /\ mon' = MonStep(mon, [ev |-> "Census", scn |-> 0, snap |-> OnlineSnap(online)], 0)
  /\ UNCHANGED <<stats, kick, online, pc, cur, res, tmp, cst, cu, nops, gid, hist>>

Init == /\ stats = [u \in Users |-> Z2] /\ kick = {} /\ online = [u \in Users |-> 0]
        /\ pc = [g \in Procs |-> "idle"] /\ cur = [g \in Procs |-> NoOp]
        /\ res = [g \in Procs |-> NoRes] /\ tmp = [g \in Procs |-> Z2]
        /\ cst = [c \in Conns |-> "new"] /\ cu = [c \in Conns |-> 0]
        /\ nops = 0 /\ gid = 100 /\ mon = MonInit /\ hist = <<>>

Next == \/ \E g \in Procs : Call(g) \/ Lin(g) \/ Lin2(g) \/ Ret(g)
        \/ \E c \in Conns : \/ \E u \in Users, ok \in BOOLEAN : Auth(c, u, ok)
                            \/ Traffic(c) \/ ClientClose(c) \/ HandlerReturn(c)
        \/ \E u \in Users : KickUser(u)
        \/ Census

Spec == Init /\ [][Next]_vars

NoViolation == mon.viol = {}
AllIdle == (\A g \in Procs : pc[g] = "idle") /\ (\A c \in Conns : cst[c] \notin {"closed", "vetoed"})
PrintScn == (nops = MaxOps /\ AllIdle) => PrintT(<<"SCN", ToJson([steps |-> hist])>>)
View == <<stats, kick, online, pc, cur, res, tmp, cst, cu, nops, mon>>
=============================================================================
