----------------------------- MODULE Prop_C17 -----------------------------
(* C17 - Sniffing is transparent to the proxied flow.                      *)
(* Total monitor over the events of one hooked flow:                       *)
(*   Tape     what the client sends first: kind, len, need (length of the  *)
(*            complete HTTP header block / TLS record, 0 = none on the     *)
(*            tape), avail (bytes the stream delivers before it runs dry:  *)
(*            read deadline or FIN), hosts present in the bytes            *)
(*   Deadline SetReadDeadline calls seen by the stream                     *)
(*   Read     every Read call the sniffer makes on the stream (want, n)    *)
(*   Ret      return of Sniffer.TCP: replay bytes (length + "is a prefix   *)
(*            of the tape" observed by the harness), address before/after  *)
(*   Later    the replay bytes of that return looked at again when the     *)
(*            server uses them (after the outbound dial): other hooked     *)
(*            streams have been sniffed in between (sequentially and       *)
(*            concurrently); same observation as in Ret                    *)
(*   UDP      one Sniffer.UDP call: datagram identical afterwards?, address*)
(* DRIFT_* clauses are not part of the property.                           *)
EXTENDS Mon

NoTape == [kind |-> "none", len |-> 0, need |-> 0, avail |-> 0, cap |-> 0, hosts |-> <<>>]

MonInit == [viol |-> {}, tape |-> NoTape, consumed |-> 0, armed |-> FALSE, unarmedRead |-> FALSE, retOk |-> FALSE]

Recognised(t) == t.kind \in {"http", "tls"}
Truncated(t)  == t.need = 0 \/ t.avail < t.need
Capped(t)     == t.cap > 0 /\ t.need > t.cap

\* bytes the code under Sys_SniffTCP takes off the stream (drift only)
ExpectConsumed(t) ==
  IF t.avail < 3 THEN t.avail
  ELSE IF t.kind = "tls" THEN (IF t.avail < 5 THEN t.avail ELSE Min2(t.avail, t.need))
  ELSE 3

AddrClauses(t, e) ==
  LET changed == e.hostAfter # e.hostBefore \/ e.portAfter # e.portBefore IN
  << <<"PortKept",  e.portAfter # e.portBefore>>,
     <<"HostFrom",  e.hostAfter # e.hostBefore /\ e.hostAfter \notin ToSet(t.hosts)>>,
     <<"Untouched", changed /\ (~Recognised(t) \/ Truncated(t))>>,
     <<"DRIFT_NoRewrite", Recognised(t) /\ ~Truncated(t) /\ ~Capped(t) /\ t.hosts # <<>>
                          /\ e.hostBefore \notin ToSet(t.hosts) /\ e.hostAfter = e.hostBefore /\ ~e.err>> >>

RetStep(m, e, ln) ==
  LET t == m.tape IN
  [m EXCEPT !.retOk = ~e.err, !.viol = VAll(m.viol, e, ln,
      << <<"Transparent", IF e.err THEN m.consumed > 0
                          ELSE ~(e.prefixOk /\ e.replayLen = m.consumed)>>,
         <<"DRIFT_Deadline", m.armed \/ m.unarmedRead>>,
         <<"DRIFT_Consumed", ~e.err /\ (IF t.kind = "http" /\ t.avail >= 3
                                        THEN t.need > 0 /\ ~Capped(t) /\ m.consumed < Min2(t.avail, t.need)
                                        ELSE m.consumed # ExpectConsumed(t))>> >>
      \o AddrClauses(t, e))]

UDPStep(m, e, ln) ==
  LET t == [NoTape EXCEPT !.kind = IF e.kind = "initial" THEN "tls" ELSE e.kind,
                          !.need = 1, !.avail = 1, !.hosts = e.hosts] IN
  [m EXCEPT !.viol = VAll(m.viol, e, ln,
      << <<"UDPUntouched", ~e.same>>,
         <<"UDPForwarded", e.err>> >> \o AddrClauses(t, e))]

MonStep(m, e, ln) ==
  CASE e.ev = "Reset"    -> [MonInit EXCEPT !.viol = m.viol]
    [] e.ev = "Tape"     -> [m EXCEPT !.tape = [kind |-> e.kind, len |-> e.len, need |-> e.need, avail |-> e.avail,
                                                 cap |-> e.cap, hosts |-> e.hosts],
                                      !.consumed = 0, !.armed = FALSE, !.unarmedRead = FALSE, !.retOk = FALSE,
                                      !.viol = V(m.viol, e, ln, "DRIFT_Filter", e.hooked # e.expectHooked)]
    [] e.ev = "Deadline" -> [m EXCEPT !.armed = ~e.zero]
    [] e.ev = "Read"     -> [m EXCEPT !.consumed = m.consumed + e.n,
                                      !.unarmedRead = m.unarmedRead \/ ~m.armed]
    [] e.ev = "Ret"      -> RetStep(m, e, ln)
    \* the replay bytes are what the target receives when the server writes them, not what they were at return time
    [] e.ev = "Later"    -> [m EXCEPT !.viol = V(m.viol, e, ln, "Transparent",
                                                 m.retOk /\ ~(e.prefixOk /\ e.replayLen = m.consumed))]
    [] e.ev = "UDP"      -> UDPStep(m, e, ln)
    [] e.ev = "Panic"    -> [m EXCEPT !.viol = V(m.viol, e, ln, "Panic", TRUE)]
    [] OTHER             -> m
===========================================================================
