--------------------------- MODULE Sys_SniffTCP ---------------------------
(* Model of extras/sniff/sniff.go: Sniffer.TCP (sniff.go:91-157, the        *)
(* teeReader of :176-199) reading a chunked tape from a stream whose read   *)
(* deadline (or FIN) may come at any chunk boundary, and Sniffer.UDP.        *)
(* Implementation-shaped: one action per Read call the code makes; the      *)
(* io.ReadFull loops, the bufio fill loop behind http.ReadRequest and the   *)
(* io.LimitReader are transcribed.  Bytes are tape positions 1..L; what the *)
(* parsers decide (HTTP header block complete at H with/without Host, TLS   *)
(* record of declared length T with/without SNI) is an attribute of the tape.*)
EXTENDS Prop_C17, TLC, Json

CONSTANTS MaxL,         \* tape length 0..MaxL
          MaxT,         \* declared TLS record length 0..MaxT
          BufSz,        \* bufio buffer (4096 in the code)
          Cap,          \* sniffMaxHTTPHeaderBytes (256 KiB in the code)
          KeepProbe,    \* FALSE: short read of the TLS length bytes hands back pre[:n]   (mutant)
          ProbeShort,   \* FALSE: short read of the probe hands back nothing               (mutant)
          TeeOnErr,     \* FALSE: the tee drops data returned together with an error       (mutant)
          PadShort,     \* TRUE : short TLS body read hands back the zero-padded buffer    (mutant)
          PortFromHost, \* TRUE : the port is rewritten as well                            (mutant)
          Pooled,       \* TRUE : the replay aliases a pooled scratch buffer the next sniff overwrites (mutant)
          InPlace       \* TRUE : Sniffer.UDP decrypts the datagram in place (defect D3 of this tree)

VARIABLES tape,     \* the scenario: [kind, L, cuts, K, end, H, T, host]
          pc, filled, pos, lim, replay, rewritten, mon

vars == <<tape, pc, filled, pos, lim, replay, rewritten, mon>>

\* ------------------------------------------------------------------ tapes
Bounds(t) == SetToSortSeq(t.cuts \cup {t.L}, <)          \* chunk end positions (L > 0)
NChunks(t) == IF t.L = 0 THEN 0 ELSE Cardinality(t.cuts) + 1
Avail(t)  == IF t.K = 0 THEN 0 ELSE Bounds(t)[t.K]
ChunkEnd(t, p) == CHOOSE b \in t.cuts \cup {t.L} : b > p /\ \A c \in t.cuts \cup {t.L} : c > p => b <= c
Need(t)   == IF t.kind = "http" THEN t.H ELSE IF t.kind = "tls" THEN 5 + t.T ELSE 0

TCPTapes ==
  { t \in [kind : {"http", "tls", "other"}, L : 0..MaxL, cuts : SUBSET (1..(MaxL-1)), K : 0..MaxL,
           end : {"timeout", "eof", "eofdata"}, H : {0} \cup 4..MaxL, T : 0..MaxT, host : BOOLEAN] :
      /\ t.cuts \subseteq 1..(t.L - 1)
      /\ t.K <= NChunks(t)
      /\ (t.end # "timeout" => t.K = NChunks(t))
      /\ (t.end = "eofdata" => t.L > 0)
      /\ (t.kind = "http" => t.T = 0 /\ (t.H = 0 \/ t.H <= t.L) /\ (t.host => t.H > 0))
      /\ (t.kind = "tls"  => t.H = 0 /\ (t.host => t.T > 0))
      /\ (t.kind = "other" => t.H = 0 /\ t.T = 0 /\ ~t.host) }

UDPTapes == { [kind |-> k, L |-> 0, cuts |-> {}, K |-> 0, end |-> "timeout", H |-> 0, T |-> 0, host |-> h] :
                k \in {"initial", "badtag", "truncated", "garbage"}, h \in BOOLEAN }

IsUDP(t) == t.kind \in {"initial", "badtag", "truncated", "garbage"}

TapeEvent(t) == [ev |-> "Tape", scn |-> 0, kind |-> t.kind, len |-> t.L, need |-> Need(t), avail |-> Avail(t), cap |-> Cap,
                 hosts |-> IF t.host THEN <<"h">> ELSE <<>>, hooked |-> TRUE, expectHooked |-> TRUE]

\* ------------------------------------------------------------------ the stream (scripted fake)
\* one Read call asking for `want` > 0 bytes: <<n, err>>
RD(want) ==
  IF pos < Avail(tape)
  THEN LET n == Min2(want, ChunkEnd(tape, pos) - pos) IN
       <<n, IF tape.end = "eofdata" /\ pos + n = tape.L THEN "eof" ELSE "">>
  ELSE <<0, IF tape.end = "timeout" THEN "timeout" ELSE "eof">>

ReadEvent(want, r) == [ev |-> "Read", scn |-> 0, want |-> want, n |-> r[1], err |-> r[2]]
Upto(n) == [i \in 1..n |-> i]

\* ------------------------------------------------------------------ Sniffer.TCP
Arm == /\ pc = "start" /\ ~IsUDP(tape)
       /\ mon' = MonStep(mon, [ev |-> "Deadline", scn |-> 0, zero |-> FALSE], 0)
       /\ pc' = "probe"
       /\ UNCHANGED <<tape, filled, pos, lim, replay, rewritten>>

\* io.ReadFull(stream, buf[:size]) one Read at a time; onFull / onShort give the continuation
ReadFullStep(size, pcFull, replayShort(_)) ==
  LET r  == RD(size - filled)
      f2 == filled + r[1] IN
  /\ mon' = MonStep(mon, ReadEvent(size - filled, r), 0)
  /\ pos' = pos + r[1]
  /\ IF f2 >= size THEN /\ pc' = pcFull /\ filled' = 0 /\ UNCHANGED replay
     ELSE IF r[2] # "" THEN /\ pc' = "clear" /\ filled' = 0 /\ replay' = replayShort(f2)
     ELSE /\ filled' = f2 /\ UNCHANGED <<pc, replay>>

Probe == /\ pc = "probe"
         /\ ReadFullStep(3, IF tape.kind = "http" THEN "http" ELSE IF tape.kind = "tls" THEN "tlsLen" ELSE "other",
                         LAMBDA f : IF ProbeShort THEN Upto(f) ELSE <<>>)
         /\ UNCHANGED <<tape, lim, rewritten>>

Other == /\ pc = "other" /\ replay' = Upto(3) /\ pc' = "clear"
         /\ UNCHANGED <<tape, filled, pos, lim, rewritten, mon>>

\* http.ReadRequest(bufio.NewReader(io.LimitReader(tee, Cap))): the first tee Read serves the 3 probe bytes
\* (recorded, counted by the limiter), every further fill is one stream Read of 1..BufSz bytes, clipped by the limiter.
HTTPFirst == /\ pc = "http" /\ lim = 0
             /\ lim' = 3 /\ replay' = Upto(3)
             /\ UNCHANGED <<tape, pc, filled, pos, rewritten, mon>>

HTTPDone(p) == tape.H > 0 /\ p >= tape.H
HTTPFill ==
  /\ pc = "http" /\ lim > 0
  /\ IF lim >= Cap
     THEN /\ pc' = "clear" /\ UNCHANGED <<pos, lim, replay, rewritten, mon>>       \* limiter: EOF, parse fails
     ELSE \E want \in 1..Min2(BufSz, Cap - lim) :
          LET r == RD(want) IN
          /\ mon' = MonStep(mon, ReadEvent(want, r), 0)
          /\ pos' = pos + r[1] /\ lim' = lim + r[1]
          /\ replay' = IF r[1] > 0 /\ (TeeOnErr \/ r[2] = "")
                       THEN replay \o [i \in 1..r[1] |-> pos + i] ELSE replay
          /\ IF HTTPDone(pos + r[1]) THEN pc' = "clear" /\ rewritten' = tape.host
             ELSE IF r[2] # "" THEN pc' = "clear" /\ UNCHANGED rewritten
             ELSE UNCHANGED <<pc, rewritten>>
  /\ UNCHANGED <<tape, filled>>

TLSLen == /\ pc = "tlsLen"
          /\ ReadFullStep(2, "tlsBody", LAMBDA f : IF KeepProbe THEN Upto(3 + f) ELSE Upto(f))
          /\ UNCHANGED <<tape, lim, rewritten>>

TLSBody ==
  /\ pc = "tlsBody"
  /\ IF tape.T = 0
     THEN /\ pc' = "clear" /\ replay' = Upto(5) /\ UNCHANGED <<filled, pos, mon, rewritten>>
     ELSE /\ ReadFullStep(tape.T, "tlsDone",
                LAMBDA f : IF PadShort THEN Upto(5 + f) \o [i \in 1..(tape.T - f) |-> 0] ELSE Upto(5 + f))
          /\ UNCHANGED rewritten
  /\ UNCHANGED <<tape, lim>>

TLSDone == /\ pc = "tlsDone" /\ replay' = Upto(5 + tape.T) /\ rewritten' = tape.host /\ pc' = "clear"
           /\ UNCHANGED <<tape, filled, pos, lim, mon>>

Clear == /\ pc = "clear"
         /\ mon' = MonStep(mon, [ev |-> "Deadline", scn |-> 0, zero |-> TRUE], 0)
         /\ pc' = "ret"
         /\ UNCHANGED <<tape, filled, pos, lim, replay, rewritten>>

Ret == /\ pc = "ret"
       /\ mon' = MonStep(mon, [ev |-> "Ret", scn |-> 0, replayLen |-> Len(replay), prefixOk |-> replay = Upto(Len(replay)),
                               err |-> FALSE, hostBefore |-> "ip", portBefore |-> "p",
                               hostAfter |-> IF rewritten THEN "h" ELSE "ip",
                               portAfter |-> IF rewritten /\ PortFromHost THEN "q" ELSE "p"], 0)
       /\ pc' = "later"
       /\ UNCHANGED <<tape, filled, pos, lim, replay, rewritten>>

\* the server dials the target and only then writes the replay bytes; other hooked streams are sniffed meanwhile
Later == /\ pc = "later"
         /\ LET held == IF Pooled THEN [i \in 1..Len(replay) |-> 0] ELSE replay IN
            mon' = MonStep(mon, [ev |-> "Later", scn |-> 0, replayLen |-> Len(held), prefixOk |-> held = Upto(Len(held)), others |-> 1], 0)
         /\ pc' = "done"
         /\ UNCHANGED <<tape, filled, pos, lim, replay, rewritten>>

\* ------------------------------------------------------------------ Sniffer.UDP (quic.ReadCryptoPayload)
\* initial: header parsed, AEAD opens, client hello (with SNI iff host); badtag: header parsed, AEAD fails;
\* truncated: shorter than the declared length; garbage: header does not parse.
UDPCall ==
  /\ pc = "start" /\ IsUDP(tape)
  /\ mon' = MonStep(mon, [ev |-> "UDP", scn |-> 0, kind |-> tape.kind, hosts |-> IF tape.host THEN <<"h">> ELSE <<>>,
                          same |-> ~(InPlace /\ tape.kind \in {"initial", "badtag"}), err |-> FALSE,
                          hostBefore |-> "ip", portBefore |-> "p",
                          hostAfter |-> IF tape.kind = "initial" /\ tape.host THEN "h" ELSE "ip", portAfter |-> "p"], 0)
  /\ pc' = "done"
  /\ UNCHANGED <<tape, filled, pos, lim, replay, rewritten>>

Init == /\ tape \in TCPTapes \cup UDPTapes
        /\ pc = "start" /\ filled = 0 /\ pos = 0 /\ lim = 0 /\ replay = <<>> /\ rewritten = FALSE
        /\ mon = IF IsUDP(tape) THEN MonInit ELSE MonStep(MonInit, TapeEvent(tape), 0)

Next == Arm \/ Probe \/ Other \/ HTTPFirst \/ HTTPFill \/ TLSLen \/ TLSBody \/ TLSDone \/ Clear \/ Ret \/ Later \/ UDPCall

Spec == Init /\ [][Next]_vars
GenSpec == Init /\ [][FALSE]_vars          \* the scenarios are the initial states

NoViolation == mon.viol = {}
PrintScn == PrintT(<<"SCN", ToJson([kind |-> tape.kind, L |-> tape.L, cuts |-> SetToSortSeq(tape.cuts, <), K |-> tape.K,
                                    end |-> tape.end, H |-> tape.H, T |-> tape.T, host |-> tape.host])>>)
=============================================================================
