SPECIFICATION Spec
CONSTANTS NC = 3  NT = 3  MaxVeto = 1  LogBeforeWrite = TRUE  HonourVeto = TRUE  CloseConnOnVeto = TRUE  DrainOnEOF = TRUE  LateVetoCloses = TRUE  HookMax = 0  PutbackFirst = TRUE  GenHist = TRUE
INVARIANT PrintScn
CHECK_DEADLOCK FALSE
