----------------------------- MODULE Prop_C15 -----------------------------
(* C15 - Traffic stats API conserves bytes; kick and online counts are exact. *)
(*                                                                            *)
(* Total monitor over Call/Ret pairs of the stats object's operations          *)
(*   log(u,tx,rx) -> ok | traffic(clear) -> snap | kick(users) |               *)
(*   online(u,on) | getonline -> snap                                          *)
(* recorded around the REAL calls (Call is logged before the call starts, Ret  *)
(* after it returned, so precedence in the trace implies real-time precedence) *)
(* plus the connection-level events of the full-stack driver                   *)
(*   Connect / Disconnect / ProbeStart / Probe / Census.                       *)
(*                                                                            *)
(* The monitor does not know the linearization order of overlapping calls, so  *)
(* every clause is either                                                      *)
(*   - exact, but only judged on an ISOLATED call (nothing else in flight      *)
(*     between its Call and its Ret: all earlier operations are complete), or  *)
(*   - order independent (sums, "some call in flight must take the refusal").  *)
(* Sequential replays consist of isolated calls only and are judged exactly.   *)
(* Sys_Stats (atomic operations, every interleaving) is model-checked against  *)
(* these clauses, which is the proof that they never fire on a linearizable    *)
(* implementation.                                                             *)
(*                                                                            *)
(* Users are small integers (the harness maps names; 0 = a name it does not    *)
(* know).  Snapshots are sequences of <<user, a, b>>.                           *)
EXTENDS Mon, FiniteSetsExt

UR  == 0..8
Z2  == <<0, 0>>
Add2(a, b) == <<a[1] + b[1], a[2] + b[2]>>

SnapVal(snap, u, k) ==
  LET I == {i \in 1..Len(snap) : snap[i][1] = u}
  IN IF I = {} THEN 0 ELSE snap[CHOOSE i \in I : TRUE][k]

MustOff == [on |-> FALSE, set |-> {}]

MonInit == [viol    |-> {},
            infl    |-> {},                       \* calls in flight: records, see CallStep
            A       |-> [u \in UR |-> Z2],        \* sum of approved logs (returned ok)
            C       |-> [u \in UR |-> Z2],        \* sum of returned clearing snapshots
            ks      |-> [u \in UR |-> 0],         \* kick state: 0 none, 1 kick in flight, 2 armed (kick returned),
                                                  \*             3 consumed while the kick call was still in flight
            kgen    |-> [u \in UR |-> 0],         \* kick generation
            taintK  |-> {},                       \* users kicked again while a kick was pending: not judged (statement is silent)
            must    |-> [u \in UR |-> MustOff],   \* obligation: one of these in-flight logs must be the refused one
            on      |-> [u \in UR |-> 0],         \* online ghost from returned online(u,+-) calls
            taintOn |-> {},                       \* users that were reported offline more often than online
            cs      |-> {},                       \* full stack: <<conn, user>> connected and authenticated
            refN    |-> 0]                        \* refused logs since ProbeStart

\* sum of field tx (k = 1) / rx (k = 2) of the logs in flight for user u
InflLog(infl, u, k) ==
  MapThenSumSet(LAMBDA r : IF k = 1 THEN r.tx ELSE r.rx, {r \in infl : r.op = "log" /\ r.u = u})

SeqSet(s) == {s[i] : i \in 1..Len(s)}
InUR(u) == IF u \in UR THEN u ELSE 0

\* ---------------------------------------------------------------- Call
\* e: g, op, u, tx, rx, flag, users
CallStep(m, e, ln) ==
  LET u   == InUR(e.u)
      us  == {InUR(x) : x \in SeqSet(e.users)}
      rec == [g |-> e.g, op |-> e.op, u |-> u, tx |-> e.tx, rx |-> e.rx, flag |-> e.flag, us |-> us,
              iso  |-> m.infl = {},
              agen |-> IF e.op = "log" /\ m.ks[u] = 2 THEN m.kgen[u] ELSE 0]
      infl2 == {[r EXCEPT !.iso = FALSE] : r \in m.infl} \cup {rec}
      m1 == [m EXCEPT !.infl = infl2,
                      !.viol = V(@, e, ln, "DRIFT_Harness", \E r \in m.infl : r.g = e.g)]
      \* an offline report is covered if a completed online report is left for it whatever the order
      \* of the calls in flight; otherwise the count may hit the floor and the user is not judged
      uncovered == e.op = "online" /\ ~e.flag /\
                   m.on[u] - Cardinality({r \in m.infl : r.op = "online" /\ r.u = u /\ ~r.flag}) < 1
  IN IF uncovered THEN [m1 EXCEPT !.taintOn = @ \cup {u}]
     ELSE IF e.op = "kick"
     THEN [m1 EXCEPT !.taintK = @ \cup {x \in us : m.ks[x] # 0},
                     !.ks     = [x \in UR |-> IF x \in us /\ m.ks[x] = 0 THEN 1 ELSE m.ks[x]],
                     !.kgen   = [x \in UR |-> IF x \in us THEN m.kgen[x] + 1 ELSE m.kgen[x]]]
     ELSE m1

\* ---------------------------------------------------------------- Ret of log
\* m has r already removed from infl.   e: g, op, ok, snap
RetLog(m, r, e, ln) ==
  LET u       == r.u
      tainted == u \in m.taintK
      peers   == {x.g : x \in {y \in m.infl : y.op = "log" /\ y.u = u}}
  IN IF e.ok THEN
       LET applies == r.agen # 0 /\ m.ks[u] = 2 /\ m.kgen[u] = r.agen
           ms0 == m.must[u]
           ms1 == IF ms0.on THEN [on |-> TRUE, set |-> ms0.set \ {r.g}] ELSE ms0
           ms2 == IF applies THEN [on |-> TRUE, set |-> IF ms1.on THEN ms1.set \cap peers ELSE peers] ELSE ms1
           bad == ~tainted /\ ms2.on /\ ms2.set = {}
       IN [m EXCEPT !.A = [@ EXCEPT ![u] = Add2(@, <<r.tx, r.rx>>)],
                    !.must = [@ EXCEPT ![u] = IF bad THEN MustOff ELSE ms2],
                    !.ks = [@ EXCEPT ![u] = IF bad THEN 0 ELSE @],
                    \* the report right after a kick was approved and no other report can have taken the refusal
                    !.viol = V(@, e, ln, "KickNext", bad)]
     ELSE
       LET st     == m.ks[u]
           noKick == st = 0 \/ st = 3
           wrong  == m.must[u].on /\ r.g \notin m.must[u].set
       IN [m EXCEPT !.ks = [@ EXCEPT ![u] = IF st = 1 THEN 3 ELSE IF st = 3 THEN 3 ELSE 0],
                    !.must = [@ EXCEPT ![u] = MustOff],
                    !.refN = @ + 1,
                    !.viol = VAll(@, e, ln,
                       << <<"RefusedOnce", ~tainted /\ noKick>>,           \* refusal without an unconsumed kick
                          <<"KickNext",    ~tainted /\ ~noKick /\ wrong>> >>)] \* an earlier report was approved after the kick

\* ---------------------------------------------------------------- Ret of traffic
RetTraffic(m, r, e, ln) ==
  LET sv(u) == <<SnapVal(e.snap, u, 2), SnapVal(e.snap, u, 3)>>
      C2 == IF r.flag THEN [u \in UR |-> Add2(m.C[u], sv(u))] ELSE m.C
      tot(u) == IF r.flag THEN C2[u] ELSE Add2(m.C[u], sv(u))      \* cleared so far + this snapshot
      exactBad == r.iso /\ \E u \in UR : tot(u) # m.A[u]
      \* sound for overlapping calls: what was cleared (plus a non-clearing view) cannot exceed what was,
      \* or is being, approved
      overBad == \E u \in UR : \/ (IF r.flag THEN C2[u][1] ELSE sv(u)[1]) > m.A[u][1] + InflLog(m.infl, u, 1)
                               \/ (IF r.flag THEN C2[u][2] ELSE sv(u)[2]) > m.A[u][2] + InflLog(m.infl, u, 2)
      neg == \E i \in 1..Len(e.snap) : e.snap[i][2] < 0 \/ e.snap[i][3] < 0
  IN IF ~e.ok THEN [m EXCEPT !.viol = V(@, e, ln, "DRIFT_HTTPStatus", TRUE)]
     ELSE [m EXCEPT !.C = C2,
                    !.viol = VAll(@, e, ln, << <<"Conservation", exactBad \/ overBad \/ neg>> >>)]

RetKick(m, r, e, ln) ==
  [m EXCEPT !.ks = [x \in UR |-> IF x \in r.us THEN (IF m.ks[x] = 1 THEN 2 ELSE IF m.ks[x] = 3 THEN 0 ELSE m.ks[x]) ELSE m.ks[x]],
            !.viol = V(@, e, ln, "DRIFT_HTTPStatus", ~e.ok)]

RetOnline(m, r, e, ln) ==
  LET u == r.u IN
  IF r.flag THEN [m EXCEPT !.on = [@ EXCEPT ![u] = @ + 1]]
  ELSE IF m.on[u] > 0 THEN [m EXCEPT !.on = [@ EXCEPT ![u] = @ - 1]]
  ELSE [m EXCEPT !.taintOn = @ \cup {u}]

\* the listing against a ghost count function cnt (judged only when exact = TRUE)
OnlineClauses(snap, cnt, skip, exact) ==
  << <<"NonNegative", \E i \in 1..Len(snap) : snap[i][2] < 0>>,
     <<"Census", exact /\ \E u \in UR \ skip : SnapVal(snap, u, 2) # cnt[u]>>,
     <<"DRIFT_ZeroEntry", \E i \in 1..Len(snap) : snap[i][2] = 0>> >>

RetGetOnline(m, r, e, ln) ==
  IF ~e.ok THEN [m EXCEPT !.viol = V(@, e, ln, "DRIFT_HTTPStatus", TRUE)]
  ELSE [m EXCEPT !.viol = VAll(@, e, ln, OnlineClauses(e.snap, m.on, m.taintOn, r.iso))]

RetStep(m, e, ln) ==
  LET R == {r \in m.infl : r.g = e.g} IN
  IF R = {} THEN [m EXCEPT !.viol = V(@, e, ln, "DRIFT_Harness", TRUE)]
  ELSE LET r  == CHOOSE x \in R : TRUE
           m1 == [m EXCEPT !.infl = @ \ {r}]
       IN CASE r.op = "log"       -> RetLog(m1, r, e, ln)
            [] r.op = "traffic"   -> RetTraffic(m1, r, e, ln)
            [] r.op = "kick"      -> RetKick(m1, r, e, ln)
            [] r.op = "online"    -> RetOnline(m1, r, e, ln)
            [] r.op = "getonline" -> RetGetOnline(m1, r, e, ln)
            [] OTHER              -> m1

\* ---------------------------------------------------------------- full stack (real server + clients)
ConnCount(cs) == [u \in UR |-> Cardinality({p \in cs : p[2] = u})]

\* Connect: conn, u, ok      (client.NewClient returned; ok = handshake+auth succeeded)
\* Disconnect: conn          (the client closed / lost the connection; logged before the close)
\* ProbeStart: conn          Probe: conn, alive   (one echo exchange through the proxy; alive = a second exchange still works)
\* Census: snap              (GET /online sampled at quiescence: polled until stable, bounded wait)
ServerStep(m, e, ln) ==
  CASE e.ev = "Connect"    -> IF e.ok THEN [m EXCEPT !.cs = @ \cup {<<e.conn, InUR(e.u)>>}] ELSE m
    [] e.ev = "Disconnect" -> [m EXCEPT !.cs = {p \in @ : p[1] # e.conn}]
    [] e.ev = "ProbeStart" -> [m EXCEPT !.refN = 0]
    [] e.ev = "Probe"      ->
         [m EXCEPT !.cs = IF e.alive THEN @ ELSE {p \in @ : p[1] # e.conn},
                   !.viol = VAll(@, e, ln,
                      << <<"KickDisconnects", m.refN > 0 /\ e.alive>>,       \* a refused report must disconnect the user
                         <<"DRIFT_UnexpectedDeath", m.refN = 0 /\ ~e.alive>> >>)]
    [] e.ev = "Census"     ->
         [m EXCEPT !.viol = VAll(@, e, ln,
              OnlineClauses(e.snap, ConnCount(m.cs), {}, TRUE) \o
              << <<"DRIFT_Pairing", \E u \in UR \ m.taintOn : m.on[u] # ConnCount(m.cs)[u]>> >>)]
    [] OTHER -> m

\* Sum: what, u, a, b   - totals of a long concurrent phase, recorded by the harness at quiescence:
\*   "A" approved reports, "C" clearing snapshots, "O" net online reports, "K" a = kicks issued (each
\*   only after the previous one of that user was seen to refuse a report), b = refused reports
\*   (including the closing report per user made at quiescence)
SumStep(m, e, ln) ==
  LET u == InUR(e.u) IN
  CASE e.what = "A" -> [m EXCEPT !.A = [@ EXCEPT ![u] = Add2(@, <<e.a, e.b>>)]]
    [] e.what = "C" -> [m EXCEPT !.C = [@ EXCEPT ![u] = Add2(@, <<e.a, e.b>>)]]
    [] e.what = "O" -> [m EXCEPT !.on = [@ EXCEPT ![u] = @ + e.a]]
    [] e.what = "K" -> [m EXCEPT !.viol = VAll(@, e, ln, << <<"RefusedOnce", e.b > e.a>>, <<"KickNext", e.b < e.a>> >>)]
    [] OTHER -> m

MonStep(m, e, ln) ==
  CASE e.ev = "Reset" -> [MonInit EXCEPT !.viol = m.viol]
    [] e.ev = "Sum"   -> SumStep(m, e, ln)
    [] e.ev = "Call"  -> CallStep(m, e, ln)
    [] e.ev = "Ret"   -> RetStep(m, e, ln)
    [] e.ev = "Panic" -> [m EXCEPT !.viol = V(@, e, ln, "Panic", TRUE)]
    [] OTHER          -> ServerStep(m, e, ln)
===========================================================================
