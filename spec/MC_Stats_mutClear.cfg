SPECIFICATION Spec
CONSTANTS NU = 1  NG = 2  NC = 0  MaxOps = 3  Spurious = FALSE
  Amts <- A1  Ops <- OpsA  KickSets <- KS1
  ClearAtomic = FALSE  LogAtomic = TRUE  KickConsume = TRUE  OfflineOnVeto = TRUE  CloseOnLateVeto = TRUE  AuthAtomic = TRUE  OnlineFloor = TRUE
INVARIANT NoViolation
VIEW View
CHECK_DEADLOCK FALSE
