SPECIFICATION Spec
CONSTANTS MaxPort = 4  MaxItems = 3  Lemma = TRUE  Mut = "none"
INVARIANT NoViolation
CHECK_DEADLOCK FALSE
