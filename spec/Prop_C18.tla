----------------------------- MODULE Prop_C18 -----------------------------
(* C18 - Local SOCKS5/HTTP inbounds gate on credentials and relay bytes      *)
(* intact; the shared port hands each connection to exactly one handler.     *)
(*                                                                           *)
(* Total monitor over the events of                                          *)
(*  (a) one local connection served by socks5.Server / http.Server:          *)
(*      Conn, AuthFunc, HyTCP, HyUDP, UpWrite, Down, ConnDone                *)
(*  (b) the shared-port mux: MuxListen, LoopStart, SubClose, MuxConn,        *)
(*      Accepted, HRead, SrvClosed, Quiesce.                                 *)
(* Clauses (violations):                                                     *)
(*  Gate       with AuthFunc configured, HyClient.TCP/UDP is called for a    *)
(*             local connection only after AuthFunc returned true on that    *)
(*             connection for credentials that connection presented          *)
(*  Intact     what is written upstream is, at every moment, a prefix of the *)
(*             bytes the client sent behind the negotiation / CONNECT header *)
(*             and, once the client's stream has ended, all of them, also    *)
(*             while the upstream side sends in the other direction (whose   *)
(*             bytes must reach the client uncorrupted); what a              *)
(*             handler reads from a connection the mux handed over is the    *)
(*             client's stream from its first byte on                        *)
(*  OneHandler a connection that delivered its first byte is handed to at    *)
(*             most one sub-listener, of the kind chosen by that byte        *)
(*             (5 <=> SOCKS5), and at quiescence it has been handed over or  *)
(*             closed, unless it may still be waiting for a sub-listener of  *)
(*             its kind that is open and not being accepted from             *)
(* DRIFT_* clauses are not part of the property.                             *)
EXTENDS Mon

SeqSetOf(s) == {s[i] : i \in 1..Len(s)}

NoConn == [known |-> FALSE, proto |-> "", authSet |-> FALSE, presented |-> {}, tail |-> <<>>, tailKnown |-> FALSE,
           long |-> FALSE, tlen |-> 0, expectDial |-> FALSE, off |-> 0, dialed |-> FALSE, accReqs |-> {}, done |-> FALSE]
NoMux  == [known |-> FALSE, first |-> -1, stream |-> <<>>, handed |-> 0, closed |-> FALSE, hoff |-> 0]

MonInit == [viol |-> {},
            cn   |-> <<>>,          \* conn id -> inbound record   (function with growing domain)
            mx   |-> <<>>,          \* conn id -> mux record
            subs |-> <<>>]          \* sub-listener id -> [kind, closed, looping]

Get(f, k, d) == IF k \in DOMAIN f THEN f[k] ELSE d
Put(f, k, v) == [i \in (DOMAIN f) \cup {k} |-> IF i = k THEN v ELSE f[i]]

\* ---------------------------------------------------------------- inbound servers
\* Conn: conn, proto, authSet, presented (seq of <<user bytes, pass bytes>>), tail, tailKnown, long, tlen, expectDial
ConnStep(m, e, ln) ==
  [m EXCEPT !.cn = Put(@, e.conn, [NoConn EXCEPT !.known = TRUE, !.proto = e.proto, !.authSet = e.authSet,
                                     !.presented = SeqSetOf(e.presented), !.tail = e.tail, !.tailKnown = e.tailKnown,
                                     !.long = e.long, !.tlen = e.tlen, !.expectDial = e.expectDial])]

\* AuthFunc: conn, req, user, pass, ok
AuthStep(m, e, ln) ==
  LET c == Get(m.cn, e.conn, NoConn) IN
  IF ~c.known THEN [m EXCEPT !.viol = V(@, e, ln, "DRIFT_Harness", TRUE)]
  ELSE IF e.ok /\ <<e.user, e.pass>> \in c.presented
       THEN [m EXCEPT !.cn = Put(@, e.conn, [c EXCEPT !.accReqs = @ \cup {e.req}])]
       ELSE m

\* HyTCP: conn, req, addr      HyUDP: conn, req
DialStep(m, e, ln) ==
  LET c == Get(m.cn, e.conn, NoConn) IN
  IF ~c.known THEN [m EXCEPT !.viol = V(@, e, ln, "Gate", TRUE)]      \* an upstream call nobody asked for
  ELSE [m EXCEPT !.cn = Put(@, e.conn, [c EXCEPT !.dialed = TRUE]),
                 !.viol = VAll(@, e, ln,
                    << <<"Gate", c.authSet /\ c.accReqs = {}>>,
                       <<"DRIFT_PerRequest", c.authSet /\ c.accReqs # {} /\ e.req \notin c.accReqs>> >>)]

\* UpWrite: conn, data, n, match   (long payloads: data = <<>> and the harness compared the n bytes at the
\* current offset itself)
UpStep(m, e, ln) ==
  LET c == Get(m.cn, e.conn, NoConn) IN
  IF ~c.known \/ ~c.tailKnown THEN m
  ELSE LET fits == c.off + e.n <= c.tlen
           same == IF c.long THEN e.match
                   ELSE fits /\ e.n = Len(e.data) /\ SubSeq(c.tail, c.off + 1, c.off + e.n) = e.data
       IN [m EXCEPT !.cn = Put(@, e.conn, [c EXCEPT !.off = @ + e.n]),
                    !.viol = V(@, e, ln, "Intact", ~fits \/ ~same)]

\* ConnDone: conn   (the client's stream was delivered completely and the server's handler returned)
DoneStep(m, e, ln) ==
  LET c == Get(m.cn, e.conn, NoConn) IN
  IF ~c.known THEN m
  ELSE [m EXCEPT !.cn = Put(@, e.conn, [c EXCEPT !.done = TRUE]),
                 !.viol = VAll(@, e, ln,
                    << <<"Intact", c.tailKnown /\ c.dialed /\ c.off # c.tlen>>,
                       <<"DRIFT_NoDial", c.expectDial /\ ~c.dialed>>,
                       <<"DRIFT_Dial", ~c.expectDial /\ c.dialed>> >>)]

\* Down: conn, sent, got, long, prefixOk   (what the local client received behind the server's replies while the
\* upstream side was sending `sent`; the tunnel may be torn down before everything arrived, so only corruption counts.
\* long payloads: sent = got = <<>> and the harness did the prefix comparison)
DownStep(m, e, ln) ==
  [m EXCEPT !.viol = V(@, e, ln, "Intact", IF e.long THEN ~e.prefixOk ELSE ~IsPrefix(e.got, e.sent))]

\* ---------------------------------------------------------------- shared port
KindOf(b) == IF b = 5 THEN "socks" ELSE "http"

\* MuxListen: which, sub, ok     LoopStart: sub     SubClose: sub
\* MuxConn: conn, first, stream  (first = -1: the client closed without sending anything)
\* Accepted: conn, sub           (sub-listener sub's Accept returned the connection)
\* HRead: conn, want, data       (a handler read from the accepted connection with a buffer of want bytes)
\* SrvClosed: conn               (the server side closed the connection)
\* MuxConnGone: conn             (the base listener was already closed: the client was never accepted)
\* Quiesce                       (every goroutine of the mux is blocked)
MayWait(m, kind) == \E s \in DOMAIN m.subs : m.subs[s].kind = kind /\ ~m.subs[s].closed /\ ~m.subs[s].looping

MuxStep(m, e, ln) ==
  CASE e.ev = "MuxListen" ->
         IF e.ok THEN [m EXCEPT !.subs = Put(@, e.sub, [kind |-> e.which, closed |-> FALSE, looping |-> FALSE])] ELSE m
    [] e.ev = "LoopStart" ->
         IF e.sub \in DOMAIN m.subs THEN [m EXCEPT !.subs = [@ EXCEPT ![e.sub].looping = TRUE]] ELSE m
    [] e.ev = "SubClose" ->
         IF e.sub \in DOMAIN m.subs THEN [m EXCEPT !.subs = [@ EXCEPT ![e.sub].closed = TRUE]] ELSE m
    [] e.ev = "MuxConn" ->
         [m EXCEPT !.mx = Put(@, e.conn, [NoMux EXCEPT !.known = TRUE, !.first = e.first, !.stream = e.stream])]
    [] e.ev = "Accepted" ->
         LET x == Get(m.mx, e.conn, NoMux)
             s == Get(m.subs, e.sub, [kind |-> "?", closed |-> FALSE, looping |-> FALSE])
         IN [m EXCEPT !.mx = Put(@, e.conn, [x EXCEPT !.handed = @ + 1]),
                      !.viol = VAll(@, e, ln,
                         << <<"OneHandler", ~x.known \/ x.first < 0 \/ x.handed >= 1 \/ s.kind # KindOf(x.first)>> >>)]
    [] e.ev = "HRead" ->
         LET x == Get(m.mx, e.conn, NoMux)
             n == Len(e.data)
         IN IF ~x.known THEN m
            ELSE [m EXCEPT !.mx = Put(@, e.conn, [x EXCEPT !.hoff = @ + n]),
                           !.viol = VAll(@, e, ln,
                              << <<"Intact", n > e.want \/ x.hoff + n > Len(x.stream)
                                             \/ SubSeq(x.stream, x.hoff + 1, x.hoff + n) # e.data>> >>)]
    [] e.ev = "HEof" ->    \* the handler read up to the end of the client's stream
         LET x == Get(m.mx, e.conn, NoMux)
         IN [m EXCEPT !.viol = V(@, e, ln, "Intact", x.known /\ x.hoff # Len(x.stream))]
    [] e.ev \in {"SrvClosed", "MuxConnGone"} ->   \* MuxConnGone: the shared port had stopped listening, never accepted
         LET x == Get(m.mx, e.conn, NoMux) IN
         IF x.known THEN [m EXCEPT !.mx = Put(@, e.conn, [x EXCEPT !.closed = TRUE])] ELSE m
    [] e.ev = "Quiesce" ->
         LET lost == {c \in DOMAIN m.mx : /\ m.mx[c].first >= 0 /\ m.mx[c].handed = 0 /\ ~m.mx[c].closed
                                          /\ ~MayWait(m, KindOf(m.mx[c].first))}
         IN [m EXCEPT !.viol = V(@, e, ln, "OneHandler", lost # {})]
    [] OTHER -> m

MonStep(m, e, ln) ==
  CASE e.ev = "Reset"    -> [MonInit EXCEPT !.viol = m.viol]
    [] e.ev = "Conn"     -> ConnStep(m, e, ln)
    [] e.ev = "AuthFunc" -> AuthStep(m, e, ln)
    [] e.ev = "HyTCP"    -> DialStep(m, e, ln)
    [] e.ev = "HyUDP"    -> DialStep(m, e, ln)
    [] e.ev = "UpWrite"  -> UpStep(m, e, ln)
    [] e.ev = "ConnDone" -> DoneStep(m, e, ln)
    [] e.ev = "Down"     -> DownStep(m, e, ln)
    [] e.ev = "Panic"    -> [m EXCEPT !.viol = V(@, e, ln, "Panic", TRUE)]
    [] OTHER             -> MuxStep(m, e, ln)
===========================================================================
