SPECIFICATION Spec
CONSTANTS MsgSrc <- S6  MsgMid <- M6  MsgTot <- T6  CapSrc = 2  CapAll = 3  MaxDeliv = 12  MaxTick = 4
  GridP <- GP1  GridMM <- GM1
  DecOnComplete = TRUE  DupCheck = TRUE  TotalCheck = TRUE  CapStrict = TRUE  GcOn = TRUE  IdEarly = TRUE
INVARIANT PrintScn
CHECK_DEADLOCK FALSE
