SPECIFICATION Spec
CONSTANTS MaxAddr = 2  MaxMsg = 2  MaxPad = 2  Present = 3  BufSz = 2
  MutCheckAfter = FALSE  MutGreedy = FALSE  MutPadGE = FALSE
  Len1Set <- L1  Len2Set <- L2  TrailSet <- Tr  CutSet <- Cut
INVARIANT NoViolation
VIEW View
CHECK_DEADLOCK FALSE
