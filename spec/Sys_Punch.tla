------------------------------ MODULE Sys_Punch ------------------------------
(* Model of extras/realm/punch_conn.go: the attempt registry under its        *)
(* RWMutex (AddPunchAttempt / RemovePunchAttempt :98-115) and the ReadFrom    *)
(* loop (:117-133: STUN binding success -> divert; decodes under some         *)
(* registered attempt -> divert; else return), with the registry callers and  *)
(* the reader as separate threads.  Registry calls are call / effect / return *)
(* steps; the reader is  InnerCall -> Inject -> Decide (under RLock).         *)
(* DecodeOK is abstract: a punch packet of metadata a decodes under a only    *)
(* (what Prop_C20's DecodeExact / Exclusive clauses check on the real codec). *)
EXTENDS Prop_C20, TLC, Json

CONSTANTS NId, NMeta, MaxPkt, MaxCalls,
          Respond, \* TRUE: ServerPuncher.Respond calls (server_punch.go:39-105) are part of the environment
          Mut     \* "leak" (Respond registers before it validates and an error exit skips the removal) | "none" | "noreg" (divert any punch-shaped packet) | "stale" (registry snapshot taken when
                  \* ReadFrom is entered) | "allstun" (every STUN message diverted) | "inplace" (a packet that
                  \* was tried against a registered attempt comes back altered)

VARIABLES att,     \* id -> metadata (0 = not registered)
          op,      \* id -> state of the caller thread working on that id
          sp,      \* ids in the ServerPuncher's own table
          pc, cur, snap, fresh,     \* reader
          npkt, ncalls, mon, hist
vars == <<att, op, sp, pc, cur, snap, fresh, npkt, ncalls, mon, hist>>

Ids == 1..NId
MetaS == 1..NMeta
Kinds == {<<"punch", a>> : a \in MetaS} \cup {<<"stun", 0>>, <<"stunreq", 0>>, <<"other", 0>>}

EInject(k, kind, h) ==
  [ev |-> "Inject", scn |-> 0, k |-> k, h |-> h, len |-> 40, src |-> "peer",
   dec |-> IF kind[1] = "punch" THEN <<kind[2]>> ELSE <<>>,
   dinfo |-> IF kind[1] = "punch" THEN << <<kind[2], 1, 7>> >> ELSE <<>>,
   stun |-> IF kind[1] = "stun" THEN "success" ELSE IF kind[1] = "stunreq" THEN "other" ELSE "none",
   full |-> kind[1] = "stun", udp |-> TRUE]
ERead(h) == [ev |-> "Read", scn |-> 0, h |-> h, len |-> 40, src |-> "peer"]
E0(name) == [ev |-> name, scn |-> 0]
EReg(name, id, a) == [ev |-> name, scn |-> 0, id |-> id, a |-> a]
ERegRet(id, a) == [ev |-> "AddRet", scn |-> 0, id |-> id, a |-> a, ok |-> TRUE]
ERem(name, id) == [ev |-> name, scn |-> 0, id |-> id]

\* ---------------- registry callers (one thread per id)
AddCall(id, a) == /\ op[id] = <<"idle", 0>> /\ ncalls < MaxCalls
                  /\ op' = [op EXCEPT ![id] = <<"ac", a>>] /\ ncalls' = ncalls + 1
                  /\ mon' = MonStep(mon, EReg("AddCall", id, a), 0)
                  /\ hist' = Append(hist, <<"ac", id, a>>)
                  /\ UNCHANGED <<att, sp, pc, cur, snap, fresh, npkt>>
AddEff(id) == /\ op[id][1] = "ac"
              /\ att' = [att EXCEPT ![id] = op[id][2]]
              /\ op' = [op EXCEPT ![id] = <<"ae", op[id][2]>>]
              /\ UNCHANGED <<sp, pc, cur, snap, fresh, npkt, ncalls, mon, hist>>
AddRet(id) == /\ op[id][1] = "ae"
              /\ op' = [op EXCEPT ![id] = <<"idle", 0>>]
              /\ mon' = MonStep(mon, ERegRet(id, op[id][2]), 0)
              /\ hist' = Append(hist, <<"ar", id, 0>>)
              /\ UNCHANGED <<att, sp, pc, cur, snap, fresh, npkt, ncalls>>
RemCall(id) == /\ op[id] = <<"idle", 0>> /\ ncalls < MaxCalls
               /\ op' = [op EXCEPT ![id] = <<"rc", 0>>] /\ ncalls' = ncalls + 1
               /\ mon' = MonStep(mon, ERem("RemCall", id), 0)
               /\ hist' = Append(hist, <<"rc", id, 0>>)
               /\ UNCHANGED <<att, sp, pc, cur, snap, fresh, npkt>>
RemEff(id) == /\ op[id][1] = "rc"
              /\ att' = [att EXCEPT ![id] = 0]
              /\ op' = [op EXCEPT ![id] = <<"re", 0>>]
              /\ UNCHANGED <<sp, pc, cur, snap, fresh, npkt, ncalls, mon, hist>>
RemRet(id) == /\ op[id][1] = "re"
              /\ op' = [op EXCEPT ![id] = <<"idle", 0>>]
              /\ mon' = MonStep(mon, ERem("RemRet", id), 0)
              /\ hist' = Append(hist, <<"rr", id, 0>>)
              /\ UNCHANGED <<att, sp, pc, cur, snap, fresh, npkt, ncalls>>

\* ---------------- ServerPuncher.Respond (server_punch.go:39-105), one call at a time per id, attempt id = id
ERespCall(id) == [ev |-> "RespCall", scn |-> 0, id |-> id, rid |-> id]
ERespRet(id, ok, dup) == [ev |-> "RespRet", scn |-> 0, id |-> id, rid |-> id, ok |-> ok, dup |-> dup]
RespReturn(m, id, ok, dup) == MonStep(MonStep(m, ERespRet(id, ok, dup), 0), ERem("RemRet", id), 0)
\* (the driver never calls Respond with an id that is registered directly through AddPunchAttempt)
RespCall(id, a) == /\ Respond /\ op[id] = <<"idle", 0>> /\ ncalls < MaxCalls /\ (att[id] = 0 \/ id \in sp)
                   /\ op' = [op EXCEPT ![id] = <<"sc", a>>] /\ ncalls' = ncalls + 1
                   /\ mon' = MonStep(MonStep(mon, ERespCall(id), 0), EReg("AddCall", id, a), 0)
                   /\ UNCHANGED <<att, sp, pc, cur, snap, fresh, npkt, hist>>
\* an argument is rejected (no compatible candidates, negative timeout, non-positive interval): the unchanged
\* code has registered nothing yet; the "leak" mutant has, and returns without the deferred removal
RespFail(id) == /\ op[id][1] = "sc"
                /\ op' = [op EXCEPT ![id] = <<"idle", 0>>]
                /\ IF Mut = "leak" THEN
                      IF id \in sp THEN /\ mon' = RespReturn(mon, id, FALSE, TRUE) /\ UNCHANGED <<att, sp>>
                      ELSE /\ att' = [att EXCEPT ![id] = op[id][2]] /\ sp' = sp \cup {id}
                           /\ mon' = RespReturn(mon, id, FALSE, FALSE)
                   ELSE /\ mon' = RespReturn(mon, id, FALSE, FALSE) /\ UNCHANGED <<att, sp>>
                /\ UNCHANGED <<pc, cur, snap, fresh, npkt, ncalls, hist>>
\* addAttempt (:122-139): refused when the id is in the puncher's table
RespAdd(id) == /\ op[id][1] = "sc"
               /\ IF id \in sp
                  THEN /\ op' = [op EXCEPT ![id] = <<"idle", 0>>]
                       /\ mon' = RespReturn(mon, id, FALSE, TRUE) /\ UNCHANGED <<att, sp>>
                  ELSE /\ op' = [op EXCEPT ![id] = <<"sa", op[id][2]>>]
                       /\ att' = [att EXCEPT ![id] = op[id][2]] /\ sp' = sp \cup {id} /\ mon' = mon
               /\ UNCHANGED <<pc, cur, snap, fresh, npkt, ncalls, hist>>
\* result, timeout or cancellation: the deferred removeAttempt (:141-146) runs
RespDone(id) == /\ op[id][1] = "sa"
                /\ op' = [op EXCEPT ![id] = <<"idle", 0>>]
                /\ att' = [att EXCEPT ![id] = 0] /\ sp' = sp \ {id}
                /\ \E ok \in BOOLEAN : mon' = RespReturn(mon, id, ok, FALSE)
                /\ UNCHANGED <<pc, cur, snap, fresh, npkt, ncalls, hist>>

\* ---------------- reader (punch_conn.go:117-165)
RCall == /\ pc = "call" /\ pc' = "wait"
         /\ snap' = IF fresh THEN att ELSE snap      \* only the "stale" mutant looks at it
         /\ fresh' = FALSE
         /\ mon' = MonStep(mon, E0("InnerCall"), 0)
         /\ UNCHANGED <<att, op, sp, cur, npkt, ncalls, hist>>
RInject(kind) == /\ pc = "wait" /\ npkt < MaxPkt
                 /\ pc' = "got" /\ cur' = kind /\ npkt' = npkt + 1
                 /\ mon' = MonStep(mon, EInject(npkt + 1, kind, npkt + 1), 0)
                 /\ hist' = Append(hist, <<"p", kind[1], kind[2]>>)
                 /\ UNCHANGED <<att, op, sp, snap, fresh, ncalls>>
RDecide == /\ pc = "got"
           /\ LET reg == IF Mut = "stale" THEN snap ELSE att
                  isReg == \E id \in Ids : reg[id] # 0 /\ reg[id] = cur[2]
                  divert == \/ cur[1] = "stun"
                            \/ (cur[1] = "stunreq" /\ Mut = "allstun")
                            \/ (cur[1] = "punch" /\ (isReg \/ Mut = "noreg"))
                  tried == \E id \in Ids : att[id] # 0
              IN IF divert THEN /\ mon' = mon /\ fresh' = fresh
                 ELSE /\ mon' = MonStep(mon, ERead(IF Mut = "inplace" /\ tried THEN 0 ELSE npkt), 0)
                      /\ fresh' = TRUE
           /\ pc' = "call"
           /\ UNCHANGED <<att, op, sp, cur, snap, npkt, ncalls, hist>>
\* end of the scenario: the inner socket is closed once everything has returned
REnd == /\ pc = "wait" /\ \A id \in Ids : op[id][1] = "idle"
        /\ pc' = "done"
        /\ mon' = MonStep(MonStep(mon, E0("InnerEOF"), 0), E0("ReadErr"), 0)
        /\ UNCHANGED <<att, op, sp, cur, snap, fresh, npkt, ncalls, hist>>

Init == /\ att = [id \in Ids |-> 0] /\ op = [id \in Ids |-> <<"idle", 0>>] /\ sp = {}
        /\ pc = "call" /\ cur = <<"other", 0>> /\ snap = [id \in Ids |-> 0] /\ fresh = TRUE
        /\ npkt = 0 /\ ncalls = 0 /\ hist = <<>>
        /\ mon = MonStep(MonInit, [ev |-> "Reset", scn |-> 0], 0)

Next == \/ \E id \in Ids : \/ \E a \in MetaS : AddCall(id, a)
                           \/ AddEff(id) \/ AddRet(id) \/ RemCall(id) \/ RemEff(id) \/ RemRet(id)
                           \/ \E a \in MetaS : RespCall(id, a)
                           \/ RespFail(id) \/ RespAdd(id) \/ RespDone(id)
        \/ RCall \/ RDecide \/ REnd
        \/ \E kind \in Kinds : RInject(kind)
Spec == Init /\ [][Next]_vars

NoViolation == mon.viol = {}
\* for mutant configurations: TLC has to reach a violation of the property itself, not only a drift clause
NoHardViolation == \A v \in mon.viol : v.clause \in {"DRIFT_NotDiverted", "DRIFT_StunError", "DRIFT_Event", "DRIFT_Harness"}
\* for the "leak" mutant: TLC has to reach each of the two symptoms
NoSwallowed  == \A v \in mon.viol : v.clause # "Swallowed"
NoDupRefusal == \A v \in mon.viol : v.clause # "RemovedOnReturn"
PrintScn == (pc = "done") => PrintT(<<"SCN", ToJson(hist)>>)
View == <<att, op, sp, pc, cur, snap, fresh, npkt, ncalls, mon>>
=============================================================================
