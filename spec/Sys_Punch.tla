------------------------------ MODULE Sys_Punch ------------------------------
(* Model of extras/realm/punch_conn.go: the attempt registry under its        *)
(* RWMutex (AddPunchAttempt / RemovePunchAttempt :98-115) and the ReadFrom    *)
(* loop (:117-133: STUN binding success -> divert; decodes under some         *)
(* registered attempt -> divert; else return), with the registry callers and  *)
(* the reader as separate threads.  Registry calls are call / effect / return *)
(* steps; the reader is  InnerCall -> Inject -> Decide (under RLock).         *)
(* DecodeOK is abstract: a punch packet of metadata a decodes under a only    *)
(* (what Prop_C20's DecodeExact / Exclusive clauses check on the real codec). *)
EXTENDS Prop_C20, TLC, Json

CONSTANTS NId, NMeta, MaxPkt, MaxCalls,
          NResp,   \* number of threads calling ServerPuncher.Respond (each picks the attempt id of its call: two of them
                   \* may name the same attempt and overlap - the second one is refused as a duplicate id)
          Respond, \* TRUE: ServerPuncher.Respond calls (server_punch.go:39-105) are part of the environment
          Mut     \* "dupreg" (addAttempt registers the metadata on the socket before it looks the id up in its own table: a
                  \* refused duplicate call leaves ITS metadata under the first call's id) | "leak" (Respond registers before it validates and an error exit skips the removal) | "none" | "noreg" (divert any punch-shaped packet) | "stale" (registry snapshot taken when
                  \* ReadFrom is entered) | "allstun" (every STUN message diverted) | "inplace" (a packet that
                  \* was tried against a registered attempt comes back altered)

VARIABLES att,     \* id -> metadata (0 = not registered)
          op,      \* id -> state of the caller thread working on that id
          sp,      \* ids in the ServerPuncher's own table
          rop,     \* Respond thread -> <<state, metadata, attempt id>>
          pc, cur, snap, fresh,     \* reader
          npkt, ncalls, mon, hist
vars == <<att, op, sp, rop, pc, cur, snap, fresh, npkt, ncalls, mon, hist>>

Ids == 1..NId
RT == 1..NResp
Cid(t) == NId + t                      \* the call's own id in the events (ids 1..NId are the direct registry callers)
RIdle == <<"idle", 0, 0>>
RBusy(id) == \E t \in RT : rop[t][1] # "idle" /\ rop[t][3] = id
MetaS == 1..NMeta
Kinds == {<<"punch", a>> : a \in MetaS} \cup {<<"stun", 0>>, <<"stunreq", 0>>, <<"other", 0>>}

EInject(k, kind, h) ==
  [ev |-> "Inject", scn |-> 0, k |-> k, h |-> h, len |-> 40, src |-> "peer",
   dec |-> IF kind[1] = "punch" THEN <<kind[2]>> ELSE <<>>,
   dinfo |-> IF kind[1] = "punch" THEN << <<kind[2], 1, 7>> >> ELSE <<>>,
   stun |-> IF kind[1] = "stun" THEN "success" ELSE IF kind[1] = "stunreq" THEN "other" ELSE "none",
   full |-> kind[1] = "stun", udp |-> TRUE]
ERead(h) == [ev |-> "Read", scn |-> 0, h |-> h, len |-> 40, src |-> "peer"]
E0(name) == [ev |-> name, scn |-> 0]
EReg(name, id, a) == [ev |-> name, scn |-> 0, id |-> id, a |-> a]
ERegRet(id, a) == [ev |-> "AddRet", scn |-> 0, id |-> id, a |-> a, ok |-> TRUE]
ERem(name, id) == [ev |-> name, scn |-> 0, id |-> id]

\* ---------------- registry callers (one thread per id)
AddCall(id, a) == /\ op[id] = <<"idle", 0>> /\ ncalls < MaxCalls /\ ~RBusy(id) /\ id \notin sp
                  /\ op' = [op EXCEPT ![id] = <<"ac", a>>] /\ ncalls' = ncalls + 1
                  /\ mon' = MonStep(mon, EReg("AddCall", id, a), 0)
                  /\ hist' = Append(hist, <<"ac", id, a>>)
                  /\ UNCHANGED <<att, sp, rop, pc, cur, snap, fresh, npkt>>
AddEff(id) == /\ op[id][1] = "ac"
              /\ att' = [att EXCEPT ![id] = op[id][2]]
              /\ op' = [op EXCEPT ![id] = <<"ae", op[id][2]>>]
              /\ UNCHANGED <<sp, rop, pc, cur, snap, fresh, npkt, ncalls, mon, hist>>
AddRet(id) == /\ op[id][1] = "ae"
              /\ op' = [op EXCEPT ![id] = <<"idle", 0>>]
              /\ mon' = MonStep(mon, ERegRet(id, op[id][2]), 0)
              /\ hist' = Append(hist, <<"ar", id, 0>>)
              /\ UNCHANGED <<att, sp, rop, pc, cur, snap, fresh, npkt, ncalls>>
RemCall(id) == /\ op[id] = <<"idle", 0>> /\ ncalls < MaxCalls /\ ~RBusy(id) /\ id \notin sp
               /\ op' = [op EXCEPT ![id] = <<"rc", 0>>] /\ ncalls' = ncalls + 1
               /\ mon' = MonStep(mon, ERem("RemCall", id), 0)
               /\ hist' = Append(hist, <<"rc", id, 0>>)
               /\ UNCHANGED <<att, sp, rop, pc, cur, snap, fresh, npkt>>
RemEff(id) == /\ op[id][1] = "rc"
              /\ att' = [att EXCEPT ![id] = 0]
              /\ op' = [op EXCEPT ![id] = <<"re", 0>>]
              /\ UNCHANGED <<sp, rop, pc, cur, snap, fresh, npkt, ncalls, mon, hist>>
RemRet(id) == /\ op[id][1] = "re"
              /\ op' = [op EXCEPT ![id] = <<"idle", 0>>]
              /\ mon' = MonStep(mon, ERem("RemRet", id), 0)
              /\ hist' = Append(hist, <<"rr", id, 0>>)
              /\ UNCHANGED <<att, sp, rop, pc, cur, snap, fresh, npkt, ncalls>>

\* ---------------- ServerPuncher.Respond (server_punch.go:39-105): thread t, call id Cid(t), attempt id rid
ERespCall(t, rid) == [ev |-> "RespCall", scn |-> 0, id |-> Cid(t), rid |-> rid]
ERespRet(t, rid, ok, dup) == [ev |-> "RespRet", scn |-> 0, id |-> Cid(t), rid |-> rid, ok |-> ok, dup |-> dup]
RespReturn(m, t, rid, ok, dup) == MonStep(MonStep(m, ERespRet(t, rid, ok, dup), 0), ERem("RemRet", Cid(t)), 0)
\* (the driver never calls Respond with an id that is registered directly through AddPunchAttempt)
RespCall(t, rid, a) == /\ Respond /\ rop[t] = RIdle /\ ncalls < MaxCalls
                       /\ op[rid] = <<"idle", 0>> /\ (att[rid] = 0 \/ rid \in sp \/ RBusy(rid))
                       /\ rop' = [rop EXCEPT ![t] = <<"sc", a, rid>>] /\ ncalls' = ncalls + 1
                       /\ mon' = MonStep(MonStep(mon, ERespCall(t, rid), 0), EReg("AddCall", Cid(t), a), 0)
                       /\ UNCHANGED <<att, op, sp, pc, cur, snap, fresh, npkt, hist>>
\* an argument is rejected (no compatible candidates, negative timeout, non-positive interval): the unchanged
\* code has registered nothing yet; the "leak" mutant has, and returns without the deferred removal
RespFail(t) == /\ rop[t][1] = "sc"
               /\ rop' = [rop EXCEPT ![t] = RIdle]
               /\ LET a == rop[t][2]  rid == rop[t][3] IN
                  IF Mut = "leak" THEN
                      IF rid \in sp THEN /\ mon' = RespReturn(mon, t, rid, FALSE, TRUE) /\ UNCHANGED <<att, sp>>
                      ELSE /\ att' = [att EXCEPT ![rid] = a] /\ sp' = sp \cup {rid}
                           /\ mon' = RespReturn(mon, t, rid, FALSE, FALSE)
                  ELSE /\ mon' = RespReturn(mon, t, rid, FALSE, FALSE) /\ UNCHANGED <<att, sp>>
               /\ UNCHANGED <<op, pc, cur, snap, fresh, npkt, ncalls, hist>>
\* addAttempt (:122-139), first critical section (p.mu): refused when the id is in the puncher's table - the attempt
\* of the call that owns the id stays as it is (the "dupreg" mutant has already overwritten its metadata on the socket)
RespAdd(t) == /\ rop[t][1] = "sc"
              /\ LET a == rop[t][2]  rid == rop[t][3] IN
                 IF rid \in sp
                 THEN /\ rop' = [rop EXCEPT ![t] = RIdle]
                      /\ att' = IF Mut = "dupreg" THEN [att EXCEPT ![rid] = a] ELSE att
                      /\ mon' = RespReturn(mon, t, rid, FALSE, TRUE) /\ UNCHANGED sp
                 ELSE /\ rop' = [rop EXCEPT ![t] = <<"sb", a, rid>>]
                      /\ sp' = sp \cup {rid} /\ mon' = mon /\ UNCHANGED att
              /\ UNCHANGED <<op, pc, cur, snap, fresh, npkt, ncalls, hist>>
\* addAttempt, second critical section (the socket's c.mu, conn.AddPunchAttempt): only now are the attempt's packets diverted
RespReg(t) == /\ rop[t][1] = "sb"
              /\ rop' = [rop EXCEPT ![t] = <<"sa", rop[t][2], rop[t][3]>>]
              /\ att' = [att EXCEPT ![rop[t][3]] = rop[t][2]]
              /\ UNCHANGED <<op, sp, pc, cur, snap, fresh, npkt, ncalls, mon, hist>>
\* result, timeout or cancellation: the deferred removeAttempt (:141-146) runs - the socket's registry first (c.mu) ...
RespUnreg(t) == /\ rop[t][1] = "sa"
                /\ rop' = [rop EXCEPT ![t] = <<"sd", rop[t][2], rop[t][3]>>]
                /\ att' = [att EXCEPT ![rop[t][3]] = 0]
                /\ UNCHANGED <<op, sp, pc, cur, snap, fresh, npkt, ncalls, mon, hist>>
\* ... then the puncher's table (p.mu; until then a call with the same id is still refused), and the return
RespDone(t) == /\ rop[t][1] = "sd"
               /\ rop' = [rop EXCEPT ![t] = RIdle]
               /\ LET rid == rop[t][3] IN
                  /\ sp' = sp \ {rid}
                  /\ \E ok \in BOOLEAN : mon' = RespReturn(mon, t, rid, ok, FALSE)
               /\ UNCHANGED <<att, op, pc, cur, snap, fresh, npkt, ncalls, hist>>

\* ---------------- reader (punch_conn.go:117-165)
RCall == /\ pc = "call" /\ pc' = "wait"
         /\ snap' = IF fresh THEN att ELSE snap      \* only the "stale" mutant looks at it
         /\ fresh' = FALSE
         /\ mon' = MonStep(mon, E0("InnerCall"), 0)
         /\ UNCHANGED <<att, op, sp, rop, cur, npkt, ncalls, hist>>
RInject(kind) == /\ pc = "wait" /\ npkt < MaxPkt
                 /\ pc' = "got" /\ cur' = kind /\ npkt' = npkt + 1
                 /\ mon' = MonStep(mon, EInject(npkt + 1, kind, npkt + 1), 0)
                 /\ hist' = Append(hist, <<"p", kind[1], kind[2]>>)
                 /\ UNCHANGED <<att, op, sp, rop, snap, fresh, ncalls>>
RDecide == /\ pc = "got"
           /\ LET reg == IF Mut = "stale" THEN snap ELSE att
                  isReg == \E id \in Ids : reg[id] # 0 /\ reg[id] = cur[2]
                  divert == \/ cur[1] = "stun"
                            \/ (cur[1] = "stunreq" /\ Mut = "allstun")
                            \/ (cur[1] = "punch" /\ (isReg \/ Mut = "noreg"))
                  tried == \E id \in Ids : att[id] # 0
              IN IF divert THEN /\ mon' = mon /\ fresh' = fresh
                 ELSE /\ mon' = MonStep(mon, ERead(IF Mut = "inplace" /\ tried THEN 0 ELSE npkt), 0)
                      /\ fresh' = TRUE
           /\ pc' = "call"
           /\ UNCHANGED <<att, op, sp, rop, cur, snap, npkt, ncalls, hist>>
\* end of the scenario: the inner socket is closed once everything has returned
REnd == /\ pc = "wait" /\ \A id \in Ids : op[id][1] = "idle" /\ \A t \in RT : rop[t] = RIdle
        /\ pc' = "done"
        /\ mon' = MonStep(MonStep(mon, E0("InnerEOF"), 0), E0("ReadErr"), 0)
        /\ UNCHANGED <<att, op, sp, rop, cur, snap, fresh, npkt, ncalls, hist>>

Init == /\ att = [id \in Ids |-> 0] /\ op = [id \in Ids |-> <<"idle", 0>>] /\ sp = {}
        /\ rop = [t \in RT |-> RIdle]
        /\ pc = "call" /\ cur = <<"other", 0>> /\ snap = [id \in Ids |-> 0] /\ fresh = TRUE
        /\ npkt = 0 /\ ncalls = 0 /\ hist = <<>>
        /\ mon = MonStep(MonInit, [ev |-> "Reset", scn |-> 0], 0)

Next == \/ \E id \in Ids : \/ \E a \in MetaS : AddCall(id, a)
                           \/ AddEff(id) \/ AddRet(id) \/ RemCall(id) \/ RemEff(id) \/ RemRet(id)
        \/ \E t \in RT : \/ \E rid \in Ids, a \in MetaS : RespCall(t, rid, a)
                          \/ RespFail(t) \/ RespAdd(t) \/ RespReg(t) \/ RespUnreg(t) \/ RespDone(t)
        \/ RCall \/ RDecide \/ REnd
        \/ \E kind \in Kinds : RInject(kind)
Spec == Init /\ [][Next]_vars

NoViolation == mon.viol = {}
\* for mutant configurations: TLC has to reach a violation of the property itself, not only a drift clause
NoHardViolation == \A v \in mon.viol : v.clause \in {"DRIFT_NotDiverted", "DRIFT_StunError", "DRIFT_Event", "DRIFT_Harness"}
\* for the "leak" mutant: TLC has to reach each of the two symptoms
NoSwallowed  == \A v \in mon.viol : v.clause # "Swallowed"
NoDupRefusal == \A v \in mon.viol : v.clause # "RemovedOnReturn"
PrintScn == (pc = "done") => PrintT(<<"SCN", ToJson(hist)>>)
View == <<att, op, sp, rop, pc, cur, snap, fresh, npkt, ncalls, mon>>
=============================================================================
