SPECIFICATION Spec
CONSTANTS MaxOps = 5  MaxFire = 3  MaxPkt = 2  MaxRd = 2  MaxWr = 1  HMin = 5000  HMax = 5001  Mut = "wunlocked"
  Items <- ItemsDef  PortU <- PortUDef
INVARIANT NoViolation
VIEW View
CHECK_DEADLOCK FALSE
