package realm

// C03 driver (extras/realm): hole-punch and STUN packets.  Punch shapes (wire length x magic x type x nonce) are
// built with an independent implementation of the obfuscation (SHA-256(key||salt) mask) and fed to
// DecodePunchPacket and through PunchPacketConn.ReadFrom (registered attempts, scripted inner conn); STUN binding
// responses built with pion/stun are truncated, given lying length fields / families / ports and perturbed, then
// fed to parseSTUNBindingResponse and the demultiplexer.  Everything under recover(); ordinary packets must still
// pass through afterwards (Probe).

import (
	"bytes"
	"crypto/sha256"
	"encoding/binary"
	"encoding/hex"
	"errors"
	"fmt"
	"net"
	"testing"
	"time"

	"github.com/pion/stun/v3"

	kit "github.com/apernet/hysteria/extras/v2/internal/verifkit"
)

type c03Pkt struct {
	b    []byte
	from net.Addr
}
type c03Inner struct{ q []c03Pkt }

func (c *c03Inner) ReadFrom(p []byte) (int, net.Addr, error) {
	if len(c.q) == 0 {
		return 0, nil, errors.New("c03: script exhausted")
	}
	x := c.q[0]
	c.q = c.q[1:]
	return copy(p, x.b), x.from, nil
}
func (c *c03Inner) WriteTo(p []byte, a net.Addr) (int, error) { return len(p), nil }
func (c *c03Inner) Close() error                              { return nil }
func (c *c03Inner) LocalAddr() net.Addr                       { return &net.UDPAddr{IP: net.IPv4(127, 0, 0, 1), Port: 1} }
func (c *c03Inner) SetDeadline(time.Time) error               { return nil }
func (c *c03Inner) SetReadDeadline(time.Time) error           { return nil }
func (c *c03Inner) SetWriteDeadline(time.Time) error          { return nil }

// independent encoder: salt(8) || (magic(8) type(1) nonce(16) padding) XOR SHA-256(key||salt), cut to n bytes
func c03Punch(n int, magicOK bool, typ int, nonceOK bool, nonce, key []byte, salt []byte) []byte {
	plain := []byte{'H', 'Y', 'R', 'L', 'M', 'v', '1', 0}
	if !magicOK {
		plain[3] ^= 0x20
	}
	plain = append(plain, byte(typ))
	nn := append([]byte{}, nonce...)
	if !nonceOK {
		nn[15] ^= 1
	}
	plain = append(plain, nn...)
	for len(plain)+8 < n {
		plain = append(plain, byte(len(plain)))
	}
	h := sha256.New()
	h.Write(key)
	h.Write(salt)
	mask := h.Sum(nil)
	for i := range plain {
		plain[i] ^= mask[i%32]
	}
	pkt := append(append([]byte{}, salt...), plain...)
	if n < len(pkt) {
		pkt = pkt[:n]
	}
	return kit.Exact(pkt)
}

func TestVerif_C03(t *testing.T) {
	tr := kit.Open("C03-realm")
	defer tr.Close()
	r := kit.Rand(39)
	nonce, key := kit.Fill(r, PunchNonceSize), kit.Fill(r, PunchObfsKeySize)
	meta := PunchMetadata{Nonce: hex.EncodeToString(nonce), Obfs: hex.EncodeToString(key)}
	from := &net.UDPAddr{IP: net.IPv4(198, 51, 100, 7), Port: 4433}

	tr.Reset(kit.E{"src": "shapes"})
	var corpus [][]byte
	for _, s := range kit.LoadShapes("shapes", "punch") {
		pkt := c03Punch(s.I("n"), s.B("magic"), s.I("typ"), s.B("nonce"), nonce, key, kit.Fill(r, 8))
		if len(pkt) < 200 {
			corpus = append(corpus, pkt)
		}
		what := fmt.Sprintf("n=%d magic=%v typ=%d nonce=%v", s.I("n"), s.B("magic"), s.I("typ"), s.B("nonce"))
		tr.Dec("punch", s.Expect, what, func() bool { _, err := DecodePunchPacket(pkt, meta); return err == nil })
		// through the demultiplexer: an accepted punch packet is diverted (ReadFrom goes on to the next packet)
		inner := &c03Inner{q: []c03Pkt{{pkt, from}}}
		pc, _ := NewPunchPacketConn(inner, 4)
		_ = pc.AddPunchAttempt("a1", meta)
		_ = pc.AddPunchAttempt("a2", PunchMetadata{Nonce: hex.EncodeToString(kit.Fill(r, 16)), Obfs: hex.EncodeToString(kit.Fill(r, 32))})
		tr.Dec("punchconn", "any", what, func() bool {
			_, _, err := pc.ReadFrom(make([]byte, 2048))
			return err == nil
		})
	}
	// malformed metadata must be refused, not crash
	for _, m := range []PunchMetadata{{}, {Nonce: "zz", Obfs: meta.Obfs}, {Nonce: meta.Nonce, Obfs: "00"}, {Nonce: meta.Nonce + "00", Obfs: meta.Obfs}} {
		pkt := c03Punch(40, true, 1, true, nonce, key, kit.Fill(r, 8))
		tr.Dec("punch", "reject", "bad metadata", func() bool { _, err := DecodePunchPacket(pkt, m); return err == nil })
	}

	// ---- STUN ----
	tr.Reset(kit.E{"src": "stun"})
	var stuns [][]byte
	for _, ip := range []net.IP{net.IPv4(203, 0, 113, 9), net.ParseIP("2001:db8::99")} {
		for _, port := range []int{0, 1, 65535} {
			m1, _ := stun.Build(stun.TransactionID, stun.BindingSuccess, &stun.XORMappedAddress{IP: ip, Port: port})
			m2, _ := stun.Build(stun.TransactionID, stun.BindingSuccess, &stun.MappedAddress{IP: ip, Port: port})
			m3, _ := stun.Build(stun.TransactionID, stun.BindingRequest)
			m4, _ := stun.Build(stun.TransactionID, stun.BindingError, &stun.XORMappedAddress{IP: ip, Port: port})
			m5, _ := stun.Build(stun.TransactionID, stun.BindingSuccess, stun.NewSoftware("verif"), &stun.MappedAddress{IP: ip, Port: port}, &stun.XORMappedAddress{IP: ip, Port: port})
			stuns = append(stuns, m1.Raw, m2.Raw, m3.Raw, m4.Raw, m5.Raw)
		}
	}
	m0, _ := stun.Build(stun.TransactionID, stun.BindingSuccess)
	stuns = append(stuns, m0.Raw)
	feedSTUN := func(b []byte, what string) {
		b = kit.Exact(b)
		tr.Dec("stun", "any", what, func() bool { _, _, err := parseSTUNBindingResponse(b); return err == nil })
		inner := &c03Inner{q: []c03Pkt{{b, from}}}
		pc, _ := NewPunchPacketConn(inner, 1)
		_ = pc.AddPunchAttempt("a1", meta)
		tr.Dec("punchconn", "any", what, func() bool {
			_, _, err := pc.ReadFrom(make([]byte, 2048))
			return err == nil
		})
	}
	for _, raw := range stuns {
		feedSTUN(raw, "built")
		for n := 0; n < len(raw); n++ {
			feedSTUN(raw[:n], "prefix")
		}
		// lying message length / attribute length / family
		for _, l := range []int{0, 1, 3, 4, 8, len(raw) - 21, len(raw) - 20, len(raw) - 19, 65535} {
			c := append([]byte{}, raw...)
			binary.BigEndian.PutUint16(c[2:], uint16(l))
			feedSTUN(c, "msglen")
		}
		if len(raw) > 24 {
			for _, l := range []int{0, 1, 3, 4, 7, 8, 9, 20, 21, 65535} {
				c := append([]byte{}, raw...)
				binary.BigEndian.PutUint16(c[22:], uint16(l))
				feedSTUN(c, "attrlen")
			}
			for _, f := range []byte{0, 1, 2, 3, 255} {
				c := append([]byte{}, raw...)
				c[25] = f
				feedSTUN(c, "family")
			}
		}
	}
	for i := 0; i < kit.Pick(3000, 40000); i++ {
		var b []byte
		if r.Intn(2) == 0 {
			b = kit.Perturb(r, stuns[r.Intn(len(stuns))])
		} else {
			b = kit.Perturb(r, corpus[r.Intn(len(corpus))])
		}
		if r.Intn(3) == 0 {
			b = kit.Perturb(r, b)
		}
		feedSTUN(b, "perturbed")
		tr.Dec("punch", "any", "perturbed", func() bool { _, err := DecodePunchPacket(b, meta); return err == nil })
	}

	// ---- one long-lived demultiplexer: junk, punch, STUN interleaved, then ordinary traffic must pass ----
	tr.Reset(kit.E{"src": "demux"})
	inner := &c03Inner{}
	pc, _ := NewPunchPacketConn(inner, 2)
	_ = pc.AddPunchAttempt("a1", meta)
	for i := 0; i < kit.Pick(2000, 20000); i++ {
		var b []byte
		switch r.Intn(4) {
		case 0:
			b = c03Punch(33+r.Intn(1100), r.Intn(4) != 0, r.Intn(4), r.Intn(4) != 0, nonce, key, kit.Fill(r, 8))
		case 1:
			b = kit.Perturb(r, stuns[r.Intn(len(stuns))])
		case 2:
			b = stuns[r.Intn(len(stuns))]
		default:
			b = kit.Fill(r, r.Intn(1500))
		}
		var src net.Addr = from
		switch r.Intn(6) {
		case 0:
			src = &net.UDPAddr{IP: nil, Port: 1}
		case 1:
			src = &net.UDPAddr{IP: net.ParseIP("::ffff:1.2.3.4"), Port: 0}
		case 2:
			src = &net.IPAddr{IP: net.IPv4(1, 1, 1, 1)}
		}
		inner.q = []c03Pkt{{kit.Exact(b), src}}
		tr.Dec("punchconn", "any", "demux", func() bool {
			_, _, err := pc.ReadFrom(make([]byte, 2048))
			return err == nil
		})
		if r.Intn(50) == 0 {
			pc.RemovePunchAttempt("a1")
			_ = pc.AddPunchAttempt("a1", meta)
		}
	}
	quicLike := append([]byte{0x45}, kit.Fill(r, 50)...)
	inner.q = []c03Pkt{{quicLike, from}}
	ok := false
	if p := kit.Catch(func() {
		buf := make([]byte, 2048)
		n, a, err := pc.ReadFrom(buf)
		ok = err == nil && a == net.Addr(from) && bytes.Equal(buf[:n], quicLike)
	}); p != "" {
		tr.Ev(kit.E{"ev": "Panic", "what": "demux probe", "msg": p})
	} else {
		tr.Probe("punchconn", ok)
	}
	t.Logf("events=%d", tr.Count())
}
