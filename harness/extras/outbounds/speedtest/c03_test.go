package speedtest

// C03 driver (extras/outbounds/speedtest): speed-test requests reaching the server and replies reaching a client.
// Request shapes (type byte x how much of the length field arrives x length x how much upload data follows) are
// played against the real server() over net.Pipe; response shapes against the client-side readers; a scripted
// malicious server answers Client.Download/Upload.  All calls run under recover() in goroutines the driver owns.

import (
	"bytes"
	"encoding/binary"
	"fmt"
	"io"
	"net"
	"testing"
	"time"

	kit "github.com/apernet/hysteria/extras/v2/internal/verifkit"
)

// run server(conn) under recover; returns a channel with (accepted, panic text)
type c03Res struct {
	ok bool
	p  string
}

func c03Serve(conn net.Conn) chan c03Res {
	ch := make(chan c03Res, 1)
	go func() {
		var err error
		p := kit.Catch(func() { err = server(conn) })
		ch <- c03Res{err == nil, p}
	}()
	return ch
}

func c03Len(l int) uint32 {
	if l == kit.Huge {
		return 0xffffffff
	}
	return uint32(l)
}

func c03SrvShape(tr *kit.Trace, s kit.Shape) {
	cli, srv := net.Pipe()
	_ = cli.SetDeadline(time.Now().Add(5 * time.Second))
	_ = srv.SetDeadline(time.Now().Add(5 * time.Second))
	done := c03Serve(srv)
	typ, lenb, l, sup := s.I("typ"), s.I("lenb"), c03Len(s.I("l")), s.S("sup")
	func() {
		defer cli.Close()
		if typ < 0 {
			return
		}
		req := []byte{byte(typ)}
		req = binary.BigEndian.AppendUint32(req, l)
		if _, err := cli.Write(req[:1+lenb]); err != nil || lenb < 4 || (typ != 1 && typ != 2) {
			return
		}
		resp := make([]byte, 5) // status, len(2), "OK"
		if _, err := io.ReadFull(cli, resp); err != nil {
			return
		}
		if typ == 1 {
			want := int64(l)
			if s.I("l") == kit.Huge {
				want = 300000 // then walk away
			}
			_, _ = io.CopyN(io.Discard, cli, want)
			if s.I("l") != kit.Huge {
				// the server returns after its last Write; wait for it so that closing does not race it
				_, _ = cli.Read(make([]byte, 1))
			}
			return
		}
		var n int64
		switch sup {
		case "none":
			if l > 0 {
				return
			}
		case "short":
			n = int64(l) - 1
			if s.I("l") == kit.Huge {
				n = 200000
			}
		default:
			n = int64(l)
		}
		chunk := make([]byte, 70000)
		for n > 0 {
			k := int64(len(chunk))
			if k > n {
				k = n
			}
			if _, err := cli.Write(chunk[:k]); err != nil {
				return
			}
			n -= k
		}
		if sup == "short" {
			return
		}
		sum := make([]byte, 8)
		_, _ = io.ReadFull(cli, sum)
		if sup == "more" {
			_, _ = cli.Write([]byte("trailing bytes nobody reads"))
		}
	}()
	res := <-done
	out := "reject"
	if res.p != "" {
		out = "panic"
	} else if res.ok {
		out = "accept"
	}
	tr.Ev(kit.E{"ev": "Dec", "dec": "speedsrv", "outcome": out, "expect": s.Expect,
		"what": fmt.Sprintf("typ=%d lenb=%d l=%d sup=%s", typ, lenb, l, sup), "msg": res.p})
}

func TestVerif_C03(t *testing.T) {
	tr := kit.Open("C03-speedtest")
	defer tr.Close()
	r := kit.Rand(40)
	tr.Reset(kit.E{"src": "shapes"})
	for _, s := range kit.LoadShapes("shapes", "speedsrv", "speedcli") {
		if s.Dec == "speedsrv" {
			t0 := time.Now()
			c03SrvShape(tr, s)
			if d := time.Since(t0); d > 500*time.Millisecond {
				t.Logf("slow server shape (%v): %v", d, s.Sh)
			}
			continue
		}
		var b []byte
		if st := s.I("status"); st >= 0 {
			b = append(b, byte(st))
			lb := binary.BigEndian.AppendUint16(nil, uint16(s.I("l")))
			b = append(b, lb[:s.I("lenb")]...)
			if s.I("lenb") == 2 {
				have := s.I("l")
				if s.S("have") == "short" {
					have--
				}
				b = append(b, kit.Fill(r, have)...)
			}
		}
		what := fmt.Sprintf("status=%d lenb=%d l=%d have=%s", s.I("status"), s.I("lenb"), s.I("l"), s.S("have"))
		tr.Dec("speedcli", s.Expect, what, func() bool { _, _, err := readDownloadResponse(bytes.NewReader(b)); return err == nil })
		tr.Dec("speedcli", s.Expect, what, func() bool { _, _, err := readUploadResponse(bytes.NewReader(b)); return err == nil })
	}
	for n := 0; n <= 9; n++ {
		b := kit.Fill(r, n)
		exp := "reject"
		if n >= 8 {
			exp = "accept"
		}
		tr.Dec("speedsum", exp, fmt.Sprintf("n=%d", n), func() bool { _, _, err := readUploadSummary(bytes.NewReader(b)); return err == nil })
		tr.Dec("speedreq", "any", fmt.Sprintf("n=%d", n), func() bool { _, err := readDownloadRequest(bytes.NewReader(b)); return err == nil })
	}

	// a malicious / broken server answering the real client
	tr.Reset(kit.E{"src": "client"})
	for i := 0; i < kit.Pick(60, 600); i++ {
		cli, srv := net.Pipe()
		_ = cli.SetDeadline(time.Now().Add(3 * time.Second))
		_ = srv.SetDeadline(time.Now().Add(3 * time.Second))
		script := [][]byte{{0, 0, 2, 'O', 'K'}, {1, 0, 3, 'n', 'o', '!'}, {0, 0xff, 0xff}, {7}, {}, {0, 0, 0}, kit.Fill(r, 1+r.Intn(12))}[r.Intn(7)]
		extra := []int{0, 1, 99, 100, 101, 70000}[r.Intn(6)]
		size := uint32([]int{0, 1, 100, 65536, 65537}[r.Intn(5)])
		upload := r.Intn(2) == 0
		summary := kit.Fill(r, []int{0, 7, 8, 9}[i%4])
		go func() {
			defer srv.Close()
			req := make([]byte, 5)
			if _, err := io.ReadFull(srv, req); err != nil {
				return
			}
			if _, err := srv.Write(script); err != nil {
				return
			}
			// from here on the scripted server never waits long for the client: a client that is blocked in the
			// other direction would otherwise hang until the pipe deadline (a hang is not what C03 is about)
			_ = srv.SetDeadline(time.Now().Add(60 * time.Millisecond))
			if upload {
				_, _ = io.CopyN(io.Discard, srv, int64(extra))
				_ = srv.SetDeadline(time.Now().Add(60 * time.Millisecond))
				_, _ = srv.Write(summary)
			} else {
				_, _ = srv.Write(make([]byte, extra))
			}
		}()
		c := &Client{Conn: cli}
		cb := func(time.Duration, uint64, bool) {}
		t0 := time.Now()
		tr.Dec("speedclient", "any", fmt.Sprintf("upload=%v size=%d extra=%d script=%d", upload, size, extra, len(script)), func() bool {
			if upload {
				return c.Upload(size, 0, cb) == nil
			}
			return c.Download(size, 0, cb) == nil
		})
		_ = cli.Close()
		if d := time.Since(t0); d > 500*time.Millisecond {
			t.Logf("slow client case %d (%v)", i, d)
		}
	}
	t.Logf("events=%d", tr.Count())
}
