package outbounds

// C08 end to end: real client -> real server; the server's Outbound is the real chain
//   PluggableOutboundAdapter -> system resolver -> ACL engine (text rules) -> recording "direct" outbound.
// One UDP session sends datagrams to many destinations (more than the server's per-session decision cache holds,
// with repeats); whatever the recording outbound is asked to send must be allowed by a predicate that the harness
// evaluates on its own (CIDR / exact address / port), not by the ACL code.

import (
	"encoding/binary"
	"fmt"
	"net"
	"sync"
	"testing"
	"testing/synctest"
	"time"

	"github.com/apernet/hysteria/core/v2/client"
	"github.com/apernet/hysteria/core/v2/server"
	kit "github.com/apernet/hysteria/extras/v2/internal/verifkit"
)

const c08Rules = `
reject(10.0.0.0/8)
reject(2001:db8::/32)
reject(192.0.2.7)
reject(all, udp/5353)
reject(198.51.100.0/24, udp/1000-2000)
direct(all)
`

func c08Allowed(host string, port int) bool {
	ip := net.ParseIP(host)
	_, n10, _ := net.ParseCIDR("10.0.0.0/8")
	_, n6, _ := net.ParseCIDR("2001:db8::/32")
	_, n198, _ := net.ParseCIDR("198.51.100.0/24")
	switch {
	case ip == nil:
		return true
	case n10.Contains(ip), n6.Contains(ip), ip.Equal(net.ParseIP("192.0.2.7")):
		return false
	case port == 5353:
		return false
	case n198.Contains(ip) && port >= 1000 && port <= 2000:
		return false
	}
	return true
}

type c08Direct struct {
	tr  *kit.Trace
	mu  sync.Mutex
	idx map[string]int
}

func (d *c08Direct) id(a *AddrEx) int {
	d.mu.Lock()
	defer d.mu.Unlock()
	return d.idx[a.String()]
}
func (d *c08Direct) TCP(reqAddr *AddrEx) (net.Conn, error) { return nil, fmt.Errorf("no tcp") }
func (d *c08Direct) UDP(reqAddr *AddrEx) (UDPConn, error) {
	d.tr.Ev(kit.E{"ev": "Dialed", "dst": d.id(reqAddr)})
	return &c08Conn{d: d, closed: make(chan struct{})}, nil
}
func (d *c08Direct) CheckUDP(reqAddr *AddrEx) error { return nil }

type c08Conn struct {
	d      *c08Direct
	closed chan struct{}
	once   sync.Once
}

func (c *c08Conn) ReadFrom(b []byte) (int, *AddrEx, error) { <-c.closed; return 0, nil, net.ErrClosed }
func (c *c08Conn) WriteTo(b []byte, addr *AddrEx) (int, error) {
	tag := -1
	if len(b) >= 4 {
		tag = int(binary.BigEndian.Uint32(b))
	}
	c.d.tr.Ev(kit.E{"ev": "Delivered", "dst": c.d.id(addr), "tag": tag})
	return len(b), nil
}
func (c *c08Conn) Close() error { c.once.Do(func() { close(c.closed) }); return nil }

func TestVerif_C08e(t *testing.T) {
	tr := kit.Open("C08e")
	defer tr.Close()
	for i := 0; i < kit.Pick(4, 30); i++ {
		seed := int64(800 + i)
		synctest.Test(t, func(t *testing.T) {
			r := kit.Rand(seed)
			w := e2eNewWorld(tr)
			tr.Reset(kit.E{"src": "acl-e2e"})
			direct := &c08Direct{tr: tr, idx: map[string]int{}}
			eng, err := NewACLEngineFromString(c08Rules, []OutboundEntry{{Name: "direct", Outbound: direct}}, nil)
			if err != nil {
				t.Fatal(err)
			}
			if err := w.startServer(&server.Config{Outbound: &PluggableOutboundAdapter{PluggableOutbound: NewSystemResolver(eng)}}); err != nil {
				t.Fatal(err)
			}
			c, _, err := w.newClient(1, &client.Config{Auth: e2eGood})
			if err != nil {
				t.Fatal(err)
			}
			// destination pool: several hundred, mixing allowed and rejected ones
			var dsts []string
			for k := 0; k < 330; k++ {
				var host string
				switch r.Intn(6) {
				case 0:
					host = fmt.Sprintf("10.%d.%d.%d", r.Intn(256), r.Intn(256), 1+r.Intn(254))
				case 1:
					host = fmt.Sprintf("2001:db8:%x::%x", r.Intn(65536), 1+r.Intn(65535))
				case 2:
					host = fmt.Sprintf("198.51.100.%d", 1+r.Intn(254))
				case 3:
					host = "192.0.2.7"
				default:
					host = fmt.Sprintf("203.0.%d.%d", r.Intn(256), 1+r.Intn(254))
				}
				port := []int{53, 443, 5353, 999, 1000, 1500, 2000, 2001}[r.Intn(8)]
				a := net.JoinHostPort(host, fmt.Sprint(port))
				if _, ok := direct.idx[a]; !ok {
					direct.mu.Lock()
					direct.idx[a] = len(direct.idx) + 1
					direct.mu.Unlock()
					dsts = append(dsts, a)
				}
			}
			nsess := 1 + r.Intn(2)
			tag := 0
			for sidx := 0; sidx < nsess; sidx++ {
				u, err := c.UDP()
				if err != nil {
					t.Fatal(err)
				}
				for k := 0; k < kit.Pick(700, 2500); k++ {
					a := dsts[r.Intn(len(dsts))]
					if r.Intn(3) == 0 {
						a = dsts[r.Intn(12)] // hot set: repeats, also after eviction from the 256-entry cache
					}
					host, ps, _ := net.SplitHostPort(a)
					var port int
					fmt.Sscan(ps, &port)
					tag++
					b := make([]byte, 8)
					binary.BigEndian.PutUint32(b, uint32(tag))
					tr.Ev(kit.E{"ev": "Sent", "dst": direct.idx[a], "tag": tag, "allowed": c08Allowed(host, port)})
					u.Send(b, a)
					if k%40 == 39 {
						time.Sleep(50 * time.Millisecond)
						synctest.Wait()
					}
				}
				time.Sleep(200 * time.Millisecond)
				synctest.Wait()
				u.Close()
			}
			c.Close()
			w.srv.Close()
			time.Sleep(5 * time.Second)
			synctest.Wait()
		})
	}
	t.Logf("events=%d", tr.Count())
}
