package outbounds

// C09 driver, engine level: the real NewACLEngineFromString with recording outbounds.
// Observed: which outbound receives the TCP/UDP/CheckUDP call (rule's outbound, default on no match,
// built-in reject) and the address it is handed (hijack rewriting).  The monitor (Prop_C09) computes the
// expected decision itself from the logged rule list.

import (
	"errors"
	"fmt"
	"net"
	"testing"

	kit "github.com/apernet/hysteria/extras/v2/internal/verifkit"
)

type c09Call struct {
	id   int
	op   string
	addr AddrEx
	ri   *ResolveInfo
}

type c09Out struct {
	id    int
	calls *[]c09Call
}

var errC09 = errors.New("c09 fake outbound")

func (o *c09Out) rec(op string, a *AddrEx) {
	c := c09Call{id: o.id, op: op, addr: *a}
	if a.ResolveInfo != nil {
		ri := *a.ResolveInfo
		c.ri = &ri
	}
	*o.calls = append(*o.calls, c)
}
func (o *c09Out) TCP(a *AddrEx) (net.Conn, error)  { o.rec("TCP", a); return nil, errC09 }
func (o *c09Out) UDP(a *AddrEx) (UDPConn, error)   { o.rec("UDP", a); return nil, errC09 }
func (o *c09Out) CheckUDP(a *AddrEx) error         { o.rec("CheckUDP", a); return errC09 }

func c09EngineScenario(t *testing.T, tr *kit.Trace, rules []kit.C09Rule, qs []kit.C09Query, nOut, salt int, namedDefault bool) {
	text := kit.C09Text(rules, salt)
	var calls []c09Call
	entries := []OutboundEntry{}
	for i := 1; i <= nOut; i++ {
		entries = append(entries, OutboundEntry{Name: kit.C09OutName(i), Outbound: &c09Out{i, &calls}})
	}
	// "direct" is overridden so that nothing ever dials; the default is the first entry unless one is named "default"
	entries = append(entries, OutboundEntry{Name: "direct", Outbound: &c09Out{98, &calls}})
	dflt := 1
	if namedDefault {
		entries = append(entries, OutboundEntry{Name: "Default", Outbound: &c09Out{97, &calls}})
		dflt = 97
	}
	tr.Reset(kit.E{"src": "engine"})
	eng, err := NewACLEngineFromString(text, entries, nil)
	if err != nil {
		tr.Ev(kit.E{"ev": "CompileFail", "msg": err.Error(), "text": text})
		return
	}
	tr.Ev(kit.C09RulesEvent(rules, dflt, aclCacheSize, text))
	for i, q := range qs {
		op := []string{"TCP", "UDP", "CheckUDP"}[i%3]
		if q.Proto == 1 {
			op = "TCP"
		} else if op == "TCP" {
			op = "UDP"
		}
		a := &AddrEx{Host: kit.C09Str(q.Host), Port: uint16(q.Port)}
		hasRI := len(q.V4) > 0 || len(q.V6) > 0 || i%4 == 0
		if hasRI {
			a.ResolveInfo = &ResolveInfo{IPv4: kit.C09IP(q.V4, i%2 == 0), IPv6: kit.C09IP(q.V6, false)}
		}
		calls = calls[:0]
		var cerr error
		p := kit.Catch(func() {
			switch op {
			case "TCP":
				_, cerr = eng.TCP(a)
			case "UDP":
				_, cerr = eng.UDP(a)
			default:
				cerr = eng.CheckUDP(a)
			}
		})
		if p != "" {
			tr.Ev(kit.E{"ev": "Panic", "what": "engine " + op, "msg": p})
			continue
		}
		e := kit.E{"ev": "Engine", "op": op, "host": q.Host, "v4": q.V4, "v6": q.V6, "hasRI": hasRI, "port": q.Port,
			"called": 0, "ncalls": len(calls), "opSame": true,
			"aHost": []int{}, "aIP": []int{}, "a4": []int{}, "a6": []int{}, "aPort": 0, "aHasRI": false}
		switch {
		case len(calls) == 0 && errors.Is(cerr, errRejected):
			e["called"] = 99 // the built-in reject outbound
		case len(calls) == 1:
			c := calls[0]
			e["called"], e["opSame"] = c.id, c.op == op
			e["aHost"], e["aPort"] = kit.C09Codes(c.addr.Host), int(c.addr.Port)
			e["aIP"] = kit.C09Octets(net.ParseIP(c.addr.Host))
			if c.ri != nil {
				e["aHasRI"], e["a4"], e["a6"] = true, kit.C09Octets(c.ri.IPv4), kit.C09Octets(c.ri.IPv6)
			}
		default:
			e["called"] = -len(calls) - 1 // no or several outbound calls
		}
		tr.Ev(e)
	}
}

type c09EScn struct {
	Rules []kit.C09Rule  `json:"rules"`
	Qs    []kit.C09Query `json:"qs"`
}

func TestVerif_C09Engine(t *testing.T) {
	tr := kit.Open("C09eng")
	defer tr.Close()
	// A: TLC behaviours
	var scns []c09EScn
	if kit.Scenarios("acl", &scns) {
		for i, s := range scns {
			if i%4 == 0 {
				c09EngineScenario(t, tr, s.Rules, s.Qs, 3, i, i%8 == 0)
			}
		}
	}
	// B: seeded random rule files (with reject rules, with and without a catch-all), queries repeated;
	// one scenario asks more distinct keys than the engine's cache (1024) holds and then re-asks them
	r := kit.Rand(19)
	files := kit.Pick(6, 30)
	for f := 0; f < files; f++ {
		nr := 10 + r.Intn(40)
		rules := make([]kit.C09Rule, nr)
		for i := range rules {
			rules[i] = kit.C09RandRule(r, 4, true)
			if f%2 == 0 && rules[i].Kind == "all" {
				rules[i].Kind, rules[i].IP = "ip", kit.C09V4Pool[i%len(kit.C09V4Pool)]
			}
		}
		nq := kit.Pick(200, 600)
		if f == 0 {
			nq = 2600
		}
		base := make([]kit.C09Query, 0, nq)
		for i := 0; i < nq; i++ {
			if f == 0 && i >= 1300 {
				base = append(base, base[i-1300]) // re-ask after > 1024 other distinct keys
				continue
			}
			q := kit.C09RandQuery(r, rules)
			if f == 0 {
				q.Port = 1 + (i*37)%60000 // distinct keys
			} else if len(base) > 0 && r.Intn(3) == 0 {
				q = base[r.Intn(len(base))]
			}
			base = append(base, q)
		}
		c09EngineScenario(t, tr, rules, base, 4, f, f%3 == 1)
	}
	t.Log(fmt.Sprintf("events=%d", tr.Count()))
}
