package sniff

// C03 driver (extras/sniff): the first bytes of a sniffed TCP or UDP flow.  Sniffer.UDP gets real Initials, the
// 10-byte short-header datagram of D2, truncations and seeded perturbations (cap == len); Sniffer.TCP gets the
// C17 tape generator's streams (any chunking, deadline, FIN) plus perturbed ClientHello records.  Judged on panic.
// (uses the helpers of c17_test.go, which is compiled into the same test binary)

import (
	"fmt"
	"testing"

	kit "github.com/apernet/hysteria/extras/v2/internal/verifkit"
)

func TestVerif_C03(t *testing.T) {
	tr := kit.Open("C03-z-sniff")
	defer tr.Close()
	c17InitHellos()
	r := kit.Rand(37)

	tr.Reset(kit.E{"src": "udp"})
	udp := func(b []byte, what string) {
		b = kit.Exact(b)
		addr := "8.8.8.8:443"
		sn := &Sniffer{}
		tr.Dec("sniffudp", "any", what, func() bool { return sn.UDP(b, &addr) == nil })
	}
	udp([]byte{0x40, 0, 0, 0, 1, 0, 0, 0, 1, 0xaa}, "D2 40 00000001 00 00 00 01 xx")
	udp([]byte{0x50, 0x6b, 0x33, 0x43, 0xcf, 0, 0, 0, 1, 0xaa}, "D2 v2 form")
	for n := 0; n < 40; n++ {
		b := make([]byte, n)
		if n > 0 {
			b[0] = 0x40
		}
		if n > 4 {
			b[4] = 1
		}
		if n > 8 {
			b[8] = byte(n - 9) // Length = everything that follows
		}
		udp(b, fmt.Sprintf("short-header form n=%d", n))
	}
	var corpus [][]byte
	for i := 0; i < kit.Pick(200, 2000); i++ {
		pkt, _, what := c17Initial(r, c17QHellos[r.Intn(len(c17QHellos))])
		udp(pkt, what)
		if len(corpus) < 300 {
			corpus = append(corpus, pkt)
		}
		udp(pkt[:r.Intn(len(pkt))], what+" cut")
	}
	for i := 0; i < kit.Pick(3000, 40000); i++ {
		b := kit.Perturb(r, corpus[r.Intn(len(corpus))])
		if r.Intn(2) == 0 {
			b = kit.Perturb(r, b[:min(len(b), 10+r.Intn(60))])
		}
		udp(b, "perturbed")
	}

	tr.Reset(kit.E{"src": "tcp"})
	for i := 0; i < kit.Pick(1500, 15000); i++ {
		run := c17RandomRun(r)
		if r.Intn(3) == 0 {
			run.p.data = kit.Perturb(r, run.p.data)
			if n := len(run.p.data); n > 0 {
				run.bounds, run.avail = []int{n}, n
			} else {
				run.bounds, run.avail = nil, 0
			}
		}
		st := &c17Stream{tape: run.p.data, bounds: run.bounds, avail: run.avail, end: run.end}
		addr := "8.8.4.4:443"
		sn := &Sniffer{}
		tr.Dec("snifftcp", "any", fmt.Sprintf("%s len=%d end=%s", run.p.kind, len(run.p.data), run.end), func() bool {
			_, err := sn.TCP(st, &addr)
			return err == nil
		})
	}
	t.Logf("events=%d", tr.Count())
}
