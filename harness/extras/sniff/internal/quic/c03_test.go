package quic

// C03 driver (extras/sniff/internal/quic): every header / length shape of Sys_Shapes is concretised to a datagram
// whose capacity equals its length and fed to ReadCryptoPayload (ParseInitialHeader + UnProtect + frame
// parsing) under recover(); CRYPTO frame layouts go to extractCryptoFrames/assembleCryptoFrames directly and,
// encrypted by the harness-side RFC 9001 encryptor, through ReadCryptoPayload; plus prefixes and perturbations.

import (
	"bytes"
	"encoding/binary"
	"fmt"
	"testing"

	kit "github.com/apernet/hysteria/extras/v2/internal/verifkit"
)

const c03MaxVarint = 1<<62 - 1

func c03Ver(s string) uint32 {
	switch s {
	case "v1":
		return V1
	case "v2":
		return V2
	case "zero":
		return 0
	}
	return 0xfaceb00c
}

// C03QuicPacket builds the datagram of a "quic" shape.
func c03QuicPacket(s kit.Shape, salt int) []byte {
	r := kit.Rand(int64(salt))
	fb, ver := s.I("fb"), c03Ver(s.S("ver"))
	dcid, scid := kit.Fill(r, s.I("dcil")), kit.Fill(r, s.I("scil"))
	initial := (fb>>4)&3 == 0
	if ver == V2 {
		initial = (fb>>4)&3 == 1
	}
	plen, body := s.I("plen"), s.I("body")
	if s.B("aead") {
		pnLen, payload := 1, []byte{0x06, 0x00, 0x01, 0x01}
		if plen == 40 {
			pnLen, payload = 4, append([]byte{0x06, 0x00, 0x10}, append(kit.Fill(r, 16), 0)...)
		}
		sp := kit.QUICInitialSpec{Version: ver, DCID: dcid, SCID: scid, PN: uint32(r.Intn(3)), PNLen: pnLen, Payload: payload,
			FirstByte: fb, NoToken: !initial, LenBytes: 1, Trailer: kit.Fill(r, body-plen)}
		if initial && s.I("tokl") == 1 {
			sp.Token = kit.Fill(r, 1)
		}
		pkt, _ := kit.QUICInitial(sp)
		return kit.Exact(pkt)
	}
	var b []byte
	b = append(b, byte(fb)|byte(r.Intn(4)))
	b = binary.BigEndian.AppendUint32(b, ver)
	tr := s.S("trunc")
	cut := func(field string, keep int) bool { // packet ends inside `field`
		if tr == field {
			b = b[:len(b)-keep]
			return true
		}
		return false
	}
	if tr == "fb" {
		return kit.Exact(b[:0])
	}
	if cut("ver", 1+r.Intn(4)) {
		return kit.Exact(b)
	}
	if tr == "dcil" {
		return kit.Exact(b)
	}
	b = append(b, byte(len(dcid)))
	b = append(b, dcid...)
	if tr == "dcid" {
		return kit.Exact(b[:len(b)-1-r.Intn(len(dcid))]) // at least one byte missing, possibly all
	}
	if tr == "scil" {
		return kit.Exact(b)
	}
	b = append(b, byte(len(scid)))
	b = append(b, scid...)
	if tr == "scid" {
		b = append(b[:len(b)-1], 200) // declares 200 bytes, none follow
		return kit.Exact(b)
	}
	if initial {
		if tr == "tok" {
			return kit.Exact(append(b, 0x40)) // truncated token-length varint
		}
		tokl := s.I("tokl")
		b = append(b, kit.QUICVarint(kit.Wide(tokl, c03MaxVarint))...)
		if tokl == 1 {
			b = append(b, kit.Fill(r, 1)...)
		}
	} else if tr == "tok" {
		return kit.Exact(b)
	}
	if tr == "len" {
		if r.Intn(2) == 0 {
			return kit.Exact(b)
		}
		return kit.Exact(append(b, 0x80, 0x01)) // truncated 4-byte varint
	}
	b = append(b, kit.QUICVarint(kit.Wide(plen, c03MaxVarint))...)
	b = append(b, kit.Fill(r, body)...)
	return kit.Exact(b)
}

func c03FrameBytes(r interface{ Intn(int) int }, f kit.Shape, fill func(int) []byte) []byte {
	switch f.S("t") {
	case "none":
		return nil
	case "pad":
		return []byte{0x00}
	case "ping":
		return []byte{0x01}
	case "other":
		return []byte{0x1c, 0x00}
	case "tvar":
		return []byte{0x40}
	}
	dl := f.I("dl")
	b := []byte{0x06}
	b = append(b, kit.QUICVarint(kit.Wide(f.I("off"), c03MaxVarint))...)
	b = append(b, kit.QUICVarint(kit.Wide(dl, c03MaxVarint))...)
	have := dl
	if f.S("have") == "short" {
		if dl == kit.Huge || dl > 300000 {
			have = 50
		} else {
			have = dl - 1
		}
	}
	return append(b, fill(have)...)
}

func TestVerif_C03(t *testing.T) {
	tr := kit.Open("C03-y-quic")
	defer tr.Close()
	r := kit.Rand(36)
	var corpus [][]byte
	tr.Reset(kit.E{"src": "shapes"})
	for i, s := range kit.LoadShapes("shapes", "quic", "cframes") {
		switch s.Dec {
		case "quic":
			pkt := c03QuicPacket(s, i)
			if len(corpus) < 4000 {
				corpus = append(corpus, pkt)
			}
			tr.Dec("quic", s.Expect, fmt.Sprintf("fb=%#x ver=%s trunc=%s n=%d", s.I("fb"), s.S("ver"), s.S("trunc"), len(pkt)), func() bool {
				pl, err := ReadCryptoPayload(pkt)
				return err == nil && pl != nil
			})
			tr.Dec("quichdr", "any", "header only", func() bool { _, _, err := ParseInitialHeader(pkt); return err == nil })
		case "cframes":
			fill := func(n int) []byte { return make([]byte, n) }
			pl := append(c03FrameBytes(r, s.Sub("f1"), fill), c03FrameBytes(r, s.Sub("f2"), fill)...)
			pl = kit.Exact(pl)
			what := fmt.Sprintf("%s/%s len=%d", s.Sub("f1").S("t"), s.Sub("f2").S("t"), len(pl))
			tr.Dec("cframes", s.Expect, what, func() bool {
				frs, err := extractCryptoFrames(bytes.NewReader(pl))
				if err != nil {
					return false
				}
				return assembleCryptoFrames(frs) != nil
			})
			// the same layout inside a protected Initial (skip the 256 KiB ones in the quick tier)
			if len(pl) < 5000 || kit.Thorough() {
				lb := 2
				if len(pl)+20 > 16383 {
					lb = 4
				}
				pkt, _ := kit.QUICInitial(kit.QUICInitialSpec{Version: []uint32{V1, V2}[i%2], DCID: kit.Fill(r, 8), PN: 1, PNLen: 1 + i%4, Payload: pl, LenBytes: lb})
				tr.Dec("cframes-pkt", s.Expect, what, func() bool {
					d, err := ReadCryptoPayload(pkt)
					return err == nil && d != nil
				})
			}
		}
	}
	// the reproducer of D2 as written in the property: 10 bytes, short header form, passes ParseInitialHeader
	tr.Reset(kit.E{"src": "vectors"})
	d2 := kit.Exact([]byte{0x40, 0, 0, 0, 1, 0, 0, 0, 1, 0xaa})
	tr.Dec("quic", "any", "D2 40 00000001 00 00 00 01 xx", func() bool { _, err := ReadCryptoPayload(d2); return err == nil })
	corpus = append(corpus, d2)
	// prefixes of a real Initial
	hello := kit.QUICClientHello("c03.example.org")
	real, _ := kit.QUICInitial(kit.QUICInitialSpec{Version: V1, DCID: kit.Fill(r, 8), SCID: kit.Fill(r, 5), Token: kit.Fill(r, 9), PN: 0, PNLen: 2,
		Payload: append(kit.QUICCryptoFrame(0, hello), make([]byte, 30)...)})
	tr.Dec("quic", "accept", "real initial", func() bool { d, err := ReadCryptoPayload(kit.Exact(real)); return err == nil && bytes.Equal(d, hello) })
	for n := 0; n < len(real); n += 1 + n/64 {
		b := kit.Exact(real[:n])
		tr.Dec("quic", "any", "prefix", func() bool { _, err := ReadCryptoPayload(b); return err == nil })
	}
	corpus = append(corpus, real)
	tr.Reset(kit.E{"src": "perturb"})
	for i := 0; i < kit.Pick(4000, 60000); i++ {
		b := kit.Perturb(r, corpus[r.Intn(len(corpus))])
		if r.Intn(3) == 0 {
			b = kit.Perturb(r, b)
		}
		tr.Dec("quic", "any", "perturbed", func() bool { _, err := ReadCryptoPayload(b); return err == nil })
	}
	t.Logf("events=%d", tr.Count())
}
