package sniff

// C17 end to end: real client -> real server (RequestHook = the real Sniffer) -> fake targets, in a bubble.
// The target must read exactly what the client wrote (TCP, whatever the chunking and delays), the first UDP datagram
// must arrive unmodified, and the dialled address may differ from the requested one only in the host, which must be
// the Host header / SNI actually present in the bytes.

import (
	"bytes"
	"errors"
	"fmt"
	"io"
	"net"
	"strings"
	"sync"
	"testing"
	"testing/synctest"
	"time"

	"github.com/apernet/hysteria/core/v2/client"
	"github.com/apernet/hysteria/core/v2/server"
	kit "github.com/apernet/hysteria/extras/v2/internal/verifkit"
)

type c17Out struct {
	mu    sync.Mutex
	tr    *kit.Trace
	addrs []string
	fars  []*kit.PipeConn
	udp   [][]byte
	uaddr []string
}

func (o *c17Out) TCP(reqAddr string) (net.Conn, error) {
	a, b := kit.NewPipe()
	o.mu.Lock()
	o.addrs = append(o.addrs, reqAddr)
	o.fars = append(o.fars, b)
	o.mu.Unlock()
	return a, nil
}

type c17UDP struct {
	o      *c17Out
	closed chan struct{}
	once   sync.Once
}

func (u *c17UDP) ReadFrom(b []byte) (int, string, error) { <-u.closed; return 0, "", net.ErrClosed }
func (u *c17UDP) WriteTo(b []byte, addr string) (int, error) {
	u.o.mu.Lock()
	u.o.udp = append(u.o.udp, append([]byte(nil), b...))
	u.o.mu.Unlock()
	return len(b), nil
}
func (u *c17UDP) Close() error { u.once.Do(func() { close(u.closed) }); return nil }
func (o *c17Out) UDP(reqAddr string) (server.UDPConn, error) {
	o.mu.Lock()
	o.uaddr = append(o.uaddr, reqAddr)
	o.mu.Unlock()
	return &c17UDP{o: o, closed: make(chan struct{})}, nil
}
func (o *c17Out) CheckUDP(reqAddr string) error { return nil }

func c17Split(addr string) (string, string) {
	h, p, err := net.SplitHostPort(addr)
	if err != nil {
		return addr, "?"
	}
	return h, p
}

func TestVerif_C17e(t *testing.T) {
	tr := kit.Open("C17e")
	defer tr.Close()
	r := kit.Rand(171)
	hosts := []string{"example.com", "a.b.test", "xn--bcher-kva.example", "h", "very-long-host-name-0123456789.internal.example.org"}
	for i := 0; i < kit.Pick(40, 400); i++ {
		host := hosts[r.Intn(len(hosts))]
		kind := []string{"http", "tls", "garbage", "short", "quic", "quicjunk"}[r.Intn(6)]
		port := []string{"80", "443", "8080"}[r.Intn(3)]
		reqAddr := "203.0.113.7:" + port
		var payload []byte
		inBytes := "203.0.113.7"
		switch kind {
		case "http":
			payload = []byte("GET /x HTTP/1.1\r\nHost: " + host + "\r\nUser-Agent: v\r\n\r\n" + strings.Repeat("B", r.Intn(5000)))
			inBytes = host
		case "tls":
			payload = append(kit.TLSClientHelloRecord(host, 0x0304), bytes.Repeat([]byte{0x17}, r.Intn(300))...)
			inBytes = host
		case "garbage":
			payload = bytes.Repeat([]byte{0x00, 0xff, 0x7f}, 1+r.Intn(400))
		case "short":
			payload = []byte{'G', 'E'}[:1+r.Intn(2)]
		case "quic":
			ch := kit.QUICClientHello(host)
			frames := kit.QUICCryptoFrame(0, ch)
			for len(frames) < 1162 {
				frames = append(frames, 0) // PADDING
			}
			payload, _ = kit.QUICInitial(kit.QUICInitialSpec{Version: 1, DCID: []byte{1, 2, 3, 4, 5, 6, 7, 8}, SCID: []byte{9, 9}, PN: uint32(r.Intn(1000)), PNLen: 1 + r.Intn(4), Payload: frames})
			inBytes = host
		case "quicjunk":
			payload = append([]byte{0xc3, 0, 0, 0, 1}, bytes.Repeat([]byte{9}, 30+r.Intn(1100))...)
		}
		isUDP := kind == "quic" || kind == "quicjunk"
		func() {
			defer func() {
				if x := recover(); x != nil {
					tr.Ev(kit.E{"ev": "BubbleLeak", "msg": fmt.Sprint(x)})
				}
			}()
			synctest.Test(t, func(t *testing.T) {
				w := e2eNewWorld(tr)
				tr.Reset(kit.E{"kind": kind, "host": host, "port": port})
				out := &c17Out{tr: tr}
				if err := w.startServer(&server.Config{Outbound: out, RequestHook: &Sniffer{Timeout: 4 * time.Second, RewriteDomain: r.Intn(2) == 0}}); err != nil {
					t.Fatal(err)
				}
				c, _, err := w.newClient(1, &client.Config{Auth: e2eGood, FastOpen: r.Intn(2) == 0})
				if err != nil {
					t.Fatal(err)
				}
				if !isUDP {
					conn, err := c.TCP(reqAddr)
					if err != nil {
						t.Fatalf("tcp: %v", err)
					}
					// write in chunks, sometimes with pauses (shorter and longer than the sniffer's deadline)
					off := 0
					for off < len(payload) {
						n := 1 + r.Intn(len(payload)-off)
						if r.Intn(3) == 0 && n > 3 {
							n = 1 + r.Intn(3)
						}
						conn.Write(payload[off : off+n])
						off += n
						if r.Intn(4) == 0 {
							time.Sleep([]time.Duration{10 * time.Millisecond, time.Second, 5 * time.Second}[r.Intn(3)])
						}
					}
					time.Sleep(6 * time.Second) // the sniffer has given up or finished; everything is relayed
					synctest.Wait()
					conn.Close()
					time.Sleep(time.Second)
					synctest.Wait()
					out.mu.Lock()
					var got []byte
					addr := ""
					if len(out.fars) > 0 {
						addr = out.addrs[0]
						far := out.fars[0]
						out.mu.Unlock()
						far.SetReadDeadline(time.Now().Add(time.Second))
						got, _ = io.ReadAll(far)
					} else {
						out.mu.Unlock()
					}
					hb, pb := c17Split(reqAddr)
					ha, pa := c17Split(addr)
					tr.Ev(kit.E{"ev": "TCPFlow", "sent": len(payload), "got": len(got), "same": bytes.Equal(got, payload), "portBefore": pb, "portAfter": pa,
						"hostBefore": hb, "hostAfter": ha, "hostInBytes": inBytes})
				} else {
					u, err := c.UDP()
					if err != nil {
						t.Fatalf("udp: %v", err)
					}
					u.Send(payload, reqAddr)
					time.Sleep(time.Second)
					synctest.Wait()
					out.mu.Lock()
					var got []byte
					addr := ""
					if len(out.udp) > 0 {
						got, addr = out.udp[0], out.uaddr[0]
					}
					out.mu.Unlock()
					hb, pb := c17Split(reqAddr)
					ha, pa := c17Split(addr)
					tr.Ev(kit.E{"ev": "UDPFlow", "same": bytes.Equal(got, payload), "portBefore": pb, "portAfter": pa, "hostBefore": hb, "hostAfter": ha, "hostInBytes": inBytes})
					u.Close()
				}
				c.Close()
				out.mu.Lock()
				for _, f := range out.fars {
					f.Close()
				}
				out.mu.Unlock()
				w.srv.Close()
				time.Sleep(5 * time.Second)
				synctest.Wait()
			})
		}()
	}
	_ = errors.New
	t.Logf("events=%d", tr.Count())
}
