package obfs

// C03 driver (extras/obfs): obfuscated or chunked transport packets.  Salamander shapes (packet length x caller
// buffer) go through obfsPacketConn.ReadFrom over a scripted inner conn; Gecko frame-header shapes go to
// decodeFrame and through geckoPacketConn.ReadFrom; TLC-generated and seeded chunk sequences (several sources,
// message ids, inconsistent totals, duplicates, the per-source and global caps) hit one long-lived reassembly
// table; everything under recover(), and a well-formed message must still reassemble afterwards (Probe).

import (
	"bytes"
	"errors"
	"fmt"
	"net"
	"testing"
	"time"

	kit "github.com/apernet/hysteria/extras/v2/internal/verifkit"
)

type c03Pkt struct {
	b    []byte
	from net.Addr
}

// scripted inner PacketConn: hands out the queued packets, then an error
type c03Inner struct{ q []c03Pkt }

var errC03Dry = errors.New("c03: script exhausted")

func (c *c03Inner) ReadFrom(p []byte) (int, net.Addr, error) {
	if len(c.q) == 0 {
		return 0, nil, errC03Dry
	}
	x := c.q[0]
	c.q = c.q[1:]
	return copy(p, x.b), x.from, nil
}
func (c *c03Inner) WriteTo(p []byte, a net.Addr) (int, error) { return len(p), nil }
func (c *c03Inner) Close() error                              { return nil }
func (c *c03Inner) LocalAddr() net.Addr                       { return &net.UDPAddr{IP: net.IPv4(127, 0, 0, 1), Port: 1} }
func (c *c03Inner) SetDeadline(time.Time) error               { return nil }
func (c *c03Inner) SetReadDeadline(time.Time) error           { return nil }
func (c *c03Inner) SetWriteDeadline(time.Time) error          { return nil }

func c03Addr(i int) net.Addr {
	return &net.UDPAddr{IP: net.IPv4(10, byte(i>>16), byte(i>>8), byte(i)), Port: 4000 + i%1000}
}

func c03GeckoFrame(flag bool, id, idx, tot, pad, n int, fill []byte) []byte {
	b := make([]byte, 0, n)
	fb := byte(0x80)
	if !flag {
		fb = 0x40
	}
	b = append(b, fb, byte(id), byte(idx<<4|tot&0x0f), byte(pad>>8), byte(pad))
	for len(b) < n {
		b = append(b, fill[len(b)%len(fill)])
	}
	return kit.Exact(b[:n])
}

func c03ValidChunk(id, idx, tot int, payload []byte) []byte {
	b := []byte{0x80, byte(id), byte(idx<<4 | tot), 0, 2, 0xee, 0xee}
	return append(b, payload...)
}

func TestVerif_C03(t *testing.T) {
	tr := kit.Open("C03-obfs")
	defer tr.Close()
	r := kit.Rand(38)
	psk := []byte("verif-psk-0123")

	tr.Reset(kit.E{"src": "shapes"})
	ob, err := newSalamanderObfuscator(psk)
	if err != nil {
		t.Fatal(err)
	}
	for _, s := range kit.LoadShapes("shapes", "salamander", "gecko") {
		switch s.Dec {
		case "salamander":
			n, out := s.I("n"), s.I("out")
			inner := &c03Inner{q: []c03Pkt{{kit.Fill(r, n), c03Addr(1)}}}
			pc := wrapPacketConn(inner, ob)
			p := make([]byte, out)
			tr.Dec("salamander", s.Expect, fmt.Sprintf("n=%d out=%d", n, out), func() bool {
				k, _, err := pc.ReadFrom(p)
				return err == nil && k > 0
			})
			in := kit.Exact(kit.Fill(r, n))
			tr.Dec("salamander", s.Expect, "Deobfuscate", func() bool { return ob.Deobfuscate(in, p) > 0 })
		case "gecko":
			fr := c03GeckoFrame(s.B("flag"), 1, s.I("idx"), s.I("tot"), s.I("pad"), s.I("n"), []byte{0xab})
			tr.Dec("gecko", s.Expect, fmt.Sprintf("n=%d tot=%d idx=%d pad=%d", s.I("n"), s.I("tot"), s.I("idx"), s.I("pad")), func() bool {
				_, _, err := decodeFrame(fr)
				return err == nil
			})
			g := newGeckoPacketConn(&c03Inner{q: []c03Pkt{{fr, c03Addr(2)}}}, 512, 1200)
			tr.Dec("geckoread", "any", "ReadFrom", func() bool {
				_, _, err := g.ReadFrom(make([]byte, 2048))
				return err == nil
			})
			_ = g.Close()
		}
	}

	probe := func(g *geckoPacketConn, inner *c03Inner, src int) {
		ok := false
		p := kit.Catch(func() {
			inner.q = []c03Pkt{{c03ValidChunk(250, 1, 2, []byte("world")), c03Addr(src)}, {c03ValidChunk(250, 0, 2, []byte("hello ")), c03Addr(src)}}
			buf := make([]byte, 2048)
			n, _, err := g.ReadFrom(buf)
			ok = err == nil && bytes.Equal(buf[:n], []byte("hello world"))
		})
		if p != "" {
			tr.Ev(kit.E{"ev": "Panic", "what": "gecko probe", "msg": p})
			return
		}
		tr.Probe("geckochunk", ok)
	}

	// TLC chunk sequences into one reassembly table
	for _, s := range kit.LoadShapes("shapeseq", "geckoseq") {
		tr.Reset(kit.E{"src": "tlc-seq"})
		inner := &c03Inner{}
		g := newGeckoPacketConn(inner, 512, 1200)
		for _, st := range s.Steps {
			src := 1
			if kit.StepS(st, "src") == "b" {
				src = 2
			}
			fr := c03ValidChunk(kit.StepI(st, "id"), kit.StepI(st, "idx"), kit.StepI(st, "tot"), []byte{byte(kit.StepI(st, "idx"))})
			inner.q = []c03Pkt{{fr, c03Addr(src)}}
			tr.Dec("geckochunk", kit.StepS(st, "expect"), fmt.Sprintf("src=%d id=%d idx=%d tot=%d", src, kit.StepI(st, "id"), kit.StepI(st, "idx"), kit.StepI(st, "tot")), func() bool {
				_, _, err := g.ReadFrom(make([]byte, 64))
				return err == nil
			})
		}
		probe(g, inner, 3)
		_ = g.Close()
	}

	// seeded floods: arbitrary frames from many sources (per-source cap 8, global cap 4096 with eviction)
	for round := 0; round < kit.Pick(4, 30); round++ {
		tr.Reset(kit.E{"src": "flood"})
		inner := &c03Inner{}
		g := newGeckoPacketConn(inner, 512, 1200)
		nsrc := []int{1, 3, 600, 5000}[round%4]
		steps := kit.Pick(3000, 12000)
		if nsrc >= 600 {
			steps = kit.Pick(9000, 40000)
		}
		for k := 0; k < steps; k++ {
			var fr []byte
			if r.Intn(4) == 0 {
				fr = c03GeckoFrame(r.Intn(8) != 0, r.Intn(256), r.Intn(16), r.Intn(16), []int{0, 1, 3, 40, 65535, r.Intn(65536)}[r.Intn(6)], 1+r.Intn(60), kit.Fill(r, 7))
			} else {
				tot := 2 + r.Intn(7)
				fr = c03ValidChunk(r.Intn(12), r.Intn(tot), tot, kit.Fill(r, r.Intn(30)))
			}
			inner.q = []c03Pkt{{fr, c03Addr(r.Intn(nsrc))}}
			tr.Dec("geckochunk", "any", "flood", func() bool {
				_, _, err := g.ReadFrom(make([]byte, 2048))
				return err == nil
			})
		}
		probe(g, inner, 9000000)
		_ = g.Close()
	}

	// the full stack (Gecko over Salamander) with perturbed wire packets
	tr.Reset(kit.E{"src": "stack"})
	inner := &c03Inner{}
	full, err := WrapPacketConnGecko(inner, GeckoOptions{Password: psk})
	if err != nil {
		t.Fatal(err)
	}
	wire := func(plain []byte) []byte {
		out := make([]byte, len(plain)+smSaltLen)
		n := ob.Obfuscate(plain, out)
		return out[:n]
	}
	for i := 0; i < kit.Pick(3000, 40000); i++ {
		tot := 2 + r.Intn(7)
		w := wire(c03ValidChunk(r.Intn(6), r.Intn(tot), tot, kit.Fill(r, r.Intn(40))))
		if r.Intn(2) == 0 {
			w = kit.Perturb(r, w)
		}
		inner.q = []c03Pkt{{w, c03Addr(r.Intn(5))}}
		tr.Dec("geckostack", "any", "wire", func() bool {
			_, _, err := full.ReadFrom(make([]byte, []int{0, 1, 64, 2048}[r.Intn(4)]))
			return err == nil
		})
	}
	_ = full.Close()
	t.Logf("events=%d", tr.Count())
}
