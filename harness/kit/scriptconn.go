package verifkit

import (
	"bytes"
	"io"
	"net"
	"sync"
	"time"
)

// ScriptConn is the server side of an in-memory connection whose client has already decided what it
// will send and in which pieces: every Read returns (part of) the next scripted chunk, an empty chunk
// is a zero-length read (0, nil), and after the last chunk the client has closed its sending side
// (io.EOF).  Reads never block, so a handler driven by a ScriptConn runs to completion synchronously.
// Whatever the server writes is collected.  Used by C18.
type ScriptConn struct {
	ID      int
	mu      sync.Mutex
	chunks  [][]byte
	cur     []byte
	closed  bool
	nclose  int
	wr      bytes.Buffer
	Local   net.Addr
	Remote  net.Addr
	OnClose func(id int) // called once, on the first Close
}

// NewScriptConn: the remote address carries the id (port 10000+id) so that wrappers which only embed
// net.Conn still let a harness recognise the connection.
func NewScriptConn(id int, chunks [][]byte) *ScriptConn {
	cp := make([][]byte, len(chunks))
	for i, c := range chunks {
		cp[i] = append([]byte(nil), c...)
	}
	return &ScriptConn{ID: id, chunks: cp,
		Local:  &net.TCPAddr{IP: net.IPv4(127, 0, 0, 1), Port: 1080},
		Remote: &net.TCPAddr{IP: net.IPv4(127, 0, 0, 1), Port: 10000 + id}}
}

func (c *ScriptConn) Read(b []byte) (int, error) {
	c.mu.Lock()
	defer c.mu.Unlock()
	if c.closed {
		return 0, net.ErrClosed
	}
	if len(b) == 0 {
		return 0, nil
	}
	if len(c.cur) == 0 {
		if len(c.chunks) == 0 {
			return 0, io.EOF
		}
		c.cur = c.chunks[0]
		c.chunks = c.chunks[1:]
		if len(c.cur) == 0 {
			return 0, nil // a zero-length read
		}
	}
	n := copy(b, c.cur)
	c.cur = c.cur[n:]
	return n, nil
}

func (c *ScriptConn) Write(b []byte) (int, error) {
	c.mu.Lock()
	defer c.mu.Unlock()
	if c.closed {
		return 0, net.ErrClosed
	}
	c.wr.Write(b)
	return len(b), nil
}

func (c *ScriptConn) Close() error {
	c.mu.Lock()
	first := !c.closed
	c.closed = true
	c.nclose++
	f := c.OnClose
	c.mu.Unlock()
	if first && f != nil {
		f(c.ID)
	}
	return nil
}

func (c *ScriptConn) Closed() bool { c.mu.Lock(); defer c.mu.Unlock(); return c.closed }
func (c *ScriptConn) Written() []byte {
	c.mu.Lock()
	defer c.mu.Unlock()
	return append([]byte(nil), c.wr.Bytes()...)
}

// Unread reports how many scripted bytes were never read by the server.
func (c *ScriptConn) Unread() int {
	c.mu.Lock()
	defer c.mu.Unlock()
	n := len(c.cur)
	for _, ch := range c.chunks {
		n += len(ch)
	}
	return n
}

func (c *ScriptConn) LocalAddr() net.Addr                { return c.Local }
func (c *ScriptConn) RemoteAddr() net.Addr               { return c.Remote }
func (c *ScriptConn) SetDeadline(t time.Time) error      { return nil }
func (c *ScriptConn) SetReadDeadline(t time.Time) error  { return nil }
func (c *ScriptConn) SetWriteDeadline(t time.Time) error { return nil }

// ScriptConnID recovers the id from a (possibly wrapped) ScriptConn through its remote address.
func ScriptConnID(c net.Conn) int {
	if a, ok := c.RemoteAddr().(*net.TCPAddr); ok && a.Port >= 10000 {
		return a.Port - 10000
	}
	return 0
}

// Chunkings returns a few ways of cutting data into reads: whole, byte by byte, and n seeded random
// cuttings with zero-length reads sprinkled in.
func Chunkings(data []byte, r interface{ Intn(int) int }, n int) [][][]byte {
	out := [][][]byte{{data}}
	one := [][]byte{}
	for i := range data {
		one = append(one, data[i:i+1])
	}
	out = append(out, one)
	for k := 0; k < n; k++ {
		var cs [][]byte
		for i := 0; i < len(data); {
			if r.Intn(4) == 0 {
				cs = append(cs, []byte{})
			}
			l := 1 + r.Intn(7)
			if r.Intn(5) == 0 {
				l = 1 + r.Intn(64)
			}
			if i+l > len(data) {
				l = len(data) - i
			}
			cs = append(cs, data[i:i+l])
			i += l
		}
		if r.Intn(3) == 0 {
			cs = append(cs, []byte{})
		}
		out = append(out, cs)
	}
	return out
}
