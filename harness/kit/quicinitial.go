package verifkit

// Harness-side construction of real TLS ClientHello records and protected QUIC
// Initial packets (RFC 9001 / RFC 9369), independent of the code under test
// (stdlib only: HKDF is written over crypto/hmac).  Used by C17 and C03.

import (
	"context"
	"crypto/aes"
	"crypto/cipher"
	"crypto/hmac"
	"crypto/sha256"
	"crypto/tls"
	"encoding/binary"
	"io"
	"net"
	"time"
)

const (
	QUICv1 uint32 = 0x1
	QUICv2 uint32 = 0x6b3343cf
)

var (
	quicSaltV1 = []byte{0x38, 0x76, 0x2c, 0xf7, 0xf5, 0x59, 0x34, 0xb3, 0x4d, 0x17, 0x9a, 0xe6, 0xa4, 0xc8, 0x0c, 0xad, 0xcc, 0xbb, 0x7f, 0x0a}
	quicSaltV2 = []byte{0x0d, 0xed, 0xe3, 0xde, 0xf7, 0x00, 0xa6, 0xdb, 0x81, 0x93, 0x81, 0xbe, 0x6e, 0x26, 0x9d, 0xcb, 0xf9, 0xbd, 0x2e, 0xd9}
)

func hkdfExtract(salt, ikm []byte) []byte {
	m := hmac.New(sha256.New, salt)
	m.Write(ikm)
	return m.Sum(nil)
}

func hkdfExpand(prk, info []byte, n int) []byte {
	var out, t []byte
	for i := byte(1); len(out) < n; i++ {
		m := hmac.New(sha256.New, prk)
		m.Write(t)
		m.Write(info)
		m.Write([]byte{i})
		t = m.Sum(nil)
		out = append(out, t...)
	}
	return out[:n]
}

func hkdfExpandLabel(secret []byte, label string, n int) []byte {
	full := "tls13 " + label
	info := []byte{byte(n >> 8), byte(n), byte(len(full))}
	info = append(info, full...)
	info = append(info, 0)
	return hkdfExpand(secret, info, n)
}

// QUICVarint encodes n in the shortest RFC 9000 variable-length form.
func QUICVarint(n uint64) []byte {
	switch {
	case n < 1<<6:
		return []byte{byte(n)}
	case n < 1<<14:
		return []byte{0x40 | byte(n>>8), byte(n)}
	case n < 1<<30:
		return []byte{0x80 | byte(n>>24), byte(n >> 16), byte(n >> 8), byte(n)}
	}
	b := make([]byte, 8)
	binary.BigEndian.PutUint64(b, n)
	b[0] |= 0xc0
	return b
}

// QUICVarintN encodes n in exactly size bytes (1, 2, 4 or 8); n must fit.
func QUICVarintN(n uint64, size int) []byte {
	b := make([]byte, 8)
	binary.BigEndian.PutUint64(b, n)
	b = b[8-size:]
	switch size {
	case 2:
		b[0] |= 0x40
	case 4:
		b[0] |= 0x80
	case 8:
		b[0] |= 0xc0
	}
	return b
}

// QUICCryptoFrame is one CRYPTO frame (type 0x06).
func QUICCryptoFrame(off uint64, data []byte) []byte {
	b := []byte{0x06}
	b = append(b, QUICVarint(off)...)
	b = append(b, QUICVarint(uint64(len(data)))...)
	return append(b, data...)
}

// QUICInitialSpec describes an Initial packet before protection.
type QUICInitialSpec struct {
	Version   uint32
	DCID      []byte
	SCID      []byte
	Token     []byte
	PN        uint32
	PNLen     int    // 1..4
	Payload   []byte // plaintext frames
	FirstByte int    // 0: the version's Initial type byte; otherwise the unprotected first byte (low 2 bits are overwritten with PNLen-1)
	LenDelta  int    // added to the Length field (a lying header)
	Trailer   []byte // bytes after the packet (coalesced packet / junk)
	NoToken   bool   // leave out the token length/token fields (non-Initial long-header types)
	LenBytes  int    // size of the Length varint (0 = 2)
}

// QUICInitial builds a header- and payload-protected Initial packet.
// It also returns the offset of the packet number.
func QUICInitial(s QUICInitialSpec) (pkt []byte, pnOff int) {
	if s.PNLen < 1 || s.PNLen > 4 {
		s.PNLen = 4
	}
	salt, keyL, ivL, hpL, typ := quicSaltV1, "quic key", "quic iv", "quic hp", byte(0xc0)
	if s.Version == QUICv2 {
		salt, keyL, ivL, hpL, typ = quicSaltV2, "quicv2 key", "quicv2 iv", "quicv2 hp", byte(0xd0)
	}
	if s.FirstByte != 0 {
		typ = byte(s.FirstByte) &^ 0x03
	}
	initial := hkdfExtract(salt, s.DCID)
	client := hkdfExpandLabel(initial, "client in", 32)
	key := hkdfExpandLabel(client, keyL, 16)
	iv := hkdfExpandLabel(client, ivL, 12)
	hp := hkdfExpandLabel(client, hpL, 16)

	hdr := []byte{typ | byte(s.PNLen-1)}
	hdr = binary.BigEndian.AppendUint32(hdr, s.Version)
	hdr = append(hdr, byte(len(s.DCID)))
	hdr = append(hdr, s.DCID...)
	hdr = append(hdr, byte(len(s.SCID)))
	hdr = append(hdr, s.SCID...)
	if !s.NoToken {
		hdr = append(hdr, QUICVarint(uint64(len(s.Token)))...)
		hdr = append(hdr, s.Token...)
	}
	length := s.PNLen + len(s.Payload) + 16 + s.LenDelta
	if length < 0 {
		length = 0
	}
	if s.LenBytes == 0 {
		s.LenBytes = 2
	}
	hdr = append(hdr, QUICVarintN(uint64(length), s.LenBytes)...)
	pnOff = len(hdr)
	pnb := make([]byte, 4)
	binary.BigEndian.PutUint32(pnb, s.PN)
	hdr = append(hdr, pnb[4-s.PNLen:]...)

	blk, _ := aes.NewCipher(key)
	aead, _ := cipher.NewGCM(blk)
	nonce := make([]byte, 12)
	binary.BigEndian.PutUint64(nonce[4:], uint64(s.PN))
	for i := range nonce {
		nonce[i] ^= iv[i]
	}
	ct := aead.Seal(nil, nonce, s.Payload, hdr)
	pkt = append(append([]byte{}, hdr...), ct...)
	// header protection: sample starts 4 bytes after the start of the packet number
	if len(pkt) >= pnOff+4+16 {
		hpb, _ := aes.NewCipher(hp)
		mask := make([]byte, 16)
		hpb.Encrypt(mask, pkt[pnOff+4:pnOff+20])
		if pkt[0]&0x80 != 0 {
			pkt[0] ^= mask[0] & 0x0f
		} else {
			pkt[0] ^= mask[0] & 0x1f
		}
		for i := 0; i < s.PNLen; i++ {
			pkt[pnOff+i] ^= mask[1+i]
		}
	}
	pkt = append(pkt, s.Trailer...)
	return pkt[:len(pkt):len(pkt)], pnOff
}

// TLSClientHelloRecord returns the first TLS record (5-byte header + ClientHello) that
// crypto/tls sends for the given server name ("" = no SNI extension).
func TLSClientHelloRecord(sni string, maxVer uint16) []byte {
	c, s := net.Pipe()
	defer c.Close()
	defer s.Close()
	cfg := &tls.Config{ServerName: sni, InsecureSkipVerify: true, MaxVersion: maxVer}
	go func() {
		cl := tls.Client(c, cfg)
		cl.SetDeadline(time.Now().Add(5 * time.Second))
		_ = cl.Handshake()
	}()
	s.SetDeadline(time.Now().Add(5 * time.Second))
	hdr := make([]byte, 5)
	if _, err := io.ReadFull(s, hdr); err != nil {
		panic("kit: no client hello: " + err.Error())
	}
	body := make([]byte, int(hdr[3])<<8|int(hdr[4]))
	if _, err := io.ReadFull(s, body); err != nil {
		panic("kit: short client hello: " + err.Error())
	}
	return append(hdr, body...)
}

// QUICClientHello returns the ClientHello handshake message crypto/tls produces for a QUIC
// connection to sni (the bytes that travel in the Initial packet's CRYPTO frames).
func QUICClientHello(sni string) []byte {
	cfg := &tls.Config{ServerName: sni, InsecureSkipVerify: true, MinVersion: tls.VersionTLS13, NextProtos: []string{"h3"}}
	q := tls.QUICClient(&tls.QUICConfig{TLSConfig: cfg})
	defer q.Close()
	q.SetTransportParameters([]byte{0x01, 0x02, 0x47, 0xd0, 0x04, 0x04, 0x80, 0x10, 0x00, 0x00})
	if err := q.Start(context.Background()); err != nil {
		panic("kit: quic client start: " + err.Error())
	}
	var out []byte
	for {
		e := q.NextEvent()
		switch e.Kind {
		case tls.QUICNoEvent:
			if out == nil {
				panic("kit: no quic client hello")
			}
			return out
		case tls.QUICWriteData:
			if e.Level == tls.QUICEncryptionLevelInitial {
				out = append(out, e.Data...)
			}
		}
	}
}
