package verifkit

// Support for the C03 drivers: shape scenarios written by TLC (Sys_Shapes), decoder
// calls under recover() logged as Dec events, byte-level perturbations.

import (
	"fmt"
	"math/rand"
)

// Huge is the marker Sys_Shapes uses for "largest encodable value".
const Huge = 2147483647

// Shape is one scenario of Sys_Shapes: a decoder shape or a sequence for a stateful receiver.
type Shape struct {
	Dec    string           `json:"dec"`
	Sh     map[string]any   `json:"sh"`
	Expect string           `json:"expect"`
	Steps  []map[string]any `json:"steps"`
}

// LoadShapes returns the scenarios of file scn-<name>.json whose dec is one of decs.
func LoadShapes(name string, decs ...string) []Shape {
	var all []Shape
	if !Scenarios(name, &all) {
		return nil
	}
	var out []Shape
	for _, s := range all {
		for _, d := range decs {
			if s.Dec == d {
				out = append(out, s)
			}
		}
	}
	return out
}

func anyInt(v any) int {
	switch x := v.(type) {
	case float64:
		return int(x)
	case int:
		return x
	}
	panic(fmt.Sprintf("kit: not a number: %v", v))
}

func (s Shape) I(k string) int     { return anyInt(s.Sh[k]) }
func (s Shape) S(k string) string  { return s.Sh[k].(string) }
func (s Shape) B(k string) bool    { return s.Sh[k].(bool) }
func (s Shape) Sub(k string) Shape { return Shape{Dec: s.Dec, Sh: s.Sh[k].(map[string]any)} }

// StepI / StepS read a field of a sequence step.
func StepI(m map[string]any, k string) int    { return anyInt(m[k]) }
func StepS(m map[string]any, k string) string { return m[k].(string) }

// Wide maps the Huge marker to the real maximum of the field.
func Wide(v int, max uint64) uint64 {
	if v == Huge {
		return max
	}
	return uint64(v)
}

// Dec runs one decoder call under recover() and logs the Dec event.
// f reports whether the input was accepted.
func (t *Trace) Dec(dec, expect, what string, f func() bool) (outcome string) {
	acc := false
	p := Catch(func() { acc = f() })
	switch {
	case p != "":
		outcome = "panic"
	case acc:
		outcome = "accept"
	default:
		outcome = "reject"
	}
	if len(p) > 200 {
		p = p[:200]
	}
	t.Ev(E{"ev": "Dec", "dec": dec, "outcome": outcome, "expect": expect, "what": what, "msg": p})
	return outcome
}

// Probe logs the service-continues observation.
func (t *Trace) Probe(dec string, ok bool) {
	t.Ev(E{"ev": "Probe", "dec": dec, "ok": ok})
}

// Exact returns a copy of b whose capacity equals its length.
func Exact(b []byte) []byte {
	c := make([]byte, len(b))
	copy(c, b)
	return c[:len(c):len(c)]
}

// Fill returns n pseudo-random non-zero bytes.
func Fill(r *rand.Rand, n int) []byte {
	if n < 0 {
		n = 0
	}
	b := make([]byte, n)
	for i := range b {
		b[i] = byte(1 + r.Intn(255))
	}
	return b
}

// Perturb returns a mutated copy of b: bit flip, truncation, extension, splice, field maximisation.
func Perturb(r *rand.Rand, b []byte) []byte {
	c := append([]byte{}, b...)
	switch r.Intn(7) {
	case 0:
		if len(c) > 0 {
			c[r.Intn(len(c))] ^= 1 << uint(r.Intn(8))
		}
	case 1:
		if len(c) > 0 {
			c = c[:r.Intn(len(c))]
		}
	case 2:
		c = append(c, Fill(r, 1+r.Intn(40))...)
	case 3:
		if len(c) > 1 {
			i := r.Intn(len(c))
			c = append(c[:i], c[i+r.Intn(len(c)-i):]...)
		}
	case 4:
		if len(c) > 0 {
			c[r.Intn(len(c))] = 0xff
		}
	case 5:
		if len(c) > 0 {
			c[r.Intn(len(c))] = 0x00
		}
	default:
		for k := 0; k < 3 && len(c) > 0; k++ {
			c[r.Intn(len(c))] = byte(r.Intn(256))
		}
	}
	return Exact(c)
}
