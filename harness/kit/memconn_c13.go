package verifkit

// MemConn: an in-memory net.PacketConn used as the *inner* socket under the
// obfs wrappers (C13, C14).  Datagrams to be received are queued with Inject;
// datagrams written are handed to OnWrite (a copy, taken inside the call).
// OnRead runs inside ReadFrom while the queue lock is held, so the order of
// the events it logs is the order in which datagrams were handed out.

import (
	"net"
	"os"
	"runtime"
	"sync"
	"time"
)

// MemAddr is a net.Addr that carries a harness tag through the code under test.
type MemAddr struct {
	Tag  int
	Name string
}

func (a MemAddr) Network() string { return "mem" }
func (a MemAddr) String() string  { return a.Name }

type memDgram struct {
	b    []byte
	addr net.Addr
	tag  int
}

type MemConn struct {
	mu     sync.Mutex
	cond   *sync.Cond
	q      []memDgram
	closed bool

	// NonBlocking: an empty queue makes ReadFrom return a timeout error instead of blocking.
	NonBlocking bool
	// Yield: number of runtime.Gosched() calls made inside WriteTo before the buffer is
	// copied and inside ReadFrom after the caller's buffer was filled (widens race windows).
	Yield   int
	OnWrite func(b []byte, addr net.Addr)
	OnRead  func(tag int, n int)
	// FailWrite, when set, is asked before every WriteTo; a non-nil error is returned to the caller
	// and the datagram is not sent (a transient send error such as ENOBUFS).
	FailWrite func(b []byte, addr net.Addr) error
}

func NewMemConn() *MemConn {
	c := &MemConn{}
	c.cond = sync.NewCond(&c.mu)
	return c
}

// Inject queues one datagram for ReadFrom.
func (c *MemConn) Inject(b []byte, addr net.Addr, tag int) {
	cp := append([]byte(nil), b...)
	c.mu.Lock()
	c.q = append(c.q, memDgram{cp, addr, tag})
	c.mu.Unlock()
	c.cond.Signal()
}

func (c *MemConn) Pending() int { c.mu.Lock(); defer c.mu.Unlock(); return len(c.q) }

func (c *MemConn) ReadFrom(p []byte) (int, net.Addr, error) {
	c.mu.Lock()
	for len(c.q) == 0 {
		if c.closed {
			c.mu.Unlock()
			return 0, nil, net.ErrClosed
		}
		if c.NonBlocking {
			c.mu.Unlock()
			return 0, nil, os.ErrDeadlineExceeded
		}
		c.cond.Wait()
	}
	d := c.q[0]
	c.q = c.q[1:]
	n := copy(p, d.b)
	if c.OnRead != nil {
		c.OnRead(d.tag, n)
	}
	c.mu.Unlock()
	for i := 0; i < c.Yield; i++ {
		runtime.Gosched()
	}
	return n, d.addr, nil
}

func (c *MemConn) WriteTo(p []byte, addr net.Addr) (int, error) {
	for i := 0; i < c.Yield; i++ {
		runtime.Gosched()
	}
	c.mu.Lock()
	closed := c.closed
	c.mu.Unlock()
	if closed {
		return 0, net.ErrClosed
	}
	if c.FailWrite != nil {
		if err := c.FailWrite(p, addr); err != nil {
			return 0, err
		}
	}
	cp := append([]byte(nil), p...)
	if c.OnWrite != nil {
		c.OnWrite(cp, addr)
	}
	return len(p), nil
}

func (c *MemConn) Close() error {
	c.mu.Lock()
	c.closed = true
	c.mu.Unlock()
	c.cond.Broadcast()
	return nil
}

func (c *MemConn) LocalAddr() net.Addr                { return MemAddr{0, "mem-local"} }
func (c *MemConn) SetDeadline(t time.Time) error      { return nil }
func (c *MemConn) SetReadDeadline(t time.Time) error  { return nil }
func (c *MemConn) SetWriteDeadline(t time.Time) error { return nil }
