package verifkit

// C09 support: structured ACL rules / queries shared by the drivers of packages
// extras/outbounds/acl and extras/outbounds.  A rule is kept in the structured form that is
// logged for the monitor (Prop_C09 evaluates First(rules, query) itself) and rendered to ACL
// text for the real parser/compiler.  stdlib only.

import (
	"fmt"
	"math/rand"
	"net"
	"strings"
)

// C09Rule mirrors the record of the Rules event (and of the TLC scenarios).
type C09Rule struct {
	Kind  string `json:"kind"` // exact | suffix | wild | ip | cidr | all
	Pat   []int  `json:"pat"`  // host pattern as written (ASCII codes), without the "suffix:" prefix
	IP    []int  `json:"ip"`   // 4 or 16 octets (ip, cidr)
	Bits  int    `json:"bits"`
	Proto int    `json:"proto"` // 0 both, 1 tcp, 2 udp
	Lo    int    `json:"lo"`    // 0: any port
	Hi    int    `json:"hi"`
	Out   int    `json:"out"` // outbound id (>= 1)
	Hij   []int  `json:"hij"` // hijack address octets or empty
}

// C09Query mirrors the query part of the Match / Engine events.
type C09Query struct {
	Host  []int `json:"host"`
	V4    []int `json:"v4"`
	V6    []int `json:"v6"`
	Proto int   `json:"proto"`
	Port  int   `json:"port"`
}

func C09Str(a []int) string {
	b := make([]byte, len(a))
	for i, x := range a {
		b[i] = byte(x)
	}
	return string(b)
}

func C09Codes(s string) []int { return Ints([]byte(s)) }

// C09IP turns octets into a net.IP (nil for none).  v4 addresses are produced in the 4-byte or the
// 16-byte representation depending on `long` (both occur in the code base; they must be equivalent).
func C09IP(o []int, long bool) net.IP {
	if len(o) == 0 {
		return nil
	}
	b := make(net.IP, len(o))
	for i, x := range o {
		b[i] = byte(x)
	}
	if len(b) == 4 && long {
		return b.To16()
	}
	return b
}

// C09Octets is the inverse: 4 octets for an IPv4 address (in either representation), 16 otherwise.
func C09Octets(ip net.IP) []int {
	if ip == nil {
		return []int{}
	}
	if v4 := ip.To4(); v4 != nil {
		return Ints(v4)
	}
	return Ints(ip.To16())
}

// C09OutName is the outbound name of an id as used in the rule text (the map handed to Compile has
// the lower-case form; 99 is the engine's built-in "reject").
func C09OutName(id int) string {
	if id == 99 {
		return "reject"
	}
	return fmt.Sprintf("ob%d", id)
}

// Render writes one rule as a line of ACL text; `style` varies the spelling (case, spaces,
// equivalent forms) without changing the meaning.
func (r C09Rule) Render(style int) string {
	var addr string
	switch r.Kind {
	case "exact", "wild":
		addr = C09Str(r.Pat)
	case "suffix":
		addr = []string{"suffix:", "SUFFIX:", "Suffix:"}[style%3] + C09Str(r.Pat)
	case "ip":
		addr = C09IP(r.IP, false).String()
	case "cidr":
		addr = fmt.Sprintf("%s/%d", C09IP(r.IP, false).String(), r.Bits)
	case "all":
		addr = []string{"all", "*", "ALL"}[style%3]
	}
	pp := ""
	proto := []string{"*", "tcp", "udp"}[r.Proto]
	if style%2 == 1 {
		proto = strings.ToUpper(proto)
	}
	switch {
	case r.Lo == 0 && r.Proto == 0:
		pp = []string{"", "*", "*/*"}[style%3]
	case r.Lo == 0:
		pp = []string{proto, proto + "/*"}[style%2]
	case r.Lo == r.Hi && style%3 != 2:
		pp = fmt.Sprintf("%s/%d", proto, r.Lo)
	default:
		pp = fmt.Sprintf("%s/%d-%d", proto, r.Lo, r.Hi)
	}
	name := C09OutName(r.Out)
	if style%4 == 3 {
		name = strings.ToUpper(name[:1]) + name[1:]
	}
	sp := []string{"", " "}[style%2]
	switch {
	case len(r.Hij) > 0:
		if pp == "" {
			pp = "*"
		}
		return fmt.Sprintf("%s(%s,%s%s,%s%s)", name, addr, sp, pp, sp, C09IP(r.Hij, false).String())
	case pp != "":
		return fmt.Sprintf("%s(%s,%s%s)", name, addr, sp, pp)
	}
	return fmt.Sprintf("%s%s(%s)", name, sp, addr)
}

// C09Text renders a rule list as an ACL file (with comments and blank lines in between).
func C09Text(rules []C09Rule, salt int) string {
	var sb strings.Builder
	sb.WriteString("# generated\n\n")
	for i, r := range rules {
		sb.WriteString(r.Render(i + salt))
		if (i+salt)%5 == 0 {
			sb.WriteString("  # comment")
		}
		sb.WriteString("\n")
		if (i+salt)%7 == 0 {
			sb.WriteString("\n")
		}
	}
	return sb.String()
}

// ---- seeded random rule files and query streams ------------------------------------

var c09Labels = []string{"a", "b", "c", "ab", "ba", "aa", "abc", "bc", "x1", "a-b"}
var c09TLDs = []string{"com", "net", "b", "co"}
var C09V4Pool = [][]int{{1, 1, 1, 1}, {1, 1, 1, 0}, {1, 1, 1, 2}, {1, 1, 0, 1}, {10, 0, 0, 1}, {10, 1, 2, 3}, {10, 255, 255, 255}, {11, 0, 0, 0},
	{192, 168, 1, 1}, {192, 168, 1, 129}, {192, 168, 2, 1}, {8, 8, 8, 8}, {127, 0, 0, 1}, {255, 255, 255, 255}, {0, 0, 0, 0}, {9, 9, 9, 9}}
var C09V6Pool = [][]int{
	{0x20, 0x01, 0x0d, 0xb8, 0, 0, 0, 0, 0, 0, 0, 0, 0, 0, 0, 1},
	{0x20, 0x01, 0x0d, 0xb8, 0, 0, 0, 0, 0, 0, 0, 0, 0, 0, 0, 2},
	{0x20, 0x01, 0x0d, 0xb9, 0, 0, 0, 0, 0, 0, 0, 0, 0, 0, 0, 1},
	{0x20, 0x01, 0x0d, 0xb8, 0x80, 0, 0, 0, 0, 0, 0, 0, 0, 0, 0, 1},
	{0xfe, 0x80, 0, 0, 0, 0, 0, 0, 0, 0, 0, 0, 0, 0, 0, 1},
	{0xfd, 0, 0, 0, 0, 0, 0, 0, 0, 0, 0, 0, 0, 0xab, 0xcd, 0xef},
	{0, 0, 0, 0, 0, 0, 0, 0, 0, 0, 0, 0, 0, 0, 0, 1},
	{0x26, 0x06, 0x47, 0, 0, 0, 0, 0, 0, 0, 0, 0, 0, 0, 0x11, 0x11},
}
var c09Ports = []int{1, 52, 53, 54, 79, 80, 81, 443, 444, 8080, 65534, 65535}

func c09Name(r *rand.Rand) string {
	n := 1 + r.Intn(3)
	ls := make([]string, 0, n+1)
	for i := 0; i < n; i++ {
		ls = append(ls, c09Labels[r.Intn(len(c09Labels))])
	}
	if r.Intn(4) != 0 {
		ls = append(ls, c09TLDs[r.Intn(len(c09TLDs))])
	}
	return strings.Join(ls, ".")
}

// spelling variation that must not matter: upper case letters, one trailing dot
func c09Spell(r *rand.Rand, s string) string {
	b := []byte(s)
	for i := range b {
		if b[i] >= 'a' && b[i] <= 'z' && r.Intn(5) == 0 {
			b[i] -= 32
		}
	}
	if r.Intn(5) == 0 {
		b = append(b, '.')
	}
	return string(b)
}

// C09RandRule draws one rule. Patterns are ASCII host patterns the grammar accepts; rule ports are >= 1.
func C09RandRule(r *rand.Rand, nOut int, withReject bool) C09Rule {
	ru := C09Rule{Pat: []int{}, IP: []int{}, Hij: []int{}}
	switch k := r.Intn(20); {
	case k < 4:
		ru.Kind, ru.Pat = "exact", C09Codes(c09Spell(r, c09Name(r)))
	case k < 8:
		ru.Kind = "suffix"
		n := c09Name(r)
		if r.Intn(2) == 0 { // a bare last label / tld
			p := strings.Split(n, ".")
			n = p[len(p)-1]
		}
		ru.Pat = C09Codes(c09Spell(r, n))
	case k < 12:
		ru.Kind = "wild"
		n := c09Name(r)
		switch r.Intn(5) {
		case 0:
			n = "*." + n
		case 1:
			n = n + ".*"
		case 2:
			i := r.Intn(len(n) + 1)
			n = n[:i] + "*" + n[i:]
		case 3:
			i := r.Intn(len(n) + 1)
			j := r.Intn(len(n) + 1)
			if i > j {
				i, j = j, i
			}
			n = n[:i] + "*" + n[i:j] + "*" + n[j:]
		default:
			n = "*" + n[r.Intn(len(n)):]
		}
		ru.Pat = C09Codes(c09Spell(r, n))
	case k < 14:
		ru.Kind, ru.IP = "ip", C09V4Pool[r.Intn(len(C09V4Pool))]
	case k < 15:
		ru.Kind, ru.IP = "ip", C09V6Pool[r.Intn(len(C09V6Pool))]
	case k < 17:
		ru.Kind, ru.IP = "cidr", C09V4Pool[r.Intn(len(C09V4Pool))]
		ru.Bits = []int{0, 1, 7, 8, 9, 15, 16, 23, 24, 25, 30, 31, 32}[r.Intn(13)]
	case k < 18:
		ru.Kind, ru.IP = "cidr", C09V6Pool[r.Intn(len(C09V6Pool))]
		ru.Bits = []int{0, 8, 31, 32, 33, 48, 64, 65, 127, 128}[r.Intn(10)]
	default:
		ru.Kind = "all"
	}
	ru.Proto = r.Intn(3)
	switch r.Intn(4) {
	case 0: // any port
	case 1:
		ru.Lo = c09Ports[r.Intn(len(c09Ports))]
		ru.Hi = ru.Lo
	default:
		a, b := c09Ports[r.Intn(len(c09Ports))], c09Ports[r.Intn(len(c09Ports))]
		if a > b {
			a, b = b, a
		}
		ru.Lo, ru.Hi = a, b
	}
	ru.Out = 1 + r.Intn(nOut)
	if withReject && r.Intn(8) == 0 {
		ru.Out = 99
	}
	if ru.Out != 99 && r.Intn(4) == 0 {
		if r.Intn(3) == 0 {
			ru.Hij = C09V6Pool[r.Intn(len(C09V6Pool))]
		} else {
			ru.Hij = C09V4Pool[r.Intn(len(C09V4Pool))]
		}
	}
	return ru
}

// C09RandQuery draws a query that has a fair chance of hitting the rules' patterns, ports and addresses.
func C09RandQuery(r *rand.Rand, rules []C09Rule) C09Query {
	q := C09Query{Host: []int{}, V4: []int{}, V6: []int{}, Proto: 1 + r.Intn(2)}
	name := c09Name(r)
	if len(rules) > 0 && r.Intn(3) == 0 {
		// derive the name from a rule's pattern: the pattern itself, with a label in front, glued without a dot, stars filled in
		ru := rules[r.Intn(len(rules))]
		if len(ru.Pat) > 0 {
			p := strings.TrimRight(strings.ToLower(C09Str(ru.Pat)), ".")
			p = strings.ReplaceAll(p, "*", []string{"", "a", "a.b", ".", "xx"}[r.Intn(5)])
			switch r.Intn(4) {
			case 0:
				name = p
			case 1:
				name = c09Labels[r.Intn(len(c09Labels))] + "." + p
			case 2:
				name = c09Labels[r.Intn(len(c09Labels))] + p
			default:
				name = p + "." + c09TLDs[r.Intn(len(c09TLDs))]
			}
		}
	}
	if name != "" {
		q.Host = C09Codes(c09Spell(r, name))
	}
	if r.Intn(3) != 0 {
		q.V4 = C09V4Pool[r.Intn(len(C09V4Pool))]
	}
	if r.Intn(3) == 0 {
		q.V6 = C09V6Pool[r.Intn(len(C09V6Pool))]
	}
	q.Port = c09Ports[r.Intn(len(c09Ports))]
	switch r.Intn(6) {
	case 0:
		q.Port += 1 - 2*r.Intn(2)
	case 1:
		q.Port = r.Intn(65536)
	}
	if q.Port > 65535 {
		q.Port = 65535
	}
	if q.Port < 0 {
		q.Port = 0
	}
	return q
}

// C09RulesEvent is the Rules event of a scenario.
func C09RulesEvent(rules []C09Rule, dflt, cache int, text string) E {
	return E{"ev": "Rules", "rules": rules, "dflt": dflt, "cache": cache, "lines": strings.Count(text, "\n")}
}
