package verifkit

// A buffered in-memory TCP-like connection pair (half-close aware), usable inside synctest bubbles.

import (
	"io"
	"net"
	"os"
	"strconv"
	"sync"
	"time"
)

// U64 renders a uint64 for a trace: an int when TLC can hold it (< 2^31), else a decimal string.
func U64(v uint64) any {
	if v < 1<<31 {
		return int(v)
	}
	return strconv.FormatUint(v, 10)
}

type pipeHalf struct {
	mu     sync.Mutex
	buf    []byte
	wake   chan struct{} // closed+replaced on every state change
	wclose bool          // writer closed: reader gets EOF after draining
	rclose bool          // reader closed: writer gets an error
}

func newHalf() *pipeHalf { return &pipeHalf{wake: make(chan struct{})} }

func (h *pipeHalf) signal() {
	close(h.wake)
	h.wake = make(chan struct{})
}

type PipeConn struct {
	rd, wr *pipeHalf
	name   string
	mu     sync.Mutex
	rdl    time.Time
	closed bool
	// OnRead / OnWrite observe completed operations (after the fact, outside locks)
	OnWrite func(b []byte)
	// EOFWithData: Read returns io.EOF together with the last bytes once the writer has closed (legal for an io.Reader)
	EOFWithData bool
}

// NewPipe returns two connected ends.
func NewPipe() (*PipeConn, *PipeConn) {
	a, b := newHalf(), newHalf()
	return &PipeConn{rd: a, wr: b, name: "a"}, &PipeConn{rd: b, wr: a, name: "b"}
}

func (c *PipeConn) Read(p []byte) (int, error) {
	for {
		c.mu.Lock()
		dl := c.rdl
		c.mu.Unlock()
		h := c.rd
		h.mu.Lock()
		if h.rclose {
			h.mu.Unlock()
			return 0, net.ErrClosed
		}
		if len(h.buf) > 0 {
			n := copy(p, h.buf)
			h.buf = h.buf[n:]
			h.signal()
			// like a QUIC stream whose FIN came with the last frame: the final bytes and io.EOF in one call
			eof := c.EOFWithData && h.wclose && len(h.buf) == 0
			h.mu.Unlock()
			if eof {
				return n, io.EOF
			}
			return n, nil
		}
		if h.wclose {
			h.mu.Unlock()
			return 0, io.EOF
		}
		wake := h.wake
		h.mu.Unlock()
		if dl.IsZero() {
			<-wake
			continue
		}
		d := time.Until(dl)
		if d <= 0 {
			return 0, os.ErrDeadlineExceeded
		}
		t := time.NewTimer(d)
		select {
		case <-wake:
			t.Stop()
		case <-t.C:
			return 0, os.ErrDeadlineExceeded
		}
	}
}

const pipeCap = 256 << 10

func (c *PipeConn) Write(p []byte) (int, error) {
	h := c.wr
	total := 0
	for len(p) > 0 {
		h.mu.Lock()
		if h.wclose {
			h.mu.Unlock()
			return total, net.ErrClosed
		}
		if h.rclose {
			h.mu.Unlock()
			return total, io.ErrClosedPipe
		}
		room := pipeCap - len(h.buf)
		if room <= 0 {
			wake := h.wake
			h.mu.Unlock()
			<-wake
			continue
		}
		n := len(p)
		if n > room {
			n = room
		}
		h.buf = append(h.buf, p[:n]...)
		h.signal()
		h.mu.Unlock()
		if c.OnWrite != nil {
			c.OnWrite(p[:n])
		}
		p = p[n:]
		total += n
	}
	return total, nil
}

// CloseWrite half-closes: the peer reads EOF after the buffered data.
func (c *PipeConn) CloseWrite() error {
	h := c.wr
	h.mu.Lock()
	h.wclose = true
	h.signal()
	h.mu.Unlock()
	return nil
}

func (c *PipeConn) Close() error {
	c.mu.Lock()
	c.closed = true
	c.mu.Unlock()
	c.CloseWrite()
	h := c.rd
	h.mu.Lock()
	h.rclose = true
	h.signal()
	h.mu.Unlock()
	return nil
}

func (c *PipeConn) IsClosed() bool { c.mu.Lock(); defer c.mu.Unlock(); return c.closed }

type pipeAddr string

func (a pipeAddr) Network() string { return "mem" }
func (a pipeAddr) String() string  { return string(a) }

func (c *PipeConn) LocalAddr() net.Addr  { return pipeAddr("pipe-" + c.name) }
func (c *PipeConn) RemoteAddr() net.Addr { return pipeAddr("pipe-peer-" + c.name) }
func (c *PipeConn) SetDeadline(t time.Time) error { return c.SetReadDeadline(t) }
func (c *PipeConn) SetReadDeadline(t time.Time) error {
	c.mu.Lock()
	c.rdl = t
	c.mu.Unlock()
	h := c.rd
	h.mu.Lock()
	h.signal()
	h.mu.Unlock()
	return nil
}
func (c *PipeConn) SetWriteDeadline(t time.Time) error { return nil }
