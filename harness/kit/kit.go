// Package verifkit is the harness-side support library of /verif.
// It is injected into the module under test with `go test -overlay`
// (as <module>/internal/verifkit); nothing of it lives in /repo.
package verifkit

import (
	"bufio"
	"encoding/json"
	"fmt"
	"math/rand"
	"os"
	"path/filepath"
	"strconv"
	"sync"
)

// E is one trace event. Field "ev" names it; scn and seq are added by the writer.
type E map[string]any

// Trace is an ndjson trace writer. Events are numbered under its mutex, so the
// order of the file is the order in which the fakes/drivers observed things.
type Trace struct {
	mu  sync.Mutex
	f   *os.File
	w   *bufio.Writer
	scn int
	seq int
	n   int
}

func OutDir() string {
	d := os.Getenv("VERIF_OUT")
	if d == "" {
		d = os.TempDir()
	}
	return d
}

// Open creates $VERIF_OUT/trace-<name>.ndjson.
func Open(name string) *Trace {
	p := filepath.Join(OutDir(), "trace-"+name+".ndjson")
	f, err := os.Create(p)
	if err != nil {
		panic(err)
	}
	return &Trace{f: f, w: bufio.NewWriterSize(f, 1<<20)}
}

// Reset starts a new scenario; cfg fields are merged into the Reset event.
func (t *Trace) Reset(cfg E) int {
	t.mu.Lock()
	t.w.Flush() // whatever was recorded so far survives a driver that hangs or crashes in a later scenario
	t.scn++
	t.seq = 0
	t.mu.Unlock()
	e := E{"ev": "Reset"}
	for k, v := range cfg {
		e[k] = v
	}
	t.Ev(e)
	return t.scn
}

func (t *Trace) Scn() int { t.mu.Lock(); defer t.mu.Unlock(); return t.scn }

// Ev appends one event.
func (t *Trace) Ev(e E) {
	t.mu.Lock()
	defer t.mu.Unlock()
	t.seq++
	t.n++
	e["scn"] = t.scn
	e["seq"] = t.seq
	b, err := json.Marshal(e)
	if err != nil {
		panic(err)
	}
	t.w.Write(b)
	t.w.WriteByte('\n')
}

// Locked runs f while holding the trace mutex and logs the event f returns
// (used by fakes that must log atomically with a state change of their own).
func (t *Trace) Locked(f func() E) {
	t.mu.Lock()
	e := f()
	t.seq++
	t.n++
	e["scn"] = t.scn
	e["seq"] = t.seq
	b, _ := json.Marshal(e)
	t.w.Write(b)
	t.w.WriteByte('\n')
	t.mu.Unlock()
}

// Flush makes everything recorded so far durable (call it before an operation that may never return).
func (t *Trace) Flush() { t.mu.Lock(); t.w.Flush(); t.mu.Unlock() }

func (t *Trace) Count() int { t.mu.Lock(); defer t.mu.Unlock(); return t.n }

func (t *Trace) Close() {
	t.mu.Lock()
	defer t.mu.Unlock()
	t.w.Flush()
	t.f.Close()
}

// Seed returns VERIF_SEED (default 1).
func Seed() int64 {
	s, err := strconv.ParseInt(os.Getenv("VERIF_SEED"), 10, 64)
	if err != nil {
		return 1
	}
	return s
}

// Thorough reports whether VERIF_TIER=thorough.
func Thorough() bool { return os.Getenv("VERIF_TIER") == "thorough" }

// Pick returns q in the quick tier and t in the thorough tier.
func Pick(q, t int) int {
	if Thorough() {
		return t
	}
	return q
}

func Rand(salt int64) *rand.Rand { return rand.New(rand.NewSource(Seed()*1000003 + salt)) }

// Scenarios loads $VERIF_OUT/scn-<name>.json (a JSON array written by hv from TLC behaviours).
func Scenarios(name string, into any) bool {
	b, err := os.ReadFile(filepath.Join(OutDir(), "scn-"+name+".json"))
	if err != nil {
		return false
	}
	if err := json.Unmarshal(b, into); err != nil {
		panic(fmt.Sprintf("scenario file %s: %v", name, err))
	}
	return true
}

// Ints converts bytes to a JSON int array (TLA+ sees a sequence of 0..255).
func Ints(b []byte) []int {
	r := make([]int, len(b))
	for i, x := range b {
		r[i] = int(x)
	}
	return r
}

// Catch runs f and returns the panic value as a string ("" if none).
func Catch(f func()) (p string) {
	defer func() {
		if r := recover(); r != nil {
			p = fmt.Sprint(r)
		}
	}()
	f()
	return ""
}
