package verifkit

// memnet: an in-memory datagram network of net.PacketConn sockets, made for testing/synctest bubbles
// (every channel is created by the caller's goroutine, so blocked reads are durably blocked and
// virtual time can advance).  Read deadlines are honoured (quic-go closes its transport by setting one).

import (
	"errors"
	"fmt"
	"net"
	"os"
	"sync"
	"time"
)

type MemNet struct {
	mu     sync.Mutex
	socks  map[string]*MemSock
	all    []*MemSock
	nport  int
	OnOpen func(s *MemSock) // optional census callbacks (called outside the lock)
	OnClose func(s *MemSock, first bool)
}

func NewMemNet() *MemNet { return &MemNet{socks: map[string]*MemSock{}, nport: 20000} }

type memPkt struct {
	b    []byte
	from net.Addr
}

type MemSock struct {
	Net     *MemNet
	ID      int
	addr    *net.UDPAddr
	ch      chan memPkt
	closeCh chan struct{}
	mu      sync.Mutex
	closed  bool
	NClose  int
	rdl     time.Time
	rdlCh   chan struct{} // closed+replaced whenever the deadline changes
	killed  bool          // all traffic from/to this socket is dropped
	Drop    func(b []byte, to net.Addr) bool // optional loss model for outgoing packets
	// Tap, if set, sees every outgoing datagram (after the kill/drop decision)
	Tap func(b []byte, to net.Addr)
}

// Listen opens a socket on ip:port (port 0: pick one).
func (n *MemNet) Listen(ip string, port int) *MemSock {
	n.mu.Lock()
	if port == 0 {
		n.nport++
		port = n.nport
	}
	a := &net.UDPAddr{IP: net.ParseIP(ip), Port: port}
	s := &MemSock{Net: n, ID: len(n.all) + 1, addr: a, ch: make(chan memPkt, 4096), closeCh: make(chan struct{}), rdlCh: make(chan struct{})}
	n.socks[a.String()] = s
	n.all = append(n.all, s)
	cb := n.OnOpen
	n.mu.Unlock()
	if cb != nil {
		cb(s)
	}
	return s
}

// Open returns the sockets that were opened and not closed yet.
func (n *MemNet) Open() []*MemSock {
	n.mu.Lock()
	defer n.mu.Unlock()
	var r []*MemSock
	for _, s := range n.all {
		if !s.IsClosed() {
			r = append(r, s)
		}
	}
	return r
}

func (n *MemNet) All() []*MemSock { n.mu.Lock(); defer n.mu.Unlock(); return append([]*MemSock{}, n.all...) }

func (s *MemSock) IsClosed() bool { s.mu.Lock(); defer s.mu.Unlock(); return s.closed }

// Kill makes the socket a black hole in both directions (the peer sees silence).
func (s *MemSock) Kill() { s.mu.Lock(); s.killed = true; s.mu.Unlock() }

func (s *MemSock) ReadFrom(b []byte) (int, net.Addr, error) {
	for {
		s.mu.Lock()
		if s.closed {
			s.mu.Unlock()
			return 0, nil, net.ErrClosed
		}
		dl, dlCh := s.rdl, s.rdlCh
		s.mu.Unlock()
		var tc <-chan time.Time
		var tm *time.Timer
		if !dl.IsZero() {
			d := time.Until(dl)
			if d <= 0 {
				return 0, nil, os.ErrDeadlineExceeded
			}
			tm = time.NewTimer(d)
			tc = tm.C
		}
		select {
		case p := <-s.ch:
			if tm != nil {
				tm.Stop()
			}
			n := copy(b, p.b)
			return n, p.from, nil
		case <-s.closeCh:
			if tm != nil {
				tm.Stop()
			}
			return 0, nil, net.ErrClosed
		case <-tc:
			return 0, nil, os.ErrDeadlineExceeded
		case <-dlCh:
			if tm != nil {
				tm.Stop()
			}
			// deadline changed: re-evaluate
		}
	}
}

func (s *MemSock) WriteTo(b []byte, to net.Addr) (int, error) {
	s.mu.Lock()
	if s.closed {
		s.mu.Unlock()
		return 0, net.ErrClosed
	}
	killed, drop, tap := s.killed, s.Drop, s.Tap
	s.mu.Unlock()
	if killed || (drop != nil && drop(b, to)) {
		return len(b), nil
	}
	if tap != nil {
		tap(b, to)
	}
	s.Net.mu.Lock()
	d := s.Net.socks[to.String()]
	s.Net.mu.Unlock()
	if d == nil {
		return len(b), nil
	}
	d.mu.Lock()
	dead := d.closed || d.killed
	d.mu.Unlock()
	if dead {
		return len(b), nil
	}
	c := make([]byte, len(b))
	copy(c, b)
	select {
	case d.ch <- memPkt{c, s.addr}:
	default: // receiver queue full: drop, like a real socket buffer
	}
	return len(b), nil
}

// Inject delivers a datagram to this socket as if it came from `from`.
func (s *MemSock) Inject(b []byte, from net.Addr) {
	c := make([]byte, len(b))
	copy(c, b)
	select {
	case s.ch <- memPkt{c, from}:
	default:
	}
}

func (s *MemSock) Close() error {
	s.mu.Lock()
	first := !s.closed
	s.closed = true
	s.NClose++
	s.mu.Unlock()
	if first {
		close(s.closeCh)
		s.Net.mu.Lock()
		if s.Net.socks[s.addr.String()] == s {
			delete(s.Net.socks, s.addr.String())
		}
		s.Net.mu.Unlock()
	}
	if cb := s.Net.OnClose; cb != nil {
		cb(s, first)
	}
	if !first {
		return errors.New("memnet: socket closed twice")
	}
	return nil
}

func (s *MemSock) LocalAddr() net.Addr { return s.addr }

func (s *MemSock) SetDeadline(t time.Time) error { return s.SetReadDeadline(t) }

func (s *MemSock) SetReadDeadline(t time.Time) error {
	s.mu.Lock()
	s.rdl = t
	old := s.rdlCh
	s.rdlCh = make(chan struct{})
	s.mu.Unlock()
	close(old)
	return nil
}

func (s *MemSock) SetWriteDeadline(t time.Time) error { return nil }

func (s *MemSock) String() string { return fmt.Sprintf("memsock#%d(%s)", s.ID, s.addr) }
