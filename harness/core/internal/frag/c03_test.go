package frag

// C03 driver (core/internal/frag): FragUDPMessage over the shape grid of Sys_Shapes plus the real-constant
// boundary cases, TLC-generated and seeded random fragment sequences into one long-lived Defragger,
// all under recover(); after every sequence a well-formed message must still reassemble (Probe).

import (
	"bytes"
	"fmt"
	"strings"
	"testing"

	"github.com/apernet/hysteria/core/v2/internal/protocol"
	kit "github.com/apernet/hysteria/core/v2/internal/verifkit"
)

func c03Frag(tr *kit.Trace, dlen, alen, limit int, expect string) {
	m := &protocol.UDPMessage{SessionID: 1, PacketID: 2, FragCount: 1, Addr: strings.Repeat("a", alen), Data: make([]byte, dlen)}
	tr.Dec("frag", expect, fmt.Sprintf("dlen=%d alen=%d limit=%d", dlen, alen, limit), func() bool {
		fs := FragUDPMessage(m, limit)
		for i := range fs {
			buf := make([]byte, fs[i].Size())
			fs[i].Serialize(buf)
		}
		return len(fs) > 0
	})
}

func c03Probe(tr *kit.Trace, d *Defragger, pkt uint16) {
	ok := false
	p := kit.Catch(func() {
		a := &protocol.UDPMessage{SessionID: 9, PacketID: pkt, FragID: 1, FragCount: 2, Addr: "probe:1", Data: []byte("world")}
		b := &protocol.UDPMessage{SessionID: 9, PacketID: pkt, FragID: 0, FragCount: 2, Addr: "probe:1", Data: []byte("hello ")}
		r1 := d.Feed(a)
		r2 := d.Feed(b)
		ok = r1 == nil && r2 != nil && bytes.Equal(r2.Data, []byte("hello world")) && r2.FragCount == 1
	})
	if p != "" {
		tr.Ev(kit.E{"ev": "Panic", "what": "probe", "msg": p})
		return
	}
	tr.Probe("feed", ok)
}

func TestVerif_C03(t *testing.T) {
	tr := kit.Open("C03-frag")
	defer tr.Close()
	tr.Reset(kit.E{"src": "shapes"})
	for _, s := range kit.LoadShapes("shapes", "frag") {
		c03Frag(tr, s.I("dlen"), s.I("hdr")-9, s.I("limit"), s.Expect) // header = 8 + 1 (varint) + len(addr)
	}
	// the real constants: 255/256 fragments at MaxDatagramFrameSize-like limits, the sender-side crash of D1
	for _, c := range [][3]int{{4096, 1170, 1195}, {256, 1, 11}, {255, 1, 11}, {65535, 1, 11}, {65535, 9, 1200}, {4096, 2048, 2059}, {4096, 2048, 2060},
		{255 * 16, 3, 12 + 16}, {255*16 + 1, 3, 12 + 16}, {1, 1, 0}, {1, 1, -5}, {4096, 63, 73}, {4096, 64, 75}} {
		c03Frag(tr, c[0], c[1], c[2], "any")
	}
	r := kit.Rand(33)
	for i := 0; i < kit.Pick(500, 5000); i++ {
		c03Frag(tr, 1+r.Intn(4096), 1+r.Intn(2048), r.Intn(1400), "any")
	}

	// TLC sequences into one Defragger
	for _, s := range kit.LoadShapes("shapeseq", "feedseq") {
		tr.Reset(kit.E{"src": "tlc-seq"})
		d := &Defragger{}
		for _, st := range s.Steps {
			m := &protocol.UDPMessage{SessionID: 1, PacketID: uint16(kit.StepI(st, "pkt")), FragID: uint8(kit.StepI(st, "fid")),
				FragCount: uint8(kit.StepI(st, "cnt")), Addr: "x:1", Data: []byte{byte(kit.StepI(st, "fid"))}}
			tr.Dec("feed", kit.StepS(st, "expect"), fmt.Sprintf("pkt=%d fid=%d cnt=%d", m.PacketID, m.FragID, m.FragCount), func() bool { return d.Feed(m) != nil })
		}
		c03Probe(tr, d, 77)
	}
	// seeded sequences over the whole uint8/uint16 ranges
	for i := 0; i < kit.Pick(300, 3000); i++ {
		tr.Reset(kit.E{"src": "rand-seq"})
		d := &Defragger{}
		pkts := []uint16{0, 1, 65535, uint16(r.Intn(65536))}
		cnts := []uint8{0, 1, 2, 3, 254, 255, uint8(r.Intn(256))}
		for k := 0; k < 2+r.Intn(30); k++ {
			c := cnts[r.Intn(len(cnts))]
			f := uint8(r.Intn(256))
			if r.Intn(2) == 0 && c > 0 {
				f = uint8(r.Intn(int(c)))
			}
			m := &protocol.UDPMessage{SessionID: 1, PacketID: pkts[r.Intn(len(pkts))], FragID: f, FragCount: c, Addr: "x:1", Data: kit.Fill(r, r.Intn(5))}
			tr.Dec("feed", "any", fmt.Sprintf("pkt=%d fid=%d cnt=%d", m.PacketID, m.FragID, m.FragCount), func() bool { return d.Feed(m) != nil })
		}
		probe := uint16(4242)
		for probe == pkts[3] {
			probe++
		}
		c03Probe(tr, d, probe)
	}
	t.Logf("events=%d", tr.Count())
}
