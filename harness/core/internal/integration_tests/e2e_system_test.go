package integration_tests

// System-level driver for Hysteria.tla / Prop_E2E: a reconnecting client, a real server, TCP flows and UDP sessions
// with an outbound policy, connection kills in between - everything a target sees must have been sent by an
// authenticated generation of the client, on that flow, in order (TCP) / as a whole (UDP), to an allowed destination.

import (
	"encoding/binary"
	"errors"
	"fmt"
	"io"
	"net"
	"sync"
	"testing"
	"testing/synctest"
	"time"

	"github.com/apernet/hysteria/core/v2/client"
	kit "github.com/apernet/hysteria/core/v2/internal/verifkit"
	"github.com/apernet/hysteria/core/v2/server"
)

type sysWorld struct {
	tr    *kit.Trace
	w     *e2eWorld
	mu    sync.Mutex
	allow map[int]bool
	tcp   map[string]*kit.PipeConn // far ends by "g1f1"
	udp   []*sysUDP
}

func sysTok(gen, flow, seq int) []byte {
	b := make([]byte, 8)
	b[0], b[1] = byte(gen), byte(flow)
	binary.BigEndian.PutUint32(b[2:], uint32(seq))
	b[6], b[7] = 0xAB, 0xCD
	return b
}

func sysParse(b []byte) (gen, flow, seq int, ok bool) {
	if len(b) != 8 || b[6] != 0xAB || b[7] != 0xCD {
		return 0, 0, -1, false
	}
	return int(b[0]), int(b[1]), int(binary.BigEndian.Uint32(b[2:])), true
}

// ---- Authenticator: the generation is the last octet of the client's address minus 10
func (s *sysWorld) Authenticate(addr net.Addr, auth string, tx uint64) (bool, string) {
	ok := auth == e2eGood
	s.tr.Ev(kit.E{"ev": "AuthCall", "gen": e2eConnOf(addr), "ok": ok})
	return ok, "user"
}

// ---- Outbound with policy
func (s *sysWorld) TCP(reqAddr string) (net.Conn, error) {
	var g, f int
	if _, err := fmt.Sscanf(reqAddr, "g%df%d.test:80", &g, &f); err != nil {
		return nil, errors.New("bad address")
	}
	a, b := kit.NewPipe()
	s.mu.Lock()
	s.tcp[fmt.Sprintf("g%df%d", g, f)] = b
	s.mu.Unlock()
	// the target: reads 8-byte tokens and logs them
	go func() {
		buf := make([]byte, 8)
		for {
			if _, err := io.ReadFull(b, buf); err != nil {
				return
			}
			tg, tf, seq, ok := sysParse(buf)
			if !ok || tg != g || tf != f {
				seq = -1
			}
			s.tr.Ev(kit.E{"ev": "TgtRecvTCP", "gen": g, "flow": f, "tok": seq})
		}
	}()
	return a, nil
}

type sysUDP struct {
	s      *sysWorld
	ch     chan []byte
	closed chan struct{}
	once   sync.Once
}

func sysUDPAddr(gen, sess, dst int) string { return fmt.Sprintf("g%ds%dd%d.test:53", gen, sess, dst) }

func (u *sysUDP) ReadFrom(b []byte) (int, string, error) {
	select {
	case p := <-u.ch:
		// p = [gen, sess, src, tag(4)]
		return copy(b, p), sysUDPAddr(int(p[0]), int(p[1]), int(p[2])), nil
	case <-u.closed:
		return 0, "", net.ErrClosed
	}
}
func (u *sysUDP) WriteTo(b []byte, addr string) (int, error) {
	var g, ss, d int
	fmt.Sscanf(addr, "g%ds%dd%d.test:53", &g, &ss, &d)
	tag := -1
	if len(b) == 7 && int(b[0]) == g && int(b[1]) == ss && int(b[2]) == d {
		tag = int(binary.BigEndian.Uint32(b[3:]))
	}
	u.s.tr.Ev(kit.E{"ev": "TgtRecvUDP", "gen": g, "sess": ss, "dst": d, "tag": tag})
	return len(b), nil
}
func (u *sysUDP) Close() error { u.once.Do(func() { close(u.closed) }); return nil }

func (s *sysWorld) dstOf(addr string) int {
	var g, ss, d int
	if _, err := fmt.Sscanf(addr, "g%ds%dd%d.test:53", &g, &ss, &d); err != nil {
		return -1
	}
	return d
}
func (s *sysWorld) UDP(reqAddr string) (server.UDPConn, error) {
	if !s.allow[s.dstOf(reqAddr)] {
		return nil, errors.New("rejected by policy")
	}
	u := &sysUDP{s: s, ch: make(chan []byte, 64), closed: make(chan struct{})}
	s.mu.Lock()
	s.udp = append(s.udp, u)
	s.mu.Unlock()
	return u, nil
}
func (s *sysWorld) CheckUDP(reqAddr string) error {
	if !s.allow[s.dstOf(reqAddr)] {
		return errors.New("rejected by policy")
	}
	return nil
}

type sysFactory struct {
	s    *sysWorld
	mu   sync.Mutex
	n    int
	last *kit.MemSock
}

func (f *sysFactory) New(addr net.Addr) (net.PacketConn, error) {
	f.mu.Lock()
	defer f.mu.Unlock()
	f.n++
	f.last = f.s.w.net.Listen(fmt.Sprintf("10.0.0.%d", 10+f.n), 0) // the address tells the server-side fakes the generation
	return f.last, nil
}

type sysOp struct {
	Op  string // tcp tgt udp reply kill
	Dst int
}

func sysRun(t *testing.T, tr *kit.Trace, allow []int, ops []sysOp, src string) {
	defer func() {
		if r := recover(); r != nil {
			tr.Ev(kit.E{"ev": "BubbleLeak", "msg": fmt.Sprint(r)})
		}
	}()
	synctest.Test(t, func(t *testing.T) {
		w := e2eNewWorld(tr)
		s := &sysWorld{tr: tr, w: w, allow: map[int]bool{}, tcp: map[string]*kit.PipeConn{}}
		for _, a := range allow {
			s.allow[a] = true
		}
		tr.Reset(kit.E{"allow": allow, "src": src})
		if err := w.startServer(&server.Config{Authenticator: s, Outbound: s, QUICConfig: server.QUICConfig{MaxIdleTimeout: 4 * time.Second}}); err != nil {
			t.Fatal(err)
		}
		f := &sysFactory{s: s}
		gen := 0
		rc, err := client.NewReconnectableClient(func() (*client.Config, error) {
			return &client.Config{ConnFactory: f, ServerAddr: w.srvSock.LocalAddr(), Auth: e2eGood, TLSConfig: client.TLSConfig{InsecureSkipVerify: true},
				QUICConfig: client.QUICConfig{MaxIdleTimeout: 4 * time.Second, KeepAlivePeriod: 2 * time.Second}}, nil
		}, func(c client.Client, info *client.HandshakeInfo, count int) {
			gen = count
			tr.Ev(kit.E{"ev": "Connected", "gen": count})
		}, true)
		if err != nil {
			t.Fatal(err)
		}
		type flow struct {
			gen   int
			conn  net.Conn
			up    int
			dn    int
			udp   client.HyUDPConn
			utag  int
			alive bool
		}
		var cur *flow
		ensure := func() *flow {
			if cur != nil && cur.alive {
				return cur
			}
			for try := 0; try < 3; try++ {
				u, err := rc.UDP() // forces (re)connection; tells us the generation through the callback
				if err != nil {
					continue
				}
				fl := &flow{gen: gen, udp: u, alive: true}
				c, err := rc.TCP(fmt.Sprintf("g%df1.test:80", gen))
				if err != nil {
					u.Close()
					continue
				}
				fl.conn = c
				// client-side readers
				go func() {
					buf := make([]byte, 8)
					for {
						if _, err := io.ReadFull(c, buf); err != nil {
							return
						}
						g, ff, seq, ok := sysParse(buf)
						if !ok || g != fl.gen || ff != 1 {
							seq = -1
						}
						tr.Ev(kit.E{"ev": "CliRecvTCP", "gen": fl.gen, "flow": 1, "tok": seq})
					}
				}()
				go func() {
					for {
						b, from, err := u.Receive()
						if err != nil {
							return
						}
						var g, ss, d int
						fmt.Sscanf(from, "g%ds%dd%d.test:53", &g, &ss, &d)
						tag := -1
						if len(b) == 7 && int(b[0]) == g && int(b[2]) == d {
							tag = int(binary.BigEndian.Uint32(b[3:]))
						}
						tr.Ev(kit.E{"ev": "CliRecvUDP", "gen": fl.gen, "sess": 1, "src": d, "tag": tag})
					}
				}()
				cur = fl
				return fl
			}
			return nil
		}
		for _, op := range ops {
			fl := ensure()
			if fl == nil {
				continue
			}
			switch op.Op {
			case "tcp":
				fl.up++
				tr.Ev(kit.E{"ev": "CliSendTCP", "gen": fl.gen, "flow": 1, "tok": fl.up})
				fl.conn.Write(sysTok(fl.gen, 1, fl.up))
			case "tgt":
				s.mu.Lock()
				far := s.tcp[fmt.Sprintf("g%df1", fl.gen)]
				s.mu.Unlock()
				if far != nil {
					fl.dn++
					tr.Ev(kit.E{"ev": "TgtSendTCP", "gen": fl.gen, "flow": 1, "tok": fl.dn})
					far.Write(sysTok(fl.gen, 1, fl.dn))
				}
			case "udp":
				fl.utag++
				b := make([]byte, 7)
				b[0], b[1], b[2] = byte(fl.gen), 1, byte(op.Dst)
				binary.BigEndian.PutUint32(b[3:], uint32(fl.utag))
				tr.Ev(kit.E{"ev": "CliSendUDP", "gen": fl.gen, "sess": 1, "dst": op.Dst, "tag": fl.utag})
				fl.udp.Send(b, sysUDPAddr(fl.gen, 1, op.Dst))
			case "reply":
				s.mu.Lock()
				var u *sysUDP
				if len(s.udp) > 0 {
					u = s.udp[len(s.udp)-1]
				}
				s.mu.Unlock()
				if u != nil {
					fl.utag++
					b := make([]byte, 7)
					b[0], b[1], b[2] = byte(fl.gen), 1, byte(op.Dst)
					binary.BigEndian.PutUint32(b[3:], uint32(fl.utag))
					tr.Ev(kit.E{"ev": "TgtSendUDP", "gen": fl.gen, "sess": 1, "src": op.Dst, "tag": fl.utag})
					select {
					case u.ch <- b:
					default:
					}
				}
			case "kill":
				f.mu.Lock()
				sock := f.last
				f.mu.Unlock()
				if sock != nil {
					sock.Kill()
					time.Sleep(6 * time.Second)
					tr.Ev(kit.E{"ev": "Kill", "gen": fl.gen})
					fl.alive = false
				}
			}
			time.Sleep(200 * time.Millisecond)
			synctest.Wait()
		}
		rc.Close()
		tr.Ev(kit.E{"ev": "Closed"})
		s.mu.Lock()
		for _, p := range s.tcp {
			p.Close()
		}
		for _, u := range s.udp {
			u.Close()
		}
		s.mu.Unlock()
		w.srv.Close()
		time.Sleep(10 * time.Second)
		synctest.Wait()
	})
}

func TestVerif_E2E(t *testing.T) {
	tr := kit.Open("E2E")
	defer tr.Close()
	r := kit.Rand(23)
	for i := 0; i < kit.Pick(25, 250); i++ {
		allow := []int{1}
		for d := 2; d <= 5; d++ {
			if r.Intn(2) == 0 {
				allow = append(allow, d)
			}
		}
		var ops []sysOp
		for k := 0; k < 6+r.Intn(14); k++ {
			x := r.Intn(100)
			switch {
			case x < 30:
				ops = append(ops, sysOp{Op: "tcp"})
			case x < 45:
				ops = append(ops, sysOp{Op: "tgt"})
			case x < 75:
				ops = append(ops, sysOp{Op: "udp", Dst: 1 + r.Intn(5)})
			case x < 85:
				ops = append(ops, sysOp{Op: "reply", Dst: 1 + r.Intn(5)})
			default:
				ops = append(ops, sysOp{Op: "kill"})
			}
		}
		sysRun(t, tr, allow, ops, "rand")
	}
	t.Logf("events=%d", tr.Count())
}
