package integration_tests

// C01 / C02 driver: raw QUIC + HTTP/3 clients against a real hysteria server and, for C02, against a
// stock http3.Server running the same masquerade handler (the oracle a prober could compare with).

import (
	"context"
	"fmt"
	"net/http"
	"strings"
	"sync"
	"testing"
	"testing/synctest"
	"time"

	"github.com/apernet/quic-go/http3"

	"github.com/apernet/hysteria/core/v2/internal/protocol"
	kit "github.com/apernet/hysteria/core/v2/internal/verifkit"
	"github.com/apernet/hysteria/core/v2/server"
)

type c01Op struct {
	Conn int    `json:"conn"`
	Kind string `json:"kind"`
	Var  int    `json:"-"` // variant selector for nearMiss/other
}

func c01Masq(w http.ResponseWriter, r *http.Request) {
	w.Header().Set("X-Masq", r.Method+" "+r.Host+" "+r.URL.Path)
	w.Header().Add("Set-Cookie", "session=abc")
	w.Header().Add("Set-Cookie", "theme=dark")
	w.Header().Set("Content-Type", "text/html; charset=utf-8")
	switch {
	case strings.HasPrefix(r.URL.Path, "/teapot"):
		w.WriteHeader(418)
		fmt.Fprint(w, "<h1>teapot</h1>")
	case r.Method == http.MethodPost:
		w.WriteHeader(405)
		fmt.Fprint(w, "method not allowed on ", r.URL.Path)
	default:
		w.WriteHeader(200)
		fmt.Fprint(w, "<html>welcome to ", r.Host, "</html>")
	}
}

type c01Req struct{ method, host, path, query string }

var c01NearMiss = []c01Req{
	{"GET", "hysteria", "/auth", ""}, {"PUT", "hysteria", "/auth", ""}, {"HEAD", "hysteria", "/auth", ""},
	{"POST", "Hysteria", "/auth", ""}, {"POST", "hysteria:443", "/auth", ""}, {"POST", "hysteria.", "/auth", ""},
	{"POST", "hysteria", "/auth/", ""}, {"POST", "hysteria", "/Auth", ""}, {"POST", "hysteria", "/auth2", ""},
	{"POST", "hysteria", "/", ""}, {"POST", "example.com", "/auth", ""}, {"POST", "hysteria", "/teapot", ""},
}
var c01Other = []c01Req{
	{"GET", "example.com", "/", ""}, {"GET", "example.com", "/teapot", ""}, {"POST", "example.com", "/submit", ""},
	{"GET", "hysteria", "/", "a=1"}, {"OPTIONS", "example.com", "/x", ""},
}

type c01Cfg struct {
	custom     bool
	disableUDP bool
	burst      bool
	authDelay  int
	src        string
}

func c01Run(t *testing.T, tr *kit.Trace, cfg c01Cfg, ops []c01Op) {
	synctest.Test(t, func(t *testing.T) {
		w := e2eNewWorld(tr)
		tr.Reset(kit.E{"custom": cfg.custom, "burst": cfg.burst, "src": cfg.src})
		w.authDelay = cfg.authDelay
		w.udpEcho = true
		scfg := &server.Config{DisableUDP: cfg.disableUDP}
		var masq http.Handler = http.NotFoundHandler()
		if cfg.custom {
			masq = http.HandlerFunc(c01Masq)
			scfg.MasqHandler = masq
		}
		if err := w.startServer(scfg); err != nil {
			t.Fatal(err)
		}
		// the oracle: a stock HTTP/3 server with the same handler
		osock := w.net.Listen("10.0.0.2", 443)
		otls := e2eServerTLS()
		oracle := &http3.Server{Handler: masq, TLSConfig: http3.ConfigureTLSConfig(tlsFromServer(otls)), EnableDatagrams: true}
		go oracle.Serve(osock)

		raws := map[int]*e2eRaw{}
		oras := map[int]*e2eRaw{}
		get := func(conn int) (*e2eRaw, *e2eRaw) {
			if raws[conn] == nil {
				r, err := w.dialRaw(conn, w.srvSock.LocalAddr())
				if err != nil {
					t.Fatalf("dial raw: %v", err)
				}
				raws[conn] = r
				tr.Ev(kit.E{"ev": "ConnOpen", "conn": conn})
				// whatever datagram the server sends to this peer (hysteria's HTTP/3 layer does not enable HTTP
				// datagrams, so nothing else reads them)
				go func() {
					for {
						b, err := r.qc.ReceiveDatagram(context.Background())
						if err != nil {
							return
						}
						tr.Ev(kit.E{"ev": "DgramRecv", "conn": conn, "n": len(b)})
					}
				}()
				o, err := w.dialRaw(100+conn, osock.LocalAddr())
				if err != nil {
					t.Fatalf("dial oracle: %v", err)
				}
				oras[conn] = o
			}
			return raws[conn], oras[conn]
		}
		opn := map[int]int{}
		var mu sync.Mutex
		doOp := func(op c01Op, n int) {
			r, o := raws[op.Conn], oras[op.Conn]
			switch op.Kind {
			case "authGood", "authBad", "nearMiss", "other":
				var rq c01Req
				hdr := map[string]string{}
				cred := ""
				switch op.Kind {
				case "authGood":
					rq, cred = c01Req{"POST", "hysteria", "/auth", ""}, e2eGood
				case "authBad":
					rq, cred = c01Req{"POST", "hysteria", "/auth", ""}, "wrong"
					if op.Var%3 == 1 {
						cred = ""
					}
				case "nearMiss":
					rq = c01NearMiss[op.Var%len(c01NearMiss)]
					cred = e2eGood // a near miss with perfectly good credentials must still be a web request
				default:
					rq = c01Other[op.Var%len(c01Other)]
					if op.Var%2 == 0 {
						cred = e2eGood
					}
				}
				if op.Kind == "authGood" && op.Var%4 == 3 {
					rq.query = "x=1" // a query string does not change the path
				}
				if cred != "" || op.Kind == "authBad" {
					hdr[protocol.RequestHeaderAuth] = cred
					hdr[protocol.CommonHeaderCCRX] = "0"
					hdr[protocol.CommonHeaderPadding] = strings.Repeat("p", 64+op.Var%200)
				}
				path := rq.path
				if rq.query != "" {
					path += "?" + rq.query
				}
				tr.Ev(kit.E{"ev": "HTTPReqSent", "conn": op.Conn, "op": n})
				tr.Flush() // if the server never answers, the driver never gets past this point
				got := r.do(rq.method, rq.host, path, hdr)
				want := o.do(rq.method, rq.host, path, hdr)
				tr.Ev(kit.E{"ev": "Resp", "conn": op.Conn, "op": n, "status": got.status})
				tr.Ev(kit.E{"ev": "HTTPResp", "conn": op.Conn, "op": n, "method": rq.method, "host": rq.host, "path": rq.path,
					"credok": cred == e2eGood, "status": got.status, "hyHdr": got.hysteriaHeader(), "same": got.same(want),
					"got": fmt.Sprintf("%d %v %q %s", got.status, got.hdr, got.body, got.err), "want": fmt.Sprintf("%d %v %q %s", want.status, want.hdr, want.body, want.err)})
			case "stream":
				var buf strings.Builder
				_ = protocol.WriteTCPRequest(&buf, e2eTargetAddr(op.Conn, n))
				tr.Ev(kit.E{"ev": "StreamSent", "conn": op.Conn, "op": n})
				cls := r.streamProbe([]byte(buf.String()), 2*time.Second)
				ocls := o.streamProbe([]byte(buf.String()), 2*time.Second)
				tr.Ev(kit.E{"ev": "StreamOutcome", "conn": op.Conn, "op": n, "proxied": w.calls("tcp", op.Conn, n) > 0, "cls": cls, "oracle": ocls})
			case "dgram":
				m := &protocol.UDPMessage{SessionID: uint32(n), PacketID: 0, FragID: 0, FragCount: 1, Addr: fmt.Sprintf("c%do%d.test:53", op.Conn, n), Data: []byte("ping")}
				b := make([]byte, m.Size())
				m.Serialize(b)
				tr.Ev(kit.E{"ev": "DgramSent", "conn": op.Conn, "op": n})
				_ = r.qc.SendDatagram(b)
			}
		}
		// group the operations: sequential (one per step) or bursts of up to 3 issued concurrently
		i := 0
		for i < len(ops) {
			j := i + 1
			if cfg.burst {
				j = i + 3
				if j > len(ops) {
					j = len(ops)
				}
			}
			var wg sync.WaitGroup
			for _, op := range ops[i:j] {
				get(op.Conn)
				mu.Lock()
				opn[op.Conn]++
				n := opn[op.Conn]
				mu.Unlock()
				op.Var = n*7 + op.Conn*3 + int(kit.Seed())
				wg.Add(1)
				go func(op c01Op, n int) {
					defer wg.Done()
					doOp(op, n)
				}(op, n)
			}
			wg.Wait()
			synctest.Wait()
			i = j
		}
		// let queued datagrams be consumed (or not), then observe replies
		time.Sleep(500 * time.Millisecond)
		synctest.Wait()
		tr.Ev(kit.E{"ev": "End"})
		for _, r := range raws {
			r.close()
		}
		for _, o := range oras {
			o.close()
		}
		w.closeTargets()
		w.srv.Close()
		oracle.Close()
		osock.Close()
		synctest.Wait()
	})
}

func TestVerif_C01(t *testing.T) {
	tr := kit.Open("C01")
	defer tr.Close()
	var scns [][]c01Op
	n := 0
	if kit.Scenarios("authgate", &scns) {
		for i, s := range scns {
			c01Run(t, tr, c01Cfg{custom: i%2 == 0, burst: i%3 == 2, disableUDP: i%7 == 6, authDelay: i % 3 / 2 * 3000, src: "tlc"}, s)
			n++
		}
	}
	r := kit.Rand(11)
	kinds := []string{"authGood", "authBad", "nearMiss", "other", "stream", "dgram", "stream", "nearMiss"}
	for i := 0; i < kit.Pick(40, 400); i++ {
		nc := 1 + r.Intn(3)
		var ops []c01Op
		for k := 0; k < 4+r.Intn(8); k++ {
			ops = append(ops, c01Op{Conn: 1 + r.Intn(nc), Kind: kinds[r.Intn(len(kinds))]})
		}
		c01Run(t, tr, c01Cfg{custom: r.Intn(2) == 0, burst: r.Intn(2) == 0, disableUDP: r.Intn(8) == 0, authDelay: r.Intn(2) * 3000, src: "rand"}, ops)
	}
	t.Logf("scenarios tlc=%d events=%d", n, tr.Count())
}
