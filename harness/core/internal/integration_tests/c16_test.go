package integration_tests

// C16 driver: client.NewReconnectableClient against a real server (in-memory network, bubble): a counting
// ConnFactory logs every socket it hands out and every Close; the transport socket can be killed (black hole,
// then the idle timeout passes in virtual time); the config function can fail or point at a dead server.
// Direction A: TLC-generated call/kill/fault/close histories from Sys_Reconnect; direction B: seeded ones with
// several goroutines calling concurrently.

import (
	"errors"
	"fmt"
	"net"
	"runtime"
	"sort"
	"sync"
	"testing"
	"testing/synctest"
	"time"

	"github.com/apernet/quic-go"

	"github.com/apernet/hysteria/core/v2/client"
	coreErrs "github.com/apernet/hysteria/core/v2/errors"
	kit "github.com/apernet/hysteria/core/v2/internal/verifkit"
	"github.com/apernet/hysteria/core/v2/server"
)

type c16Sock struct {
	*kit.MemSock
	f  *c16Factory
	id int
}

func (s *c16Sock) Close() error {
	s.f.tr.Ev(kit.E{"ev": "SockClose", "sock": s.id})
	s.f.mu.Lock()
	delete(s.f.open, s.id)
	s.f.mu.Unlock()
	return s.MemSock.Close()
}

type c16Factory struct {
	tr   *kit.Trace
	net  *kit.MemNet
	mu   sync.Mutex
	n    int
	open map[int]*c16Sock
	last *c16Sock
}

func (f *c16Factory) New(addr net.Addr) (net.PacketConn, error) {
	f.mu.Lock()
	f.n++
	s := &c16Sock{MemSock: f.net.Listen("10.0.0.11", 0), f: f, id: f.n}
	f.open[s.id] = s
	f.last = s
	f.mu.Unlock()
	f.tr.Ev(kit.E{"ev": "FactoryNew", "sock": s.id, "ok": true})
	return s, nil
}

func (f *c16Factory) openIDs() []int {
	f.mu.Lock()
	defer f.mu.Unlock()
	ids := []int{}
	for id := range f.open {
		ids = append(ids, id)
	}
	sort.Ints(ids)
	return ids
}

type c16Op struct {
	Op string `json:"op"` // call kill cfg srv close quiesce
	G  int    `json:"g"`
	// random scenarios: several calls at once, and stream-limit probes
	Par   int  `json:"-"`
	Limit bool `json:"-"`
}

func c16Kind(err error) string {
	if err == nil {
		return "ok"
	}
	// the cause counts, not the wrapping: hitting the peer's stream limit is the recoverable error of the statement
	var lp *quic.StreamLimitReachedError
	if errors.As(err, &lp) || errors.Is(err, quic.StreamLimitReachedError{}) {
		return "limit"
	}
	var ce coreErrs.ClosedError
	if errors.As(err, &ce) {
		return "closed"
	}
	var cfe coreErrs.ConfigError
	var cne coreErrs.ConnectError
	if errors.As(err, &cfe) || errors.As(err, &cne) || err.Error() == "config unavailable" {
		return "cfgerr"
	}
	return "other"
}

func c16Run(t *testing.T, tr *kit.Trace, lazy bool, ops []c16Op, src string) {
	defer func() {
		if r := recover(); r != nil {
			tr.Ev(kit.E{"ev": "BubbleLeak", "msg": fmt.Sprint(r)})
		}
	}()
	synctest.Test(t, func(t *testing.T) {
		w := e2eNewWorld(tr)
		tr.Reset(kit.E{"lazy": lazy, "src": src})
		if err := w.startServer(&server.Config{QUICConfig: server.QUICConfig{MaxIncomingStreams: 8, MaxIdleTimeout: 4 * time.Second}}); err != nil {
			t.Fatal(err)
		}
		f := &c16Factory{tr: tr, net: w.net, open: map[int]*c16Sock{}}
		var mu sync.Mutex
		cfgFail, srvDown := false, false
		deadAddr := &net.UDPAddr{IP: net.ParseIP("10.0.0.99"), Port: 443}
		var cfgGate, cfgReached chan struct{} // when set, the next configuration evaluation parks until the driver releases it
		configFunc := func() (*client.Config, error) {
			mu.Lock()
			cf, sd := cfgFail, srvDown
			gate, reached := cfgGate, cfgReached
			cfgGate, cfgReached = nil, nil
			mu.Unlock()
			tr.Ev(kit.E{"ev": "Config", "ok": !cf})
			if gate != nil {
				close(reached)
				<-gate
			}
			if cf {
				return nil, errors.New("config unavailable")
			}
			addr := w.srvSock.LocalAddr()
			if sd {
				addr = deadAddr
			}
			return &client.Config{ConnFactory: f, ServerAddr: addr, Auth: e2eGood, TLSConfig: client.TLSConfig{InsecureSkipVerify: true},
				QUICConfig: client.QUICConfig{MaxIdleTimeout: 4 * time.Second, KeepAlivePeriod: 2 * time.Second}}, nil
		}
		connected := func(c client.Client, info *client.HandshakeInfo, count int) {
			tr.Ev(kit.E{"ev": "Connected", "count": count})
		}
		quiesce := func() {
			synctest.Wait()
			tr.Ev(kit.E{"ev": "Quiesce", "open": f.openIDs()})
		}
		rc, err := client.NewReconnectableClient(configFunc, connected, lazy)
		if err != nil {
			t.Fatalf("NewReconnectableClient: %v", err)
		}
		quiesce()
		var held []net.Conn
		closed := false
		call := func(g int, udp bool) string {
			tr.Ev(kit.E{"ev": "Call", "g": g})
			var err error
			if udp {
				var u client.HyUDPConn
				u, err = rc.UDP()
				if err == nil {
					u.Close()
				}
			} else {
				var c net.Conn
				c, err = rc.TCP(e2eTargetAddr(1, g))
				if err == nil {
					mu.Lock()
					held = append(held, c)
					mu.Unlock()
				}
			}
			tr.Ev(kit.E{"ev": "Ret", "g": g, "kind": c16Kind(err), "err": fmt.Sprint(err)})
			return c16Kind(err)
		}
		release := func() {
			mu.Lock()
			hs := held
			held = nil
			mu.Unlock()
			for _, c := range hs {
				c.Close()
			}
		}
		for i, op := range ops {
			switch op.Op {
			case "call":
				if op.Limit {
					// fill the stream limit with held connections, then one more call must report a recoverable error
					for k := 0; k < 10; k++ {
						call(100+k, false)
					}
					quiesce()
					release()
					time.Sleep(100 * time.Millisecond)
				} else if op.Par > 1 && !func() bool { mu.Lock(); defer mu.Unlock(); return srvDown }() {
					// (not while the server is unreachable: a caller waiting for the client's mutex is not durably
					// blocked, so the bubble's clock - and with it the handshake timeout - could never advance)
					var wg sync.WaitGroup
					for k := 0; k < op.Par; k++ {
						wg.Add(1)
						go func(g int) { defer wg.Done(); call(g, g%3 == 0) }(op.G*10 + k)
					}
					wg.Wait()
					release()
				} else {
					call(op.G, i%4 == 3)
					release()
				}
			case "kill":
				f.mu.Lock()
				s := f.last
				f.mu.Unlock()
				if s != nil && !s.IsClosed() {
					s.Kill()
					time.Sleep(6 * time.Second) // idle timeout (4 s) passes: the connection is dead on both sides
					tr.Ev(kit.E{"ev": "Kill", "sock": s.id})
				}
			case "cfg":
				mu.Lock()
				cfgFail = !cfgFail
				mu.Unlock()
			case "srv":
				mu.Lock()
				srvDown = !srvDown
				mu.Unlock()
			case "close":
				if !closed {
					closed = true
					rc.Close()
					tr.Ev(kit.E{"ev": "CloseRet"})
				}
			case "inflight":
				// Several callers have a request in flight (parked in the server's outbound dial) when the connection is
				// lost; each gets the loss reported and simply tries again.  The first retry reconnects while holding the
				// client's mutex, the other callers reach their own loss handling only after that: they hold a reference to
				// the OLD connection and must leave the new one alone.
				mu.Lock()
				skip := closed || cfgFail || srvDown
				mu.Unlock()
				if skip {
					continue
				}
				if call(op.G, false) != "ok" {
					release()
					break
				}
				release()
				hang := make(chan struct{})
				w.mu.Lock()
				w.dialErr = func(a string) string {
					if _, o := e2eParseTarget(a); o >= 500 && o < 600 {
						<-hang
						return "refused"
					}
					return ""
				}
				w.mu.Unlock()
				var wg sync.WaitGroup
				nw := 2 + i%3
				for k := 0; k < nw; k++ {
					wg.Add(1)
					go func(k int) {
						defer wg.Done()
						call(500+k, false)
						for a := 0; a < 3; a++ {
							if call(600+k*3+a, false) == "ok" {
								break
							}
						}
					}(k)
				}
				synctest.Wait() // every request is parked at the target's door
				f.mu.Lock()
				sk := f.last
				f.mu.Unlock()
				if sk != nil && !sk.IsClosed() {
					sk.Kill()
					tr.Ev(kit.E{"ev": "Kill", "sock": sk.id})
					time.Sleep(6 * time.Second)
				}
				close(hang)
				wg.Wait()
				w.mu.Lock()
				w.dialErr = nil
				w.mu.Unlock()
				release()
			case "closerace":
				// A's reconnect is parked inside the configuration function (holding the client's mutex); Close() queues
				// behind it, then call B queues behind Close(); A's reconnect then fails.  Whatever B does, it must not
				// reconnect after Close() has returned.  (No synctest.Wait while goroutines wait for that mutex.)
				if closed {
					continue
				}
				gate, reached := make(chan struct{}), make(chan struct{})
				mu.Lock()
				cfgGate, cfgReached = gate, reached
				wasFail := cfgFail
				cfgFail = true
				mu.Unlock()
				var wg sync.WaitGroup
				wg.Add(1)
				go func() { defer wg.Done(); call(71, false) }()
				select {
				case <-reached:
					yield := func() {
						for k := 0; k < 3000; k++ {
							runtime.Gosched()
						}
					}
					wg.Add(2)
					go func() { defer wg.Done(); rc.Close(); tr.Ev(kit.E{"ev": "CloseRet"}) }()
					yield()
					mu.Lock()
					cfgFail = wasFail
					mu.Unlock()
					go func() { defer wg.Done(); call(72, false) }()
					yield()
					close(gate)
					closed = true
				case <-time.After(time.Second):
					// the client was connected: no reconnect happened, nothing to race with
					mu.Lock()
					cfgGate, cfgReached, cfgFail = nil, nil, wasFail
					mu.Unlock()
				}
				wg.Wait()
				release()
			case "quiesce":
			}
			quiesce()
		}
		if !closed {
			rc.Close()
			tr.Ev(kit.E{"ev": "CloseRet"})
		}
		release()
		quiesce()
		// a call after Close must fail without reconnecting
		call(999, false)
		quiesce()
		// sockets hysteria forgot about would keep the bubble alive: close them so that the leak is a logged fact only
		for _, id := range f.openIDs() {
			f.mu.Lock()
			s := f.open[id]
			f.mu.Unlock()
			s.MemSock.Close()
		}
		w.closeTargets()
		w.srv.Close()
		time.Sleep(10 * time.Second)
		synctest.Wait()
	})
}

func TestVerif_C16(t *testing.T) {
	tr := kit.Open("C16")
	defer tr.Close()
	var scns [][]c16Op
	if kit.Scenarios("reconnect", &scns) {
		for i, s := range scns {
			c16Run(t, tr, i%2 == 0, s, "tlc")
		}
	}
	// hand-written families: each fault kind in the positions that matter
	call := func(g int) c16Op { return c16Op{Op: "call", G: g} }
	op := func(o string) c16Op { return c16Op{Op: o} }
	lim := c16Op{Op: "call", G: 50, Limit: true}
	par := c16Op{Op: "call", G: 7, Par: 4}
	fam := [][]c16Op{
		{call(1), op("kill"), call(2), op("srv"), call(3), call(4), op("srv"), call(5), call(6)},            // failed reconnects, then success
		{call(1), op("kill"), call(2), op("cfg"), call(3), op("cfg"), call(4), op("kill"), call(5), call(6)}, // config errors
		{call(1), lim, call(2), call(3)},                                                                    // recoverable error: same connection afterwards
		{call(1), lim, op("kill"), call(2), call(3), lim, call(4)},
		{call(1), par, op("kill"), par, par, call(2)},                                                       // several callers discover the loss together
		{call(1), op("kill"), par, op("close"), call(2), par},
		{op("srv"), call(1), call(2), op("srv"), call(3), op("kill"), call(4), call(5), op("close"), call(6)},
		{call(1), op("close"), call(2), op("kill"), call(3)},
		{op("closerace"), call(2)},                              // lazy start: Close racing the very first connect
		{call(1), op("kill"), call(2), op("closerace"), call(3)}, // after a loss
		{call(1), op("kill"), call(2), op("srv"), call(3), op("srv"), op("closerace")},
		{c16Op{Op: "inflight", G: 1}, call(2)}, // requests in flight when the connection is lost, everybody retries
		{call(1), op("kill"), c16Op{Op: "inflight", G: 2}, c16Op{Op: "inflight", G: 3}, call(4), op("close")},
		{call(1), c16Op{Op: "inflight", G: 2}, lim, c16Op{Op: "inflight", G: 3}},
	}
	for i, f := range fam {
		c16Run(t, tr, i%2 == 1, f, "family")
	}
	r := kit.Rand(19)
	for i := 0; i < kit.Pick(30, 300); i++ {
		var ops []c16Op
		for k := 0; k < 4+r.Intn(10); k++ {
			x := r.Intn(100)
			switch {
			case x < 45:
				op := c16Op{Op: "call", G: 1 + k}
				if r.Intn(3) == 0 {
					op.Par = 2 + r.Intn(3)
				}
				if r.Intn(9) == 0 {
					op.Limit = true
				}
				ops = append(ops, op)
			case x < 70:
				ops = append(ops, c16Op{Op: "kill"})
			case x < 80:
				ops = append(ops, c16Op{Op: "cfg"})
			case x < 90:
				ops = append(ops, c16Op{Op: "srv"})
			case x < 94 && k > 3:
				ops = append(ops, c16Op{Op: "close"})
			case x < 97:
				ops = append(ops, c16Op{Op: "inflight", G: 1 + k})
			default:
				ops = append(ops, c16Op{Op: "call", G: 1 + k})
			}
		}
		c16Run(t, tr, r.Intn(2) == 0, ops, "rand")
	}
	t.Logf("events=%d", tr.Count())
}
