package integration_tests

// C04 driver, end to end: real client.TCP <-> real server (ProxyStreamHijacker + handleTCPRequest) over a real QUIC
// connection on the loopback interface.  A recording outbound observes the address the server parsed and the first
// payload bytes that follow the request frame; the client observes the status/message of the response frame and the
// first reply bytes that follow it.  Judged by Prop_C04 (E2E clauses).

import (
	"context"
	"crypto/tls"
	"errors"
	"fmt"
	"io"
	"net"
	"net/http"
	"sync"
	"testing"
	"time"

	"github.com/apernet/quic-go"
	"github.com/apernet/quic-go/http3"

	"github.com/apernet/hysteria/core/v2/client"
	"github.com/apernet/hysteria/core/v2/internal/protocol"
	coreErrs "github.com/apernet/hysteria/core/v2/errors"
	kit "github.com/apernet/hysteria/core/v2/internal/verifkit"
	"github.com/apernet/hysteria/core/v2/server"
)

type c04Auth struct{}

func (c04Auth) Authenticate(addr net.Addr, auth string, tx uint64) (bool, string) { return true, "c04" }

type c04Dial struct {
	addr string
	got  chan []byte // first payload bytes that reached the target
}

type c04Outbound struct {
	mu     sync.Mutex
	dials  []*c04Dial
	errMsg *string // when set, the next dial fails with this message
	reply  []byte
	want   int
}

func (o *c04Outbound) TCP(reqAddr string) (net.Conn, error) {
	o.mu.Lock()
	defer o.mu.Unlock()
	d := &c04Dial{addr: reqAddr, got: make(chan []byte, 1)}
	o.dials = append(o.dials, d)
	if o.errMsg != nil {
		return nil, errors.New(*o.errMsg)
	}
	a, b := net.Pipe()
	reply, want := o.reply, o.want
	go func() {
		// the target talks first (reply bytes directly behind the response frame) and records what it receives
		go b.Write(reply)
		buf := make([]byte, want)
		b.SetReadDeadline(time.Now().Add(3 * time.Second))
		n, _ := io.ReadFull(b, buf)
		d.got <- buf[:n]
	}()
	return a, nil
}
func (o *c04Outbound) UDP(reqAddr string) (server.UDPConn, error) { return nil, errors.New("no udp") }
func (o *c04Outbound) CheckUDP(reqAddr string) error                { return errors.New("no udp") }

func c04Addr(n, salt int) string {
	b := make([]byte, n)
	for i := range b {
		b[i] = byte('a' + (i*7+salt)%26)
	}
	return string(b)
}

func TestVerif_C04E2E(t *testing.T) {
	tr := kit.Open("C04e2e")
	defer tr.Close()
	udpConn, err := net.ListenUDP("udp", &net.UDPAddr{IP: net.IPv4(127, 0, 0, 1), Port: 0})
	if err != nil {
		t.Fatal(err)
	}
	ob := &c04Outbound{}
	s, err := server.NewServer(&server.Config{TLSConfig: serverTLSConfig(), Conn: udpConn, Authenticator: c04Auth{}, Outbound: ob})
	if err != nil {
		t.Fatal(err)
	}
	defer s.Close()
	go s.Serve()

	for _, fast := range []bool{false, true} {
		c, _, err := client.NewClient(&client.Config{ServerAddr: udpConn.LocalAddr(), TLSConfig: client.TLSConfig{InsecureSkipVerify: true}, FastOpen: fast})
		if err != nil {
			t.Fatal(err)
		}
		tr.Reset(kit.E{"src": "e2e", "real": true, "lim": []int{2048, 2048, 4096}, "consts": []int{2048, 2048, 4096}})
		salt := 0
		var attempt func(addrLen, msgLen int) kit.E
		// deadlines are real time: a case that shows a timeout symptom is tried once more on a fresh stream and the second
		// observation counts (a reader that swallows payload fails deterministically, a scheduling hiccup does not)
		one := func(addrLen, msgLen int) {
			e := attempt(addrLen, msgLen)
			inDom := addrLen >= 1 && addrLen <= 2048
			if inDom && (e["errText"] == "timeout" || (msgLen < 0 && !(e["payloadSame"].(bool) && e["replySame"].(bool)))) {
				e = attempt(addrLen, msgLen)
				e["retried"] = true
			}
			tr.Ev(e)
		}
		attempt = func(addrLen, msgLen int) kit.E {
			salt++
			addr := c04Addr(addrLen, salt)
			payload := []byte(fmt.Sprintf("PAYLOAD-%04d-first-bytes", salt))
			reply := []byte(fmt.Sprintf("REPLY-%04d-first-bytes", salt))
			ob.mu.Lock()
			ob.dials, ob.reply, ob.want, ob.errMsg = nil, reply, len(payload), nil
			var msg string
			if msgLen >= 0 {
				msg = c04Addr(msgLen, salt+3)
				ob.errMsg = &msg
			}
			ob.mu.Unlock()
			e := kit.E{"ev": "E2E", "fast": fast, "addrLen": addrLen, "msgLen": msgLen, "called": false, "ncalls": 0, "addrSame": false,
				"dialOk": false, "payloadSame": false, "replySame": false, "isDialErr": false, "msgSame": false, "errText": "", "retried": false}
			type cres struct {
				conn      net.Conn
				derr      error
				replySame bool
			}
			resc := make(chan cres, 1)
			go func() {
				var r cres
				r.conn, r.derr = c.TCP(addr)
				if r.derr == nil {
					r.conn.SetDeadline(time.Now().Add(3 * time.Second))
					_, werr := r.conn.Write(payload)
					rb := make([]byte, len(reply))
					n, rerr := io.ReadFull(r.conn, rb)
					r.replySame = rerr == nil && string(rb[:n]) == string(reply)
					// with fast open the response (and a dial error) surfaces at the first Read; a Write that loses the race
					// against the server's rejection fails with "canceled by remote", which says nothing about the frame
					if rerr != nil {
						r.derr = rerr
					} else if werr != nil {
						r.derr = werr
					}
				}
				resc <- r
			}()
			var conn net.Conn
			var derr error
			select {
			case r := <-resc:
				conn, derr = r.conn, r.derr
				e["replySame"] = r.replySame
			case <-time.After(8 * time.Second):
				e["errText"] = "timeout"
				go func() { // whenever the call returns after all: release its stream
					if r := <-resc; r.conn != nil {
						r.conn.Close()
					}
				}()
			}
			if conn != nil {
				defer conn.Close()
			}
			ob.mu.Lock()
			dials := ob.dials
			ob.mu.Unlock()
			e["ncalls"] = len(dials)
			if len(dials) >= 1 {
				e["called"] = true
				e["addrSame"] = len(dials) == 1 && dials[0].addr == addr
				if msgLen < 0 {
					select {
					case got := <-dials[0].got:
						e["payloadSame"] = string(got) == string(payload)
					case <-time.After(4 * time.Second):
					}
				}
			}
			e["dialOk"] = derr == nil && e["errText"] == ""
			if derr != nil {
				var de coreErrs.DialError
				if errors.As(derr, &de) {
					e["isDialErr"], e["msgSame"] = true, de.Message == msg
				}
				if e["errText"] == "" {
					e["errText"] = derr.Error()
					if len(derr.Error()) > 80 {
						e["errText"] = derr.Error()[:80]
					}
				}
			}
			return e
		}
		for _, l := range []int{1, 2, 62, 63, 64, 65, 255, 256, 1000, 2047, 2048} {
			one(l, -1)
		}
		for _, l := range []int{0, 2049, 2050, 4096, 16384} {
			one(l, -1)
		}
		for _, m := range []int{0, 1, 63, 64, 65, 1000, 2047, 2048} {
			one(14, m)
		}
		r := kit.Rand(44)
		for i := 0; i < kit.Pick(10, 120); i++ {
			if r.Intn(3) == 0 {
				one(1+r.Intn(2048), r.Intn(2049))
			} else {
				one(1+r.Intn(2048), -1)
			}
		}
		c.Close()
	}
	c04RawPeer(t, tr, udpConn.LocalAddr(), ob)
	t.Log(fmt.Sprintf("events=%d", tr.Count()))
}

// A peer that is not the stock client: it authenticates over plain HTTP/3 and then writes request frames of its own
// making - the frame type and every length field in any of the varint widths a peer may choose (the stock client only
// ever uses the shortest), any padding length, the frame cut into arbitrary writes, payload directly behind it.
func c04RawPeer(t *testing.T, tr *kit.Trace, srv net.Addr, ob *c04Outbound) {
	pc, err := net.ListenUDP("udp", &net.UDPAddr{IP: net.IPv4(127, 0, 0, 1), Port: 0})
	if err != nil {
		t.Fatal(err)
	}
	defer pc.Close()
	qtr := &quic.Transport{Conn: pc}
	defer qtr.Close()
	ctx, cancel := context.WithTimeout(context.Background(), 10*time.Second)
	defer cancel()
	qc, err := qtr.DialEarly(ctx, srv, http3.ConfigureTLSConfig(&tls.Config{InsecureSkipVerify: true}), &quic.Config{EnableDatagrams: true})
	if err != nil {
		t.Fatalf("raw dial: %v", err)
	}
	defer qc.CloseWithError(0x100, "")
	h3tr := &http3.Transport{}
	defer h3tr.Close()
	cc := h3tr.NewClientConn(qc)
	req, _ := http.NewRequest("POST", "https://hysteria/auth", nil)
	req.Header.Set(protocol.RequestHeaderAuth, "x")
	req.Header.Set(protocol.CommonHeaderCCRX, "0")
	req.Header.Set(protocol.CommonHeaderPadding, "pppppppppppppppp")
	resp, err := cc.RoundTrip(req.WithContext(ctx))
	if err != nil || resp.StatusCode != protocol.StatusAuthOK {
		t.Fatalf("raw auth: %v %v", err, resp)
	}
	resp.Body.Close()

	tr.Reset(kit.E{"src": "e2e-raw", "real": true, "lim": []int{2048, 2048, 4096}, "consts": []int{2048, 2048, 4096}})
	r := kit.Rand(45)
	salt := 5000
	attempt := func(addrLen, padLen int, w [3]int, split int) kit.E {
		salt++
		addr := c04Addr(addrLen, salt)
		payload := []byte(fmt.Sprintf("PAYLOAD-%04d-first-bytes", salt))
		reply := []byte(fmt.Sprintf("REPLY-%04d-first-bytes", salt))
		ob.mu.Lock()
		ob.dials, ob.reply, ob.want, ob.errMsg = nil, reply, len(payload), nil
		ob.mu.Unlock()
		e := kit.E{"ev": "E2E", "fast": false, "raw": true, "w": w[:], "padLen": padLen, "split": split, "addrLen": addrLen, "msgLen": -1, "called": false, "ncalls": 0, "addrSame": false,
			"dialOk": false, "payloadSame": false, "replySame": false, "isDialErr": false, "msgSame": false, "errText": "", "retried": false}
		var frame []byte
		frame = append(frame, kit.QUICVarintN(protocol.FrameTypeTCPRequest, w[0])...)
		frame = append(frame, kit.QUICVarintN(uint64(addrLen), w[1])...)
		frame = append(frame, addr...)
		frame = append(frame, kit.QUICVarintN(uint64(padLen), w[2])...)
		frame = append(frame, make([]byte, padLen)...)
		frame = append(frame, payload...)
		st, err := qc.OpenStream()
		if err != nil {
			e["errText"] = "open: " + err.Error()
			return e
		}
		defer func() { st.CancelRead(0); st.Close() }()
		st.SetDeadline(time.Now().Add(3 * time.Second))
		// split: 0 one write; 1 byte by byte through the header fields; >1 at that offset
		switch {
		case split == 1:
			n := w[0] + w[1] + 2
			if n > len(frame) {
				n = len(frame)
			}
			for i := 0; i < n; i++ {
				st.Write(frame[i : i+1])
				time.Sleep(time.Millisecond)
			}
			st.Write(frame[n:])
		case split > 1 && split < len(frame):
			st.Write(frame[:split])
			time.Sleep(2 * time.Millisecond)
			st.Write(frame[split:])
		default:
			st.Write(frame)
		}
		ok, msg, rerr := protocol.ReadTCPResponse(st)
		if rerr != nil {
			e["errText"] = "resp: " + rerr.Error()
		} else if !ok {
			e["errText"] = "refused: " + msg
		} else {
			rb := make([]byte, len(reply))
			n, rerr := io.ReadFull(st, rb)
			e["replySame"] = rerr == nil && string(rb[:n]) == string(reply)
			e["dialOk"] = true
		}
		if len(e["errText"].(string)) > 80 {
			e["errText"] = e["errText"].(string)[:80]
		}
		ob.mu.Lock()
		dials := ob.dials
		ob.mu.Unlock()
		e["ncalls"] = len(dials)
		if len(dials) >= 1 {
			e["called"] = true
			e["addrSame"] = len(dials) == 1 && dials[0].addr == addr
			select {
			case got := <-dials[0].got:
				e["payloadSame"] = string(got) == string(payload)
			case <-time.After(4 * time.Second):
			}
		}
		return e
	}
	one := func(addrLen, padLen int, w [3]int, split int) {
		e := attempt(addrLen, padLen, w, split)
		inDom := addrLen >= 1 && addrLen <= 2048 && padLen <= 4096
		if inDom && !(e["called"].(bool) && e["addrSame"].(bool) && e["dialOk"].(bool) && e["payloadSame"].(bool) && e["replySame"].(bool)) {
			// deadlines are real time: a second observation on a fresh stream counts
			e = attempt(addrLen, padLen, w, split)
			e["retried"] = true
		}
		tr.Ev(e)
	}
	fit := func(v, w int) bool { return w == 8 || (w == 4 && v < 1<<30) || (w == 2 && v < 1<<14) || (w == 1 && v < 1<<6) }
	widths := []int{1, 2, 4, 8}
	// the frame type in every width that holds it, with every width of the length fields
	for _, wf := range []int{2, 4, 8} {
		for _, wa := range widths {
			for _, wp := range widths {
				for _, al := range []int{1, 63, 64, 2048} {
					pl := []int{0, 63, 64, 700}[(wa+wp+al)%4]
					if fit(al, wa) && fit(pl, wp) {
						one(al, pl, [3]int{wf, wa, wp}, (wf+wa+wp+al)%3)
					}
				}
			}
		}
	}
	for _, wf := range []int{2, 4, 8} {
		one(0, 10, [3]int{wf, 1, 1}, 0)
		one(2049, 10, [3]int{wf, 2, 1}, 0)
		one(5, 4097, [3]int{wf, 1, 2}, 0)
		one(5, 4096, [3]int{wf, 8, 8}, 1)
	}
	for i := 0; i < kit.Pick(20, 300); i++ {
		al, pl := 1+r.Intn(2048), r.Intn(4097)
		w := [3]int{[]int{2, 4, 8}[r.Intn(3)], widths[r.Intn(4)], widths[r.Intn(4)]}
		if !fit(al, w[1]) {
			w[1] = 8
		}
		if !fit(pl, w[2]) {
			w[2] = 4
		}
		one(al, pl, w, r.Intn(al+pl+20))
	}
}
