package integration_tests

// C04 driver, end to end: real client.TCP <-> real server (ProxyStreamHijacker + handleTCPRequest) over a real QUIC
// connection on the loopback interface.  A recording outbound observes the address the server parsed and the first
// payload bytes that follow the request frame; the client observes the status/message of the response frame and the
// first reply bytes that follow it.  Judged by Prop_C04 (E2E clauses).

import (
	"errors"
	"fmt"
	"io"
	"net"
	"sync"
	"testing"
	"time"

	"github.com/apernet/hysteria/core/v2/client"
	coreErrs "github.com/apernet/hysteria/core/v2/errors"
	kit "github.com/apernet/hysteria/core/v2/internal/verifkit"
	"github.com/apernet/hysteria/core/v2/server"
)

type c04Auth struct{}

func (c04Auth) Authenticate(addr net.Addr, auth string, tx uint64) (bool, string) { return true, "c04" }

type c04Dial struct {
	addr string
	got  chan []byte // first payload bytes that reached the target
}

type c04Outbound struct {
	mu     sync.Mutex
	dials  []*c04Dial
	errMsg *string // when set, the next dial fails with this message
	reply  []byte
	want   int
}

func (o *c04Outbound) TCP(reqAddr string) (net.Conn, error) {
	o.mu.Lock()
	defer o.mu.Unlock()
	d := &c04Dial{addr: reqAddr, got: make(chan []byte, 1)}
	o.dials = append(o.dials, d)
	if o.errMsg != nil {
		return nil, errors.New(*o.errMsg)
	}
	a, b := net.Pipe()
	reply, want := o.reply, o.want
	go func() {
		// the target talks first (reply bytes directly behind the response frame) and records what it receives
		go b.Write(reply)
		buf := make([]byte, want)
		b.SetReadDeadline(time.Now().Add(3 * time.Second))
		n, _ := io.ReadFull(b, buf)
		d.got <- buf[:n]
	}()
	return a, nil
}
func (o *c04Outbound) UDP(reqAddr string) (server.UDPConn, error) { return nil, errors.New("no udp") }
func (o *c04Outbound) CheckUDP(reqAddr string) error                { return errors.New("no udp") }

func c04Addr(n, salt int) string {
	b := make([]byte, n)
	for i := range b {
		b[i] = byte('a' + (i*7+salt)%26)
	}
	return string(b)
}

func TestVerif_C04E2E(t *testing.T) {
	tr := kit.Open("C04e2e")
	defer tr.Close()
	udpConn, err := net.ListenUDP("udp", &net.UDPAddr{IP: net.IPv4(127, 0, 0, 1), Port: 0})
	if err != nil {
		t.Fatal(err)
	}
	ob := &c04Outbound{}
	s, err := server.NewServer(&server.Config{TLSConfig: serverTLSConfig(), Conn: udpConn, Authenticator: c04Auth{}, Outbound: ob})
	if err != nil {
		t.Fatal(err)
	}
	defer s.Close()
	go s.Serve()

	for _, fast := range []bool{false, true} {
		c, _, err := client.NewClient(&client.Config{ServerAddr: udpConn.LocalAddr(), TLSConfig: client.TLSConfig{InsecureSkipVerify: true}, FastOpen: fast})
		if err != nil {
			t.Fatal(err)
		}
		tr.Reset(kit.E{"src": "e2e", "real": true, "lim": []int{2048, 2048, 4096}, "consts": []int{2048, 2048, 4096}})
		salt := 0
		var attempt func(addrLen, msgLen int) kit.E
		// deadlines are real time: a case that shows a timeout symptom is tried once more on a fresh stream and the second
		// observation counts (a reader that swallows payload fails deterministically, a scheduling hiccup does not)
		one := func(addrLen, msgLen int) {
			e := attempt(addrLen, msgLen)
			inDom := addrLen >= 1 && addrLen <= 2048
			if inDom && (e["errText"] == "timeout" || (msgLen < 0 && !(e["payloadSame"].(bool) && e["replySame"].(bool)))) {
				e = attempt(addrLen, msgLen)
				e["retried"] = true
			}
			tr.Ev(e)
		}
		attempt = func(addrLen, msgLen int) kit.E {
			salt++
			addr := c04Addr(addrLen, salt)
			payload := []byte(fmt.Sprintf("PAYLOAD-%04d-first-bytes", salt))
			reply := []byte(fmt.Sprintf("REPLY-%04d-first-bytes", salt))
			ob.mu.Lock()
			ob.dials, ob.reply, ob.want, ob.errMsg = nil, reply, len(payload), nil
			var msg string
			if msgLen >= 0 {
				msg = c04Addr(msgLen, salt+3)
				ob.errMsg = &msg
			}
			ob.mu.Unlock()
			e := kit.E{"ev": "E2E", "fast": fast, "addrLen": addrLen, "msgLen": msgLen, "called": false, "ncalls": 0, "addrSame": false,
				"dialOk": false, "payloadSame": false, "replySame": false, "isDialErr": false, "msgSame": false, "errText": "", "retried": false}
			type cres struct {
				conn      net.Conn
				derr      error
				replySame bool
			}
			resc := make(chan cres, 1)
			go func() {
				var r cres
				r.conn, r.derr = c.TCP(addr)
				if r.derr == nil {
					r.conn.SetDeadline(time.Now().Add(3 * time.Second))
					_, werr := r.conn.Write(payload)
					rb := make([]byte, len(reply))
					n, rerr := io.ReadFull(r.conn, rb)
					r.replySame = rerr == nil && string(rb[:n]) == string(reply)
					// with fast open the response (and a dial error) surfaces at the first Read; a Write that loses the race
					// against the server's rejection fails with "canceled by remote", which says nothing about the frame
					if rerr != nil {
						r.derr = rerr
					} else if werr != nil {
						r.derr = werr
					}
				}
				resc <- r
			}()
			var conn net.Conn
			var derr error
			select {
			case r := <-resc:
				conn, derr = r.conn, r.derr
				e["replySame"] = r.replySame
			case <-time.After(8 * time.Second):
				e["errText"] = "timeout"
				go func() { // whenever the call returns after all: release its stream
					if r := <-resc; r.conn != nil {
						r.conn.Close()
					}
				}()
			}
			if conn != nil {
				defer conn.Close()
			}
			ob.mu.Lock()
			dials := ob.dials
			ob.mu.Unlock()
			e["ncalls"] = len(dials)
			if len(dials) >= 1 {
				e["called"] = true
				e["addrSame"] = len(dials) == 1 && dials[0].addr == addr
				if msgLen < 0 {
					select {
					case got := <-dials[0].got:
						e["payloadSame"] = string(got) == string(payload)
					case <-time.After(4 * time.Second):
					}
				}
			}
			e["dialOk"] = derr == nil && e["errText"] == ""
			if derr != nil {
				var de coreErrs.DialError
				if errors.As(derr, &de) {
					e["isDialErr"], e["msgSame"] = true, de.Message == msg
				}
				if e["errText"] == "" {
					e["errText"] = derr.Error()
					if len(derr.Error()) > 80 {
						e["errText"] = derr.Error()[:80]
					}
				}
			}
			return e
		}
		for _, l := range []int{1, 2, 62, 63, 64, 65, 255, 256, 1000, 2047, 2048} {
			one(l, -1)
		}
		for _, l := range []int{0, 2049, 2050, 4096, 16384} {
			one(l, -1)
		}
		for _, m := range []int{0, 1, 63, 64, 65, 1000, 2047, 2048} {
			one(14, m)
		}
		r := kit.Rand(44)
		for i := 0; i < kit.Pick(10, 120); i++ {
			if r.Intn(3) == 0 {
				one(1+r.Intn(2048), r.Intn(2049))
			} else {
				one(1+r.Intn(2048), -1)
			}
		}
		c.Close()
	}
	t.Log(fmt.Sprintf("events=%d", tr.Count()))
}
