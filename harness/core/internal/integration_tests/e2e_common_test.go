package integration_tests

// Shared full-stack world for the e2e drivers (C01, C02, C10, C06, C16): a real hysteria server
// (real quic-go fork, real HTTP/3) on an in-memory datagram network inside a synctest bubble,
// with fakes (Authenticator, Outbound, EventLogger, TrafficLogger) that log every call.

import (
	"context"
	"crypto/ecdsa"
	"crypto/elliptic"
	crand "crypto/rand"
	"crypto/tls"
	"crypto/x509"
	"crypto/x509/pkix"
	"math/big"
	"errors"
	"fmt"
	"io"
	"net"
	"net/http"
	"runtime"
	"sort"
	"strings"
	"sync"
	"time"

	"github.com/apernet/quic-go"
	"github.com/apernet/quic-go/http3"

	"github.com/apernet/hysteria/core/v2/client"
	kit "github.com/apernet/hysteria/core/v2/internal/verifkit"
	"github.com/apernet/hysteria/core/v2/server"
)

type e2eWorld struct {
	tr      *kit.Trace
	net     *kit.MemNet
	srvSock *kit.MemSock
	srv     server.Server

	mu      sync.Mutex
	outCall map[string]int // "tcp c1o2" -> number of outbound calls seen
	tgts    []*e2eTarget
	udps    []*e2eUDP
	udpEcho bool // UDP targets answer every datagram they get
	// scripted traffic logger (nil script = approve everything)
	tlVeto func(id string, tx, rx uint64) bool
	// the authenticator is slow: it yields the processor this many times before answering, so that everything else on
	// the connection runs meanwhile (virtual time cannot be used: a goroutine waiting for hysteria's authMutex is not
	// durably blocked, so the bubble's clock would never advance)
	authDelay int
	// dial script: reqAddr -> error message ("" = ok)
	dialErr func(reqAddr string) string
}

const e2eGood = "good"

func e2eConnOf(a net.Addr) int {
	u, ok := a.(*net.UDPAddr)
	if !ok || u.IP.To4() == nil {
		return -1
	}
	return int(u.IP.To4()[3]) - 10
}

func e2eTargetAddr(conn, op int) string { return fmt.Sprintf("c%do%d.test:80", conn, op) }
func e2eParseTarget(a string) (int, int) {
	var c, o, p int
	if _, err := fmt.Sscanf(a, "c%do%d.test:%d", &c, &o, &p); err != nil {
		return -1, -1
	}
	return c, o
}

// ---- Authenticator ----
func (w *e2eWorld) Authenticate(addr net.Addr, auth string, tx uint64) (bool, string) {
	ok := auth == e2eGood || strings.HasPrefix(auth, e2eGood+":")
	id := "user"
	if strings.HasPrefix(auth, e2eGood+":") {
		id = auth[len(e2eGood)+1:]
	}
	if w.authDelay > 0 {
		w.tr.Ev(kit.E{"ev": "AuthPending", "conn": e2eConnOf(addr)})
		for i := 0; i < w.authDelay; i++ {
			runtime.Gosched()
		}
	}
	w.tr.Ev(kit.E{"ev": "AuthCall", "conn": e2eConnOf(addr), "ok": ok, "tx": kit.U64(tx)})
	return ok, id
}

// ---- Outbound ----
type e2eTarget struct {
	w        *e2eWorld
	conn, op int
	srvSide  net.Conn // what hysteria holds
	far      net.Conn // what the driver (the "target host") holds
}

func (w *e2eWorld) TCP(reqAddr string) (net.Conn, error) {
	c, o := e2eParseTarget(reqAddr)
	w.tr.Ev(kit.E{"ev": "OutTCP", "conn": c, "op": o})
	w.mu.Lock()
	w.outCall[fmt.Sprintf("tcp c%do%d", c, o)]++
	de := w.dialErr
	w.mu.Unlock()
	if de != nil {
		if msg := de(reqAddr); msg != "" {
			return nil, errors.New(msg)
		}
	}
	a, b := kit.NewPipe()
	t := &e2eTarget{w: w, conn: c, op: o, srvSide: a, far: b}
	w.mu.Lock()
	w.tgts = append(w.tgts, t)
	w.mu.Unlock()
	return a, nil
}

func (w *e2eWorld) target(conn, op int) *e2eTarget {
	w.mu.Lock()
	defer w.mu.Unlock()
	for _, t := range w.tgts {
		if t.conn == conn && t.op == op {
			return t
		}
	}
	return nil
}

type e2eUDP struct {
	w        *e2eWorld
	conn, op int
	ch       chan []byte
	closed   chan struct{}
	once     sync.Once
}

func (u *e2eUDP) ReadFrom(b []byte) (int, string, error) {
	select {
	case p := <-u.ch:
		return copy(b, p), "1.2.3.4:53", nil
	case <-u.closed:
		return 0, "", net.ErrClosed
	}
}

func (u *e2eUDP) WriteTo(b []byte, addr string) (int, error) {
	c, o := e2eParseTarget(addr)
	u.w.tr.Ev(kit.E{"ev": "TgtData", "conn": c, "op": o, "n": len(b), "via": "udp"})
	if u.w.udpEcho {
		select {
		case u.ch <- append([]byte{}, b...):
		default:
		}
	}
	return len(b), nil
}
func (u *e2eUDP) Close() error { u.once.Do(func() { close(u.closed) }); return nil }

func (w *e2eWorld) UDP(reqAddr string) (server.UDPConn, error) {
	c, o := e2eParseTarget(reqAddr)
	w.tr.Ev(kit.E{"ev": "OutUDP", "conn": c, "op": o})
	w.mu.Lock()
	w.outCall[fmt.Sprintf("udp c%do%d", c, o)]++
	u := &e2eUDP{w: w, conn: c, op: o, ch: make(chan []byte, 16), closed: make(chan struct{})}
	w.udps = append(w.udps, u)
	w.mu.Unlock()
	return u, nil
}

func (w *e2eWorld) CheckUDP(reqAddr string) error {
	c, o := e2eParseTarget(reqAddr)
	w.tr.Ev(kit.E{"ev": "OutCheckUDP", "conn": c, "op": o})
	return nil
}

func (w *e2eWorld) calls(kind string, conn, op int) int {
	w.mu.Lock()
	defer w.mu.Unlock()
	return w.outCall[fmt.Sprintf("%s c%do%d", kind, conn, op)]
}

// ---- EventLogger ----
type e2eEvents struct{ w *e2eWorld }

func (l e2eEvents) Connect(addr net.Addr, id string, tx uint64) {
	l.w.tr.Ev(kit.E{"ev": "EvConnect", "conn": e2eConnOf(addr), "id": id, "tx": kit.U64(tx)})
}
func (l e2eEvents) Disconnect(addr net.Addr, id string, err error) {
	l.w.tr.Ev(kit.E{"ev": "EvDisconnect", "conn": e2eConnOf(addr), "id": id})
}
func (l e2eEvents) TCPRequest(addr net.Addr, id, reqAddr string)            {}
func (l e2eEvents) TCPError(addr net.Addr, id, reqAddr string, err error)   {}
func (l e2eEvents) UDPRequest(addr net.Addr, id string, sid uint32, reqAddr string) {}
func (l e2eEvents) UDPError(addr net.Addr, id string, sid uint32, err error) {}

// quic-go's monotonic clock counts from the process start (real time); a synctest bubble starts at
// 2000-01-01, which would make every monotonic timestamp negative (an artefact no real process can see).
// Move the bubble's clock past the process start before anything else happens.
var e2eProcStart = time.Now()

func e2eWarpClock() {
	if d := e2eProcStart.Sub(time.Now()); d > -time.Hour {
		time.Sleep(d + 24*time.Hour)
	}
}

// ---- world ----
func e2eNewWorld(tr *kit.Trace) *e2eWorld {
	e2eWarpClock()
	return &e2eWorld{tr: tr, net: kit.NewMemNet(), outCall: map[string]int{}}
}

func (w *e2eWorld) startServer(cfg *server.Config) error {
	w.srvSock = w.net.Listen("10.0.0.1", 443)
	cfg.TLSConfig = e2eServerTLS()
	cfg.Conn = w.srvSock
	if cfg.Authenticator == nil {
		cfg.Authenticator = w
	}
	if cfg.Outbound == nil {
		cfg.Outbound = w
	}
	if cfg.EventLogger == nil {
		cfg.EventLogger = e2eEvents{w}
	}
	s, err := server.NewServer(cfg)
	if err != nil {
		return err
	}
	w.srv = s
	go s.Serve()
	return nil
}

func (w *e2eWorld) closeTargets() {
	w.mu.Lock()
	ts := append([]*e2eTarget{}, w.tgts...)
	us := append([]*e2eUDP{}, w.udps...)
	w.mu.Unlock()
	for _, t := range ts {
		t.far.Close()
		t.srvSide.Close()
	}
	for _, u := range us {
		u.Close()
	}
}

// a ConnFactory handing out memnet sockets for hysteria's own client
type e2eFactory struct {
	w    *e2eWorld
	conn int
	mu   sync.Mutex
	made []*kit.MemSock
	fail bool
}

func (f *e2eFactory) New(addr net.Addr) (net.PacketConn, error) {
	f.mu.Lock()
	defer f.mu.Unlock()
	if f.fail {
		return nil, errors.New("factory: cannot create socket")
	}
	s := f.w.net.Listen(fmt.Sprintf("10.0.0.%d", 10+f.conn), 0)
	f.made = append(f.made, s)
	return s, nil
}

func (w *e2eWorld) newClient(conn int, cfg *client.Config) (client.Client, *client.HandshakeInfo, error) {
	cfg.ConnFactory = &e2eFactory{w: w, conn: conn}
	cfg.ServerAddr = w.srvSock.LocalAddr()
	cfg.TLSConfig = client.TLSConfig{InsecureSkipVerify: true}
	return client.NewClient(cfg)
}

// ---- raw QUIC / HTTP-3 client (what a prober or a misbehaving client can do) ----
type e2eRaw struct {
	conn int
	sock *kit.MemSock
	qtr  *quic.Transport
	qc   *quic.Conn
	h3   *http3.ClientConn
	h3tr *http3.Transport
}

func (w *e2eWorld) dialRaw(conn int, to net.Addr) (*e2eRaw, error) {
	r := &e2eRaw{conn: conn}
	r.sock = w.net.Listen(fmt.Sprintf("10.0.0.%d", 10+conn), 0)
	r.qtr = &quic.Transport{Conn: r.sock}
	tlsCfg := http3.ConfigureTLSConfig(&tls.Config{InsecureSkipVerify: true})
	ctx, cancel := context.WithTimeout(context.Background(), 10*time.Second)
	defer cancel()
	qc, err := r.qtr.DialEarly(ctx, to, tlsCfg, &quic.Config{EnableDatagrams: true, MaxIdleTimeout: 30 * time.Second})
	if err != nil {
		r.qtr.Close()
		r.sock.Close()
		return nil, err
	}
	r.qc = qc
	r.h3tr = &http3.Transport{EnableDatagrams: true}
	r.h3 = r.h3tr.NewClientConn(qc)
	return r, nil
}

func (r *e2eRaw) close() {
	if r.qc != nil {
		r.qc.CloseWithError(0x100, "")
	}
	if r.h3tr != nil {
		r.h3tr.Close()
	}
	r.qtr.Close()
	r.sock.Close()
}

type e2eHTTPResult struct {
	status int
	hdr    []string // sorted "name: value" minus Date
	body   string
	err    string
}

func (r *e2eRaw) do(method, host, path string, hdr map[string]string) e2eHTTPResult {
	req, err := http.NewRequest(method, "https://"+host+path, nil)
	if err != nil {
		return e2eHTTPResult{status: -2, err: err.Error()}
	}
	for k, v := range hdr {
		req.Header.Set(k, v)
	}
	ctx, cancel := context.WithTimeout(context.Background(), 20*time.Second)
	defer cancel()
	resp, err := r.h3.RoundTrip(req.WithContext(ctx))
	if err != nil {
		return e2eHTTPResult{status: -1, err: e2eErrClass(err)}
	}
	defer resp.Body.Close()
	b, _ := io.ReadAll(io.LimitReader(resp.Body, 1<<20))
	res := e2eHTTPResult{status: resp.StatusCode, body: string(b)}
	for k, vs := range resp.Header {
		if k == "Date" {
			continue
		}
		for _, v := range vs {
			res.hdr = append(res.hdr, k+": "+v)
		}
	}
	sort.Strings(res.hdr)
	return res
}

func (a e2eHTTPResult) same(b e2eHTTPResult) bool {
	return a.status == b.status && a.body == b.body && strings.Join(a.hdr, "\n") == strings.Join(b.hdr, "\n") && a.err == b.err
}

func (a e2eHTTPResult) hysteriaHeader() bool {
	for _, h := range a.hdr {
		if strings.HasPrefix(strings.ToLower(h), "hysteria-") {
			return true
		}
	}
	return false
}

// error class that is comparable between two servers (no addresses, no stream numbers)
func e2eErrClass(err error) string {
	if err == nil {
		return ""
	}
	var se *quic.StreamError
	if errors.As(err, &se) {
		return fmt.Sprintf("reset:%d", uint64(se.ErrorCode))
	}
	var ae *quic.ApplicationError
	if errors.As(err, &ae) {
		return fmt.Sprintf("closed:%d", uint64(ae.ErrorCode))
	}
	var te *quic.TransportError
	if errors.As(err, &te) {
		return fmt.Sprintf("transport:%d", uint64(te.ErrorCode))
	}
	var ne net.Error
	if errors.As(err, &ne) && ne.Timeout() {
		return "silent"
	}
	if errors.Is(err, io.EOF) {
		return "eof"
	}
	if errors.Is(err, context.DeadlineExceeded) {
		return "silent"
	}
	var h3e *http3.Error
	if errors.As(err, &h3e) {
		return fmt.Sprintf("h3:%d", uint64(h3e.ErrorCode))
	}
	return "error"
}

// what a raw bidirectional stream observes after sending `payload`
func (r *e2eRaw) streamProbe(payload []byte, wait time.Duration) string {
	st, err := r.qc.OpenStream()
	if err != nil {
		return "open-" + e2eErrClass(err)
	}
	if _, err := st.Write(payload); err != nil {
		return "write-" + e2eErrClass(err)
	}
	st.SetReadDeadline(time.Now().Add(wait))
	buf := make([]byte, 256)
	n, err := st.Read(buf)
	st.CancelRead(0)
	st.Close()
	if n > 0 {
		return "bytes"
	}
	return e2eErrClass(err)
}

// a self-signed certificate made at run time (no dependency on test.crt/test.key, so that this file can be
// injected into packages of other modules as well)
var e2eCertOnce sync.Once
var e2eCert tls.Certificate

func e2eServerTLS() server.TLSConfig {
	e2eCertOnce.Do(func() {
		key, err := ecdsa.GenerateKey(elliptic.P256(), crand.Reader)
		if err != nil {
			panic(err)
		}
		tmpl := &x509.Certificate{SerialNumber: big.NewInt(1), Subject: pkix.Name{CommonName: "verif.test"},
			NotBefore: time.Unix(0, 0), NotAfter: time.Now().AddDate(100, 0, 0), DNSNames: []string{"verif.test"},
			KeyUsage: x509.KeyUsageDigitalSignature, ExtKeyUsage: []x509.ExtKeyUsage{x509.ExtKeyUsageServerAuth}}
		der, err := x509.CreateCertificate(crand.Reader, tmpl, tmpl, &key.PublicKey, key)
		if err != nil {
			panic(err)
		}
		e2eCert = tls.Certificate{Certificate: [][]byte{der}, PrivateKey: key}
	})
	return server.TLSConfig{Certificates: []tls.Certificate{e2eCert}}
}

func tlsFromServer(c server.TLSConfig) *tls.Config {
	return &tls.Config{Certificates: c.Certificates}
}
