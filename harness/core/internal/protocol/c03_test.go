package protocol

// C03 driver (core/internal/protocol): every shape of Sys_Shapes for ParseUDPMessage, ReadTCPRequest and
// ReadTCPResponse is concretised to bytes (cap == len) and fed to the real decoder under recover();
// plus AuthResponseFromHeader vectors and seeded byte-level perturbations (judged on panic only).

import (
	"bytes"
	"io"
	"net/http"
	"strconv"
	"strings"
	"testing"
	"testing/iotest"

	kit "github.com/apernet/hysteria/core/v2/internal/verifkit"
)

const c03MaxVarint = 1<<62 - 1

func c03UDPBytes(s kit.Shape, salt int) []byte {
	n, vlen, laddr := s.I("n"), s.I("vlen"), kit.Wide(s.I("laddr"), c03MaxVarint)
	r := kit.Rand(int64(salt))
	b := kit.Fill(r, 8)
	b = append(b, kit.QUICVarintN(laddr, vlen)...)
	if len(b) < n {
		b = append(b, kit.Fill(r, n-len(b))...)
	}
	return kit.Exact(b[:n])
}

func c03Varint(v int, avail string) []byte {
	if avail == "vtrunc" {
		return []byte{0x40} // first byte of a two-byte varint, then EOF
	}
	return kit.QUICVarint(kit.Wide(v, c03MaxVarint))
}

func c03Body(l int, avail string) int {
	switch avail {
	case "none", "vtrunc":
		return 0
	case "short":
		if l == kit.Huge {
			return 100
		}
		if l > 0 {
			return l - 1
		}
		return 0
	}
	if l == kit.Huge {
		return 100
	}
	return l
}

// the stream holding one TCP request/response of the given shape
func c03TCPBytes(s kit.Shape, salt int, withStatus bool) []byte {
	r := kit.Rand(int64(salt))
	var b []byte
	if withStatus {
		st := s.I("status")
		if st < 0 {
			return nil
		}
		b = append(b, byte(st))
	}
	b = append(b, c03Varint(s.I("alen"), s.S("aavail"))...)
	if s.S("aavail") == "vtrunc" {
		return b
	}
	b = append(b, kit.Fill(r, c03Body(s.I("alen"), s.S("aavail")))...)
	if s.S("aavail") != "full" {
		return b
	}
	b = append(b, c03Varint(s.I("plen"), s.S("pavail"))...)
	if s.S("pavail") == "vtrunc" {
		return b
	}
	b = append(b, kit.Fill(r, c03Body(s.I("plen"), s.S("pavail")))...)
	if r.Intn(2) == 0 && s.S("pavail") == "full" {
		b = append(b, kit.Fill(r, 1+r.Intn(20))...) // bytes of the proxied stream follow
	}
	return b
}

func c03Reader(b []byte, salt int) io.Reader {
	if salt%3 == 0 {
		return iotest.OneByteReader(bytes.NewReader(b))
	}
	if salt%3 == 1 {
		return iotest.DataErrReader(bytes.NewReader(b))
	}
	return bytes.NewReader(b)
}

func TestVerif_C03(t *testing.T) {
	tr := kit.Open("C03-protocol")
	defer tr.Close()
	tr.Reset(kit.E{"src": "shapes"})
	r := kit.Rand(31)
	var corpus [][]byte
	for i, s := range kit.LoadShapes("shapes", "udpmsg", "tcpreq", "tcpresp") {
		switch s.Dec {
		case "udpmsg":
			b := c03UDPBytes(s, i)
			corpus = append(corpus, b)
			tr.Dec("udpmsg", s.Expect, "n="+strconv.Itoa(len(b)), func() bool {
				m, err := ParseUDPMessage(b)
				if err == nil {
					_ = m.Size()
					_ = m.Serialize(make([]byte, m.Size()))
				}
				return err == nil
			})
		case "tcpreq":
			b := c03TCPBytes(s, i, false)
			tr.Dec("tcpreq", s.Expect, "n="+strconv.Itoa(len(b)), func() bool {
				_, err := ReadTCPRequest(c03Reader(b, i))
				return err == nil
			})
			if len(b) < 300 {
				corpus = append(corpus, b)
			}
		case "tcpresp":
			b := c03TCPBytes(s, i, true)
			tr.Dec("tcpresp", s.Expect, "n="+strconv.Itoa(len(b)), func() bool {
				_, _, err := ReadTCPResponse(c03Reader(b, i))
				return err == nil
			})
			if len(b) < 300 {
				corpus = append(corpus, b)
			}
		}
	}
	// every prefix of a maximal well-formed datagram / request
	tr.Reset(kit.E{"src": "prefixes"})
	full := &UDPMessage{SessionID: 7, PacketID: 9, FragID: 1, FragCount: 3, Addr: strings.Repeat("a", 300) + ":53", Data: kit.Fill(r, 40)}
	fb := make([]byte, full.Size())
	full.Serialize(fb)
	for n := 0; n <= len(fb); n++ {
		b := kit.Exact(fb[:n])
		tr.Dec("udpmsg", "any", "prefix", func() bool { _, err := ParseUDPMessage(b); return err == nil })
	}
	var wb bytes.Buffer
	_ = WriteTCPRequest(&wb, "example.com:443")
	req := wb.Bytes()[2:] // ReadTCPRequest starts after the 0x401 frame type
	for n := 0; n <= len(req) && n < 200; n++ {
		b := kit.Exact(req[:n])
		tr.Dec("tcpreq", "any", "prefix", func() bool { _, err := ReadTCPRequest(bytes.NewReader(b)); return err == nil })
	}
	corpus = append(corpus, fb, req[:40])
	// seeded perturbations, judged on panic only
	tr.Reset(kit.E{"src": "perturb"})
	for i := 0; i < kit.Pick(3000, 60000); i++ {
		b := kit.Perturb(r, corpus[r.Intn(len(corpus))])
		if r.Intn(3) == 0 {
			b = kit.Perturb(r, b)
		}
		switch r.Intn(3) {
		case 0:
			tr.Dec("udpmsg", "any", "perturbed", func() bool { _, err := ParseUDPMessage(b); return err == nil })
		case 1:
			tr.Dec("tcpreq", "any", "perturbed", func() bool { _, err := ReadTCPRequest(c03Reader(b, i)); return err == nil })
		default:
			tr.Dec("tcpresp", "any", "perturbed", func() bool { _, _, err := ReadTCPResponse(c03Reader(b, i)); return err == nil })
		}
	}
	// replies arriving at a client: the authentication response headers
	tr.Reset(kit.E{"src": "authresp"})
	vals := []string{"", "auto", "AUTO", "0", "1", "-1", "18446744073709551615", "18446744073709551616", "1e9", " 5", "5 ", "0x10",
		strings.Repeat("9", 4000), "\x00", "true", "false", "T", "١٢٣", string(kit.Fill(r, 64))}
	for _, a := range vals {
		for _, b := range vals {
			h := http.Header{}
			h.Set(ResponseHeaderUDPEnabled, a)
			h.Set(CommonHeaderCCRX, b)
			h.Add(CommonHeaderCCRX, a)
			tr.Dec("authresp", "any", "hdr", func() bool { _ = AuthResponseFromHeader(h); return true })
		}
	}
	tr.Dec("authresp", "any", "empty", func() bool { _ = AuthResponseFromHeader(http.Header{}); return true })
	tr.Dec("authresp", "any", "nil", func() bool { _ = AuthResponseFromHeader(nil); return true })
	t.Logf("events=%d", tr.Count())
}
