package client

// C03 driver (core/client): replies arriving at a client.  Datagrams parsed from (perturbed) wire bytes are fed
// to the client's udpSessionManager.feed and consumed through udpConn.Receive (Defragger behind it);
// oversized sends go through udpConn.Send with a transport that reports "datagram too large".

import (
	"fmt"
	"runtime"
	"strings"
	"sync"
	"testing"

	"github.com/apernet/quic-go"

	"github.com/apernet/hysteria/core/v2/internal/protocol"
	kit "github.com/apernet/hysteria/core/v2/internal/verifkit"
)

type c03IO struct{ max int }

func (io *c03IO) ReceiveMessage() (*protocol.UDPMessage, error) { select {} }
func (io *c03IO) SendMessage(buf []byte, msg *protocol.UDPMessage) error {
	n := msg.Serialize(buf)
	if n < 0 {
		return nil
	}
	if n > io.max {
		return &quic.DatagramTooLargeError{MaxDatagramPayloadSize: int64(io.max)}
	}
	return nil
}

func TestVerif_C03(t *testing.T) {
	tr := kit.Open("C03-client")
	defer tr.Close()
	r := kit.Rand(35)
	for round := 0; round < kit.Pick(60, 600); round++ {
		tr.Reset(kit.E{"src": "client"})
		io := &c03IO{max: 1200}
		// the manager without its receive goroutine: the driver plays ReceiveMessage -> feed itself
		m := &udpSessionManager{io: io, m: make(map[uint32]*udpConn), nextID: 1}
		var conns []*udpConn
		for i := 0; i < 3; i++ {
			c, _ := m.NewUDP()
			conns = append(conns, c.(*udpConn))
		}
		for k := 0; k < 10+r.Intn(80); k++ {
			cnt := []uint8{0, 1, 1, 2, 3, 255, uint8(r.Intn(256))}[r.Intn(7)]
			fid := uint8(r.Intn(256))
			if cnt > 0 && r.Intn(2) == 0 {
				fid = uint8(r.Intn(int(cnt)))
			}
			src := &protocol.UDPMessage{SessionID: uint32(r.Intn(5)), PacketID: uint16(r.Intn(3)), FragID: fid, FragCount: cnt,
				Addr: []string{"1.2.3.4:53", "x", strings.Repeat("h", 2048)}[r.Intn(3)], Data: kit.Fill(r, 1+r.Intn(1200))}
			wire := make([]byte, src.Size())
			src.Serialize(wire)
			if r.Intn(3) == 0 {
				wire = kit.Perturb(r, wire)
			}
			wire = kit.Exact(wire)
			var msg *protocol.UDPMessage
			tr.Dec("udpmsg", "any", "cli wire", func() bool {
				var err error
				msg, err = protocol.ParseUDPMessage(wire)
				return err == nil
			})
			if msg == nil {
				continue
			}
			tr.Dec("clifeed", "any", fmt.Sprintf("sid=%d pkt=%d fid=%d cnt=%d", msg.SessionID, msg.PacketID, msg.FragID, msg.FragCount), func() bool {
				m.feed(msg)
				return true
			})
		}
		// a well-formed fragmented reply for session 2 behind the junk, then everything is consumed
		m.feed(&protocol.UDPMessage{SessionID: 2, PacketID: 60000, FragID: 1, FragCount: 2, Addr: "9.9.9.9:53", Data: []byte("llo")})
		m.feed(&protocol.UDPMessage{SessionID: 2, PacketID: 60000, FragID: 0, FragCount: 2, Addr: "9.9.9.9:53", Data: []byte("he")})
		served := false
		for i, c := range conns {
			_ = c.Close()
			for {
				var data []byte
				var err error
				out := tr.Dec("clirecv", "any", fmt.Sprintf("conn=%d", i), func() bool {
					data, _, err = c.Receive()
					return err == nil
				})
				if out != "accept" {
					break
				}
				if c.ID == 2 && string(data) == "hello" {
					served = true
				}
			}
		}
		tr.Probe("clirecv", served)
	}
	// replies racing with the application closing the session: feed (here called by the driver, as run() does) must
	// never hit a closed channel, whatever the interleaving with Close
	tr.Reset(kit.E{"src": "cliclose-race"})
	{
		io := &c03IO{max: 1200}
		m := &udpSessionManager{io: io, m: make(map[uint32]*udpConn), nextID: 1}
		for it := 0; it < kit.Pick(4000, 40000); it++ {
			c, _ := m.NewUDP()
			uc := c.(*udpConn)
			stop := make(chan struct{})
			var wg sync.WaitGroup
			for g := 0; g < 3; g++ {
				wg.Add(1)
				go func() {
					defer wg.Done()
					for {
						select {
						case <-stop:
							return
						default:
						}
						msg := &protocol.UDPMessage{SessionID: uc.ID, PacketID: 0, FragID: 0, FragCount: 1, Addr: "9.9.9.9:53", Data: []byte("r")}
						if p := kit.Catch(func() { m.feed(msg) }); p != "" {
							tr.Ev(kit.E{"ev": "Panic", "what": "feed racing Close", "msg": p})
							return
						}
					}
				}()
			}
			for y := r.Intn(40); y > 0; y-- {
				runtime.Gosched()
			}
			_ = uc.Close()
			for y := r.Intn(10); y > 0; y-- {
				runtime.Gosched()
			}
			close(stop)
			wg.Wait()
		}
		tr.Probe("clifeed", true)
	}
	// send side
	tr.Reset(kit.E{"src": "clisend"})
	for i := 0; i < kit.Pick(800, 8000); i++ {
		alen := []int{1, 9, 63, 64, 300, 1170, 2048, 1 + r.Intn(2100)}[r.Intn(8)]
		hdr := 8 + len(kit.QUICVarint(uint64(alen))) + alen
		max := []int{0, hdr - 1, hdr, hdr + 1, hdr + 2, hdr + 16, 1200, r.Intn(1500)}[r.Intn(8)]
		dlen := 1 + r.Intn(protocol.MaxUDPSize)
		if i == 0 {
			alen, max, dlen = 1170, 1195, 4096-1170-11
		}
		io := &c03IO{max: max}
		c := &udpConn{ID: 1, SendBuf: make([]byte, protocol.MaxUDPSize), SendFunc: io.SendMessage}
		tr.Dec("clisend", "any", fmt.Sprintf("dlen=%d alen=%d max=%d", dlen, alen, max), func() bool {
			return c.Send(make([]byte, dlen), strings.Repeat("r", alen)) == nil
		})
	}
	t.Logf("events=%d", tr.Count())
}
