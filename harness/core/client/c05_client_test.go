package client

// C05 end-to-end part, client side: the real udpSessionManager / udpConn (Receive with its Defragger, Send with
// fragmentation after DatagramTooLargeError, Close, connection loss) between a fake udpIO, in a synctest bubble.
// Validated against Prop_C05e (and modelled by Sys_ClientUDP).

import (
	"bytes"
	"errors"
	"fmt"
	"io"
	"runtime"
	"sort"
	"sync"
	"testing"
	"testing/synctest"

	"github.com/apernet/quic-go"

	"github.com/apernet/hysteria/core/v2/internal/frag"
	"github.com/apernet/hysteria/core/v2/internal/protocol"
	kit "github.com/apernet/hysteria/core/v2/internal/verifkit"
)

type c05IO struct {
	tr    *kit.Trace
	in    chan *protocol.UDPMessage
	meta  sync.Map // *UDPMessage -> [msg, fid, cnt]
	mu    sync.Mutex
	limit int
	out   []protocol.UDPMessage // frames of the Send in progress (deep copies)
	failAt int // the failAt-th datagram of the Send in progress is refused by the transport (0: none)
	race  bool
	raceN, raceBad int
}

func (f *c05IO) ReceiveMessage() (*protocol.UDPMessage, error) {
	m, ok := <-f.in
	if !ok {
		return nil, errors.New("connection lost")
	}
	if v, ok := f.meta.Load(m); ok {
		x := v.([3]int)
		f.tr.Ev(kit.E{"ev": "Inject", "sid": int(m.SessionID), "msg": x[0], "fid": x[1], "cnt": x[2]})
	}
	return m, nil
}

func (f *c05IO) SendMessage(buf []byte, m *protocol.UDPMessage) error {
	if f.race {
		// several sessions send at the same time: like a real transport, the fake looks at the buffer a little later
		// than Serialize filled it; each session's buffer must still hold that session's message
		n := m.Serialize(buf)
		if n < 0 {
			return nil
		}
		for i := 0; i < 3; i++ {
			runtime.Gosched()
		}
		p, err := protocol.ParseUDPMessage(append([]byte(nil), buf[:n]...))
		ok := err == nil && p.SessionID == m.SessionID && p.Addr == m.Addr && bytes.Equal(p.Data, m.Data)
		f.mu.Lock()
		f.raceN++
		if !ok {
			f.raceBad++
			sid := -1
			if err == nil {
				sid = int(p.SessionID)
			}
			if f.raceBad <= 3 {
				f.tr.Ev(kit.E{"ev": "SendOut", "conn": int(m.SessionID), "sid": sid, "n": 1, "sizes": []int{n}, "limit": 1 << 30, "concatOk": false, "hdrSame": false, "err": false})
			}
		}
		f.mu.Unlock()
		return nil
	}
	f.mu.Lock()
	defer f.mu.Unlock()
	if f.limit > 0 && m.Size() > f.limit {
		return &quic.DatagramTooLargeError{MaxDatagramPayloadSize: int64(f.limit)}
	}
	if f.failAt > 0 && len(f.out)+1 == f.failAt {
		return errors.New("transport refused the datagram")
	}
	n := m.Serialize(buf)
	if n < 0 {
		return nil
	}
	p, err := protocol.ParseUDPMessage(append([]byte(nil), buf[:n]...))
	if err != nil {
		f.out = append(f.out, protocol.UDPMessage{SessionID: 0xffffffff})
		return nil
	}
	f.out = append(f.out, *p)
	return nil
}

func c05eTok(msg, fid, n int) []byte {
	b := make([]byte, 0, 2*n)
	for i := 0; i < n; i++ {
		b = append(b, byte(msg), byte(fid))
	}
	return b
}

func c05ePieces(data []byte) [][]int {
	if len(data) == 0 || len(data)%2 != 0 {
		return [][]int{{-1, -1}}
	}
	ps := [][]int{}
	for i := 0; i < len(data); i += 2 {
		p := []int{int(data[i]), int(data[i+1])}
		if len(ps) == 0 || ps[len(ps)-1][0] != p[0] || ps[len(ps)-1][1] != p[1] {
			ps = append(ps, p)
		}
	}
	return ps
}

func c05eRun(t *testing.T, tr *kit.Trace, seed int64, src string) {
	synctest.Test(t, func(t *testing.T) {
		r := kit.Rand(seed)
		tr.Reset(kit.E{"src": src})
		fio := &c05IO{tr: tr, in: make(chan *protocol.UDPMessage, 4096)}
		sm := newUDPSessionManager(fio)
		type sess struct {
			c    *udpConn
			id   int
			done chan struct{}
			open bool
		}
		var ss []*sess
		addrOf := map[int]string{}
		lost := false
		nmsg := 0
		lens := map[int][]int{}
		var lmu sync.Mutex
		newSess := func() {
			c, err := sm.NewUDP()
			if err != nil {
				tr.Ev(kit.E{"ev": "NewUDP", "id": 0, "ok": false})
				return
			}
			uc := c.(*udpConn)
			s := &sess{c: uc, id: int(uc.ID), done: make(chan struct{}), open: true}
			tr.Ev(kit.E{"ev": "NewUDP", "id": s.id, "ok": true})
			ss = append(ss, s)
			go func() {
				defer close(s.done)
				for {
					var data []byte
					var addr string
					var err error
					if p := kit.Catch(func() { data, addr, err = uc.Receive() }); p != "" {
						tr.Ev(kit.E{"ev": "Panic", "what": "Receive", "msg": p})
						return
					}
					if err != nil {
						if err == io.EOF {
							tr.Ev(kit.E{"ev": "RecvEOF", "conn": s.id})
						}
						return
					}
					ps := c05ePieces(data)
					ok := false
					lmu.Lock()
					if ls, found := lens[ps[0][0]]; found {
						want := 0
						for _, l := range ls {
							want += 2 * l
						}
						ok = addr == addrOf[ps[0][0]] && (len(ps) != len(ls) || len(data) == want)
					}
					lmu.Unlock()
					tr.Ev(kit.E{"ev": "Recv", "conn": s.id, "pieces": ps, "hdrOk": ok})
				}
			}()
		}
		inject := func(sid int) {
			nmsg++
			m := nmsg
			if m > 250 {
				return
			}
			cnt := 1 + r.Intn(4)
			ls := make([]int, cnt)
			for i := range ls {
				ls[i] = 1 + r.Intn(5)
			}
			lmu.Lock()
			lens[m] = ls
			addrOf[m] = string([]byte{'h', byte('a' + m%26), ':', '5', '3'})
			lmu.Unlock()
			order := r.Perm(cnt)
			if r.Intn(3) == 0 {
				order = append(order, order[r.Intn(len(order))]) // duplicate
			}
			if r.Intn(6) == 0 && cnt > 1 {
				order = order[:len(order)-1] // loss
			}
			for _, fid := range order {
				um := &protocol.UDPMessage{SessionID: uint32(sid), PacketID: uint16(1000 + m), FragID: uint8(fid), FragCount: uint8(cnt), Addr: addrOf[m], Data: c05eTok(m, fid, ls[fid])}
				fio.meta.Store(um, [3]int{m, fid, cnt})
				if !lost {
					fio.in <- um
				}
			}
		}
		send := func(s *sess) {
			dlen := 1 + r.Intn(3000)
			alen := 1 + r.Intn(80)
			limit := []int{0, 40, 100, 300, 1200}[r.Intn(5)]
			if r.Intn(8) == 0 {
				limit = 8 + alen // at or below the header size
			}
			data := make([]byte, dlen)
			for i := range data {
				data[i] = byte(i*13 + dlen)
			}
			addr := string(bytes.Repeat([]byte{'x'}, alen))
			fio.mu.Lock()
			fio.limit, fio.out = limit, nil
			fio.mu.Unlock()
			var err error
			if p := kit.Catch(func() { err = s.c.Send(data, addr) }); p != "" {
				tr.Ev(kit.E{"ev": "Panic", "what": "Send", "msg": p})
				return
			}
			fio.mu.Lock()
			out := fio.out
			fio.mu.Unlock()
			sort.SliceStable(out, func(i, j int) bool { return out[i].FragID < out[j].FragID })
			var cat []byte
			sizes := []int{}
			same := true
			sid := s.id
			for i, fm := range out {
				sizes = append(sizes, fm.Size())
				cat = append(cat, fm.Data...)
				if fm.Addr != addr || int(fm.FragCount) != len(out) || int(fm.FragID) != i || fm.PacketID != out[0].PacketID {
					same = false
				}
				sid = int(fm.SessionID)
			}
			lim := limit
			if lim == 0 {
				lim = 1 << 30
			}
			tr.Ev(kit.E{"ev": "SendOut", "conn": s.id, "sid": sid, "n": len(out), "sizes": sizes, "limit": lim, "concatOk": bytes.Equal(cat, data), "hdrSame": same, "err": err != nil})
		}
		for k := 0; k < 10+r.Intn(30); k++ {
			x := r.Intn(100)
			switch {
			case x < 15 || len(ss) == 0:
				newSess()
			case x < 60:
				sid := 1 + r.Intn(len(ss)+1) // sometimes a session that does not exist
				inject(sid)
			case x < 75:
				send(ss[r.Intn(len(ss))])
			case x < 88:
				s := ss[r.Intn(len(ss))]
				if s.open {
					synctest.Wait() // nothing in flight: the order of Inject and Close events is the real order
					s.open = false
					tr.Ev(kit.E{"ev": "Close", "conn": s.id})
					s.c.Close()
				}
			case x < 92 && !lost && k > 8:
				synctest.Wait()
				lost = true
				tr.Ev(kit.E{"ev": "Loss"})
				close(fio.in)
				synctest.Wait() // the manager has noticed the loss before anything else is tried
			default:
				synctest.Wait()
			}
		}
		synctest.Wait()
		// one session sends several messages in a row, the transport refusing a datagram in the middle of some of them;
		// everything that did reach the wire goes, in wire order, through a reassembler of the far side's kind: whatever
		// comes out must be, byte for byte, one of the messages the application sent (or nothing)
		if !lost && r.Intn(2) == 0 {
			for _, s := range ss {
				if s.open {
					c05eSendSeq(tr, fio, s.c, s.id, r.Int63())
					break
				}
			}
		}
		// several sessions sending concurrently (Send is per session: each has its own state, nothing may be shared)
		if !lost && len(ss) >= 2 && r.Intn(2) == 0 {
			fio.mu.Lock()
			fio.race, fio.limit = true, 0
			fio.mu.Unlock()
			var wg sync.WaitGroup
			for _, s := range ss {
				if !s.open {
					continue
				}
				wg.Add(1)
				go func(s *sess) {
					defer wg.Done()
					for k := 0; k < 150; k++ {
						data := bytes.Repeat([]byte{byte(s.id), byte(k)}, 20+k%50)
						if p := kit.Catch(func() { s.c.Send(data, fmt.Sprintf("s%d:53", s.id)) }); p != "" {
							tr.Ev(kit.E{"ev": "Panic", "what": "Send", "msg": p})
							return
						}
					}
				}(s)
			}
			wg.Wait()
			fio.mu.Lock()
			tr.Ev(kit.E{"ev": "SendRace", "sends": fio.raceN, "bad": fio.raceBad})
			fio.race = false
			fio.mu.Unlock()
		}
		if !lost {
			lost = true
			tr.Ev(kit.E{"ev": "Loss"})
			close(fio.in)
			synctest.Wait()
		}
		synctest.Wait()
		newSess() // must be refused after the loss
		open := []int{}
		for _, s := range ss {
			select {
			case <-s.done:
			default:
				open = append(open, s.id)
			}
		}
		tr.Ev(kit.E{"ev": "End", "open": open})
		for _, s := range ss { // release whatever is still blocked so that the bubble can end
			if s.open {
				s.c.Close()
			}
		}
		synctest.Wait()
	})
}

func c05eSendSeq(tr *kit.Trace, fio *c05IO, c *udpConn, id int, seed int64) {
	attempt := func() kit.E {
		r := kit.Rand(seed)
		d := &frag.Defragger{}
		nm := 2 + r.Intn(4)
		limit := []int{100, 300, 1200}[r.Intn(3)]
		addr := string(bytes.Repeat([]byte{'y'}, 1+r.Intn(20)))
		base := limit*2 + r.Intn(limit*3) // same size class: consecutive messages split into the same number of fragments
		var sent [][]byte
		emitted, bad, failed, frames := 0, 0, 0, 0
		for k := 0; k < nm; k++ {
			dlen := base
			if r.Intn(4) == 0 {
				dlen = 1 + r.Intn(limit*5)
			}
			data := make([]byte, dlen)
			for i := range data {
				data[i] = byte(i*11 + k*37 + int(seed))
			}
			data[0] = byte(k) // no two messages of the sequence are equal
			fio.mu.Lock()
			fio.limit, fio.out, fio.failAt = limit, nil, 0
			if k < nm-1 && r.Intn(3) != 0 {
				fio.failAt = 2 + r.Intn(3)
			}
			fio.mu.Unlock()
			var err error
			if p := kit.Catch(func() { err = c.Send(data, addr) }); p != "" {
				tr.Ev(kit.E{"ev": "Panic", "what": "Send", "msg": p})
			}
			if err != nil {
				failed++
			}
			sent = append(sent, data)
			fio.mu.Lock()
			out := fio.out
			fio.failAt = 0
			fio.mu.Unlock()
			for i := range out {
				frames++
				fm := out[i]
				fm.Data = append([]byte(nil), fm.Data...)
				if m := d.Feed(&fm); m != nil {
					emitted++
					ok := false
					for _, x := range sent {
						ok = ok || (bytes.Equal(x, m.Data) && m.Addr == addr)
					}
					if !ok {
						bad++
					}
				}
			}
		}
		return kit.E{"ev": "SendSeq", "conn": id, "msgs": nm, "failed": failed, "frames": frames, "emitted": emitted, "bad": bad, "retried": false}
	}
	e := attempt()
	if e["bad"].(int) > 0 || (e["failed"].(int) == 0 && e["emitted"].(int) != e["msgs"].(int)) {
		// packet IDs are drawn at random: two consecutive messages share one with probability 2^-16; the same sequence once more
		// tells a sender that reuses IDs (it fails again) from that coincidence
		e = attempt()
		e["retried"] = true
	}
	tr.Ev(e)
}

func TestVerif_C05e(t *testing.T) {
	tr := kit.Open("C05e")
	defer tr.Close()
	for i := 0; i < kit.Pick(200, 2000); i++ {
		c05eRun(t, tr, int64(1000+i), "rand")
	}
	t.Logf("events=%d", tr.Count())
}
