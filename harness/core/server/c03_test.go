package server

// C03 driver (core/server): datagrams of every kind (parsed from perturbed wire bytes, adversarial fragment
// sequences over several session IDs) into one long-lived udpSessionManager.feed, and replies of any size /
// source-address length through sendMessageAutoFrag with a transport that reports "datagram too large"
// for every budget (the sender-side crash D1 lives here).  Everything under recover(); after each batch
// a fresh session must still be served (Probe).

import (
	"errors"
	"fmt"
	"strings"
	"sync"
	"testing"
	"time"

	"github.com/apernet/quic-go"

	"github.com/apernet/hysteria/core/v2/internal/protocol"
	kit "github.com/apernet/hysteria/core/v2/internal/verifkit"
)

type c03Conn struct {
	mu     sync.Mutex
	wrote  [][]byte
	closed chan struct{}
	once   sync.Once
}

func (c *c03Conn) ReadFrom(b []byte) (int, string, error) {
	<-c.closed
	return 0, "", errors.New("closed")
}

func (c *c03Conn) WriteTo(b []byte, addr string) (int, error) {
	c.mu.Lock()
	c.wrote = append(c.wrote, append([]byte{}, b...))
	c.mu.Unlock()
	return len(b), nil
}

func (c *c03Conn) Close() error { c.once.Do(func() { close(c.closed) }); return nil }

type c03IO struct {
	mu      sync.Mutex
	max     int // datagram budget reported by the transport
	sent    int
	conns   []*c03Conn
	hookErr bool
	dialErr bool
}

func (io *c03IO) ReceiveMessage() (*protocol.UDPMessage, error) { select {} }
func (io *c03IO) SendMessage(buf []byte, msg *protocol.UDPMessage) error {
	n := msg.Serialize(buf)
	if n < 0 {
		return nil
	}
	if n > io.max {
		return &quic.DatagramTooLargeError{MaxDatagramPayloadSize: int64(io.max)}
	}
	io.sent++
	return nil
}

func (io *c03IO) Hook(data []byte, reqAddr *string) error {
	if io.hookErr {
		return errors.New("hook says no")
	}
	return nil
}

func (io *c03IO) UDP(reqAddr string) (UDPConn, error) {
	if io.dialErr {
		return nil, errors.New("dial failed")
	}
	c := &c03Conn{closed: make(chan struct{})}
	io.mu.Lock()
	io.conns = append(io.conns, c)
	io.mu.Unlock()
	return c, nil
}
func (io *c03IO) CheckUDP(reqAddr string) error { return nil }

type c03Log struct{}

func (c03Log) New(sessionID uint32, reqAddr string) {}
func (c03Log) Close(sessionID uint32, err error)    {}

func TestVerif_C03(t *testing.T) {
	tr := kit.Open("C03-server")
	defer tr.Close()
	r := kit.Rand(34)

	// ---- receive side: udpSessionManager.feed ----
	for round := 0; round < kit.Pick(40, 400); round++ {
		tr.Reset(kit.E{"src": "feed"})
		io := &c03IO{max: 1200}
		m := newUDPSessionManager(io, c03Log{}, time.Minute)
		for k := 0; k < 20+r.Intn(60); k++ {
			io.hookErr, io.dialErr = r.Intn(10) == 0, r.Intn(10) == 0
			cnt := []uint8{0, 1, 1, 2, 3, 255, uint8(r.Intn(256))}[r.Intn(7)]
			fid := uint8(r.Intn(256))
			if cnt > 0 && r.Intn(2) == 0 {
				fid = uint8(r.Intn(int(cnt)))
			}
			src := &protocol.UDPMessage{SessionID: uint32(r.Intn(4)), PacketID: uint16(r.Intn(3)), FragID: fid, FragCount: cnt,
				Addr: []string{"1.2.3.4:53", "x", strings.Repeat("h", 2048), "[::1]:1"}[r.Intn(4)], Data: kit.Fill(r, 1+r.Intn(1200))}
			wire := make([]byte, src.Size())
			src.Serialize(wire)
			if r.Intn(3) == 0 {
				wire = kit.Perturb(r, wire)
			}
			wire = kit.Exact(wire)
			var msg *protocol.UDPMessage
			tr.Dec("udpmsg", "any", "srv wire", func() bool {
				var err error
				msg, err = protocol.ParseUDPMessage(wire)
				return err == nil
			})
			if msg == nil {
				continue
			}
			tr.Dec("srvfeed", "any", fmt.Sprintf("sid=%d pkt=%d fid=%d cnt=%d", msg.SessionID, msg.PacketID, msg.FragID, msg.FragCount), func() bool {
				m.feed(msg)
				return true
			})
		}
		// service continues: a fresh session gets its datagram delivered
		io.hookErr, io.dialErr = false, false
		before := len(io.conns)
		ok := false
		p := kit.Catch(func() {
			m.feed(&protocol.UDPMessage{SessionID: 1000, PacketID: 5, FragID: 0, FragCount: 2, Addr: "9.9.9.9:53", Data: []byte("he")})
			m.feed(&protocol.UDPMessage{SessionID: 1000, PacketID: 5, FragID: 1, FragCount: 2, Addr: "9.9.9.9:53", Data: []byte("llo")})
			if len(io.conns) == before+1 {
				c := io.conns[before]
				c.mu.Lock()
				ok = len(c.wrote) == 1 && string(c.wrote[0]) == "hello"
				c.mu.Unlock()
			}
		})
		if p != "" {
			tr.Ev(kit.E{"ev": "Panic", "what": "srv probe", "msg": p})
		} else {
			tr.Probe("srvfeed", ok)
		}
		m.cleanup(false)
	}

	// ---- send side: replies from the target through sendMessageAutoFrag ----
	tr.Reset(kit.E{"src": "send"})
	buf := make([]byte, protocol.MaxUDPSize)
	send := func(dlen, alen, max int, expect string) {
		io := &c03IO{max: max}
		msg := &protocol.UDPMessage{SessionID: 3, PacketID: 0, FragID: 0, FragCount: 1, Addr: strings.Repeat("r", alen), Data: make([]byte, dlen)}
		tr.Dec("srvsend", expect, fmt.Sprintf("dlen=%d alen=%d max=%d", dlen, alen, max), func() bool {
			return sendMessageAutoFrag(io, buf, msg) == nil
		})
	}
	for _, c := range [][3]int{{4096, 1170, 1195}, {256, 1, 11}, {255, 1, 11}, {4000, 60, 71}, {4000, 60, 70}, {4000, 60, 69}, {1, 1, 0}, {4085, 1, 1200}, {4086, 1, 1200}, {4096, 1, 1200}, {2000, 2048, 2059}} {
		send(c[0], c[1], c[2], "any")
	}
	for i := 0; i < kit.Pick(1500, 15000); i++ {
		alen := []int{1, 9, 63, 64, 300, 1170, 2048, 1 + r.Intn(2100)}[r.Intn(8)]
		hdr := 8 + len(kit.QUICVarint(uint64(alen))) + alen
		max := []int{0, hdr - 1, hdr, hdr + 1, hdr + 2, hdr + 16, 1200, 1252, r.Intn(1500)}[r.Intn(9)]
		send(1+r.Intn(protocol.MaxUDPSize), alen, max, "any")
	}
	t.Logf("events=%d", tr.Count())
}
